#!/bin/sh
# Builds the overlay interpreter (offline): python 3.12 + z3-solver/cvc5 wheels + /venv's site-packages (Twisted, zope)
set -e
cd "$(dirname "$0")"
if [ ! -x .venv/bin/python ] || ! .venv/bin/python -c "import z3, twisted, jsonschema" 2>/dev/null; then
  rm -rf .venv
  /venv/bin/python -m venv .venv
  PIP_NO_INDEX=1 .venv/bin/pip install -q --no-index --find-links /opt/veriftools/wheels z3-solver cvc5 crosshair-tool icontract deal hypothesis jsonschema
  SP=$(.venv/bin/python -c "import sysconfig;print(sysconfig.get_paths()['purelib'])")
  echo "import site; site.addsitedir('/venv/lib/python3.12/site-packages')" > "$SP/zz_venv_overlay.pth"
fi
.venv/bin/python -c "import z3, twisted, jsonschema; print('overlay ok', z3.get_version_string())"
