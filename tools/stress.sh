#!/bin/bash
# robustness: run every claimed check AT THE SAME TIME (all cores oversubscribed); evidence goes to a scratch directory
cd /verif
out=$(mktemp -d)
for p in $(.venv/bin/python -c "import json; print(' '.join(c['property_id'] for c in json.load(open('MANIFEST.json'))['checks']))"); do
  (PYVC_OUT=$out ./check $p > $out/$p.log 2>&1; echo "$p rc=$? $(grep -a -E '^C[0-9]+ tier' $out/$p.log | tail -1) $(grep -a -E 'VIOLATION|CHECKER|undecided:' $out/$p.log | head -2 | cut -c1-200 | tr '\n' ' ')" >> $out/summary) &
done
wait
sort $out/summary
rm -rf $out
