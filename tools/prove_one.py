"""debug helper: prove the obligations of ONE target of a property module; writes no evidence.
   usage: .venv/bin/python tools/prove_one.py c02 txdbus.marshal.marshal_array [clause-substring]"""
import sys, os, json
sys.path.insert(0, os.path.dirname(os.path.dirname(os.path.abspath(__file__))))
from pyvc import runner

if __name__ == '__main__':
    mod, target = sys.argv[1], sys.argv[2]
    r = runner._prove_one((mod, target, 'quick', 16))
    if 'crash' in r:
        print(r['crash']); sys.exit(3)
    for o in r['obligations']:
        if len(sys.argv) > 3 and sys.argv[3] not in o['name']:
            continue
        print('%-10s %6.2fs %-40s %s %s' % (o['status'], o['secs'], o['backend'][:40], o['name'][:110], (o.get('detail') or '')[:100]))
    print('paths', r.get('paths'), 'ends', r.get('feasible_end_paths'), 'raise_paths', r.get('raise_paths'))
    print('oos', r.get('out_of_subset'), 'error', r.get('error'), 'secs', r.get('secs'))
