#!/bin/bash
# for every `fixed` entry of known_findings.json: take a scratch worktree of /repo, reverse-apply the fix commit, run the
# property's check against it (evidence to a scratch dir) and expect a VIOLATION: "reports the violation again if it ever returns"
wt=/tmp/wt_revert; out=$(mktemp -d)
git -C /repo worktree remove --force $wt 2>/dev/null; rm -rf $wt
git -C /repo worktree add -q --detach $wt HEAD || exit 9
cd /verif
.venv/bin/python - <<'PY' > $out/list
import json
for f in json.load(open('/verif/known_findings.json'))['findings']:
    if f['status'] == 'fixed':
        print(f['id'], f['property'], f['commit'])
PY
while read id prop commit; do
  case " $ONLY " in "  ") ;; *" $id "*) ;; *) continue;; esac
  (cd $wt && git checkout -q -- . && git show $commit -- txdbus | git apply -R 2>/dev/null) || { echo "$id ($prop $commit): fix does not reverse-apply on HEAD (later commits touch the same lines)"; continue; }
  res=$(TXDBUS_REPO=$wt PYVC_OUT=$out ./check $prop 2>&1); rc=$?
  echo "$id ($prop $commit) reverted -> rc=$rc :: $(echo "$res" | grep -a -E 'VIOLATION|CHECKER' | head -2 | sed "s#$out##g" | cut -c1-170 | tr '\n' ' ')"
done < $out/list
git -C /repo worktree remove --force $wt; rm -rf $out
