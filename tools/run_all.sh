#!/bin/bash
# run every claimed check (quick tier) and print one line each
cd /verif
for p in $(.venv/bin/python -c "import json; print(' '.join(c['property_id'] for c in json.load(open('MANIFEST.json'))['checks']))"); do
  out=$(./check $p --tier ${TIER:-quick} 2>&1); rc=$?
  echo "$p rc=$rc $(echo "$out" | grep -E '^C[0-9]+ tier' | tail -1) $(echo "$out" | grep -E 'VIOLATION|CHECKER|undecided:' | head -3 | tr '\n' ' ')"
done
