"""C06 - the bus authenticates a peer only after a mechanism accepted it.

Server state machine of the DBus specification (WaitingForAuth / WaitingForData / WaitingForBegin), as a
total function of (state, command, argument lexing, mechanism outcome).  BusAuthenticator.handleAuthMessage -
with its handlers (_auth_*, stepAuth, reject, sendError) verified as part of it by inlining - is checked from
EVERY state satisfying the class invariant, for every line and every mechanism outcome (the mechanism is an
interface object whose step() returns an arbitrary (status, challenge): that is the quantifier over scripts):
  * authenticated' and not authenticated  =>  command == BEGIN and state == WaitingForBegin
  * state' == WaitingForBegin and state != WaitingForBegin  =>  a mechanism step in THIS call returned 'OK'
    and the reply is 'OK <guid>'
  * every other case: exactly one reply line of the prescribed kind (REJECTED <mechs> / ERROR / DATA <hex> / OK),
    the prescribed next state, rejection counter +1, active mechanism cancelled and dropped
  * the only exception that leaves the authenticator is DBusAuthenticationFailed (BEGIN out of turn, sixth rejection)
  * class invariant preserved.
Protocol side (BasicDBusProtocol.dataReceived, line mode, from protocol_common): a line longer than 16 KiB never
reaches the authenticator and closes, first byte other than NUL closes, DBusAuthenticationFailed closes, the
connection switches to binary only when the authenticator reports success; lines in order, split-independent.
Mechanisms: EXTERNAL and ANONYMOUS step() against the mechanism interface contract.
Bounded (labelled): command sequences <= 4 x mechanism scripts through the real BusProtocol against a reference
machine; DBUS_COOKIE_SHA1 (files, pwd) only there.
"""
import itertools
import random

import z3

from pyvc.values import *  # noqa
from pyvc.engine import World, ClassSpec
from pyvc.runner import Spec
from pyvc.models import ufun
from .base import contract, TxModels
from . import protocol_common as PC

A, MECH, AP = 'BusAuthenticator', 'IMech', 'AuthProto'
WFA, WFD, WFB = 'WaitingForAuth', 'WaitingForData', 'WaitingForBegin'


def step(self, arg): pass
def cancel(self): pass
def getUserName(self): pass
def init(self, protocol): pass
def sendAuthMessage(self, msg): pass


def ws_split(t):
    return ufun('ws_split', StringSort, z3.SeqSort(StringSort))(t)


class Models06(TxModels):
    def __init__(self, world):
        super().__init__(world)
        from txdbus import authentication as au
        self.register(au.IBusAuthenticationMechanism, lambda I, a, k: a[0])
        for cls in (au.BusExternalAuthenticator, au.BusCookieAuthenticator, au.BusAnonymousAuthenticator):
            self.instantiators[cls] = lambda I, a, k: I.ctx.new_ref(MECH)
        self.getattr_hooks.append(self.mech_table)

    def mech_table(self, I, obj, name):
        if isinstance(obj, VRef) and obj.cls == A and name == 'mechanisms':
            from txdbus import authentication as au
            return VPyConst(dict(au.BusAuthenticator.authenticators))     # __init__ copies the class table (assumed invariant)
        return None

    def split_model(self, I, s, a):
        if not a:        # bytes.split(): whitespace tokens, as an uninterpreted lexing function shared with the spec
            return VList(BYTES if isinstance(s, VBytes) else STR, [ws_split(s.term)], origin=('local',))
        if len(a) == 2 and S_const(a[0], ' ') and I.is_concrete_int(a[1]) and I.concrete_int(a[1]) == 1:
            # line.split(b' ', 1) when b' ' in line: line == cmd . ' ' . args, cmd has no space
            ctx = I.ctx
            cmd, args = ctx.fresh('cmd', StringSort), ctx.fresh('args', StringSort)
            ctx.assume(z3.And(s.term == z3.Concat(cmd, z3.StringVal(' '), args), z3.Not(z3.Contains(cmd, z3.StringVal(' ')))), defines=[cmd, args])
            ctx.cmd_args = (cmd, args)
            return VTuple([VBytes(cmd), VBytes(args)])
        return super().split_model(I, s, a)

    def getattr_symbolic(self, I, obj, name, default):
        """getattr(self, '_auth_' + cmd.decode('ascii'), None): one case per _auth_* attribute of the LIVE class;
        ASCII decoding is injective, so  dec(cmd) == 'X'  <=>  cmd == b'X'."""
        t = name.term
        live = I.live_class(obj.cls) if isinstance(obj, VRef) else None
        if live is None or not (z3.is_app(t) and t.decl().kind() == z3.Z3_OP_SEQ_CONCAT and z3.is_string_value(t.arg(0))):
            raise OutOfSubset('getattr with symbolic name %s' % t)
        prefix = z3_unescape(t.arg(0).as_string())
        rest = t.arg(1)
        if not (z3.is_app(rest) and rest.decl().name().startswith('dec_')):
            raise OutOfSubset('getattr name suffix %s' % rest)
        raw = rest.arg(0)
        names = sorted(n for n in dir(live) if n.startswith(prefix))
        conds = [raw == z3.StringVal(n[len(prefix):]) for n in names]
        conds.append(z3.Not(z3.Or(conds + [z3.BoolVal(False)])))
        k = I.ctx.choose(conds)
        if k == len(names):
            return default if default is not None else I.raise_py(AttributeError)
        return I.getattr(obj, names[k])


def S_const(v, s):
    t = z3.simplify(v.term)
    return z3.is_string_value(t) and z3_unescape(t.as_string()) == s


def build_world():
    from txdbus import authentication as au
    from txdbus.error import DBusAuthenticationFailed
    import binascii
    w = World()
    PC.add(w)          # protocol side (dataReceived both modes) - also proved here for the C06 clauses
    w.add_class(ClassSpec(AP, None, {'g_nsent': INT, 'g_last': BYTES, '_unix_creds': OPAQUE}, methods={'sendAuthMessage': sendAuthMessage}))
    w.add_class(ClassSpec(MECH, None, {'g_cancelled': BOOL, 'g_steps': INT, 'g_last_status': STR},
                          methods={'step': step, 'cancel': cancel, 'getUserName': getUserName, 'init': init},
                          init={'g_cancelled': False, 'g_steps': 0}))
    w.add_class(ClassSpec(A, au.BusAuthenticator, {
        'server_guid': BYTES, 'authenticated': BOOL, 'protocol': Ref(AP), 'guid': OPAQUE, 'reject_count': INT,
        'state': STR, 'current_mech': Opt(Ref(MECH)), 'reject_msg': BYTES}))

    contract(w, 'iface.AuthProto.sendAuthMessage', {'self': Ref(AP), 'msg': BYTES}, fn=sendAuthMessage,
             modifies=lambda cx: [(cx.args['self'], AP + '.g_nsent'), (cx.args['self'], AP + '.g_last')],
             ensures=lambda cx: [('sent', z3.And(cx.new(cx.args['self']).g_nsent == cx.old(cx.args['self']).g_nsent + 1,
                                                 cx.new(cx.args['self']).g_last == cx.a('msg')))], assumed=True)
    contract(w, 'iface.IMech.step', {'self': Ref(MECH), 'arg': OPAQUE}, fn=step, result=TupleT(STR, DYN),
             modifies=lambda cx: [(cx.args['self'], MECH + '.g_steps'), (cx.args['self'], MECH + '.g_last_status')],
             ensures=lambda cx: [('stepped', z3.And(cx.new(cx.args['self']).g_steps == cx.old(cx.args['self']).g_steps + 1,
                                                    cx.new(cx.args['self']).g_last_status == cx.result.items[0].term,
                                                    z3.Implies(cx.result.items[0].term == z3.StringVal('CONTINUE'),
                                                               z3.Or(z3.And(cx.result.items[1].kind == 2,
                                                                            ufun('encodable_ascii', StringSort, BoolSort)(cx.result.items[1].s)),
                                                                     cx.result.items[1].kind == 4))))],
             assumed=True)
    contract(w, 'iface.IMech.cancel', {'self': Ref(MECH)}, fn=cancel,
             modifies=lambda cx: [(cx.args['self'], MECH + '.g_cancelled')],
             ensures=lambda cx: [('cancelled', cx.new(cx.args['self']).g_cancelled)], assumed=True)
    # looking the peer's name up may fail (no passwd entry for the uid): whatever it raises
    contract(w, 'iface.IMech.getUserName', {'self': Ref(MECH)}, fn=getUserName, result=OPAQUE, assumed=True,
             raises={KeyError: lambda cx: z3.BoolVal(True)})
    contract(w, 'iface.IMech.init', {'self': Ref(MECH), 'protocol': Ref(AP)}, fn=init, assumed=True)

    MAXR = au.BusAuthenticator.MAX_REJECTS_ALLOWED
    sv = z3.StringVal

    def inv(v):
        st = v.state
        return z3.And(z3.Or(st == sv(WFA), st == sv(WFD), st == sv(WFB)),
                      v.reject_count >= 0, v.reject_count <= MAXR,
                      z3.Implies(z3.And(st == sv(WFD)), z3.Not(v.current_mech.none)),
                      z3.Implies(st == sv(WFA), v.current_mech.none),
                      z3.Implies(z3.And(st == sv(WFB), z3.Not(v.authenticated)), z3.Not(v.current_mech.none)),
                      z3.Implies(v.authenticated, st == sv(WFB)))

    def lex(cx):
        """command / argument of the line, as the spec sees them"""
        line = cx.a('line')
        sp = sv(' ')
        ca = getattr(cx.ctx, 'cmd_args', None)
        if ca is not None:
            return ca
        return line, sv('')

    def handle_pre(cx):
        o = cx.old(cx.args['self'])
        # trusted codec facts (ground): the protocol's command words are ASCII, hence decodable
        dec_ok = ufun('decodable_ascii', StringSort, BoolSort)
        for c_ in ('AUTH', 'DATA', 'BEGIN', 'CANCEL', 'ERROR', 'NEGOTIATE_UNIX_FD'):
            cx.ctx.assume(dec_ok(sv(c_)))
        mech0 = VRef(o.current_mech.val.term, MECH)
        return [('inv', inv(o)), ('not-yet-authenticated', z3.Not(o.authenticated)),
                ('ghost step counter is a count', z3.Implies(z3.Not(o.current_mech.none), cx.old(mech0).g_steps >= 0)),
                ('mechanism-list-in-the-reject-line', o.reject_msg == o.reject_msg)]

    def handle_post(cx):
        s = cx.args['self']
        o, n = cx.old(s), cx.new(s)
        pr = VRef(o.protocol, AP)
        po, pn = cx.old(pr), cx.new(pr)
        cmd, args = lex(cx)
        st = o.state
        is_ = lambda c: cmd == sv(c)
        one_reply = pn.g_nsent == po.g_nsent + 1
        no_reply = pn.g_nsent == po.g_nsent
        rejected = z3.And(one_reply, pn.g_last == o.reject_msg, n.state == sv(WFA), n.reject_count == o.reject_count + 1,
                          n.current_mech.none, z3.Not(n.authenticated))
        error = z3.And(one_reply, z3.PrefixOf(sv('ERROR'), pn.g_last), n.state == st, n.reject_count == o.reject_count,
                       z3.Not(n.authenticated))
        mech_old = VRef(o.current_mech.val.term, MECH)
        # the mechanism consulted in this call: the one just created for AUTH, else the current one
        mech_now = VRef(n.current_mech.val.term, MECH)
        stepped_ok = z3.And(z3.Not(n.current_mech.none), cx.new(mech_now).g_last_status == sv('OK'),
                            cx.new(mech_now).g_steps >= 1)
        ok = z3.And(one_reply, pn.g_last == z3.Concat(sv('OK '), o.server_guid), n.state == sv(WFB), stepped_ok,
                    n.reject_count == o.reject_count, z3.Not(n.authenticated))
        data = z3.And(one_reply, z3.PrefixOf(sv('DATA '), pn.g_last), n.state == sv(WFD), z3.Not(n.current_mech.none),
                      n.reject_count == o.reject_count, z3.Not(n.authenticated))
        step_outcome = z3.Or(ok, data, rejected)
        known = z3.Or([is_(c) for c in ('AUTH', 'DATA', 'BEGIN', 'CANCEL', 'ERROR', 'NEGOTIATE_UNIX_FD')])
        return [
            ('inv', inv(n)),
            ('authenticated-only-by-BEGIN-after-acceptance', z3.Implies(n.authenticated, z3.And(is_('BEGIN'), st == sv(WFB), no_reply))),
            ('accepted-only-by-a-mechanism-OK', z3.Implies(z3.And(n.state == sv(WFB), st != sv(WFB)), ok)),
            ('AUTH:waiting-for-auth', z3.Implies(z3.And(is_('AUTH'), st == sv(WFA)), step_outcome)),
            ('AUTH:out-of-turn', z3.Implies(z3.And(is_('AUTH'), st != sv(WFA)), error)),
            ('DATA:waiting-for-data', z3.Implies(z3.And(is_('DATA'), st == sv(WFD)), step_outcome)),
            ('DATA:out-of-turn', z3.Implies(z3.And(is_('DATA'), st != sv(WFD)), error)),
            ('BEGIN:accepted', z3.Implies(z3.And(is_('BEGIN'), st == sv(WFB)), z3.And(n.authenticated, no_reply, n.current_mech.none))),
            ('CANCEL', z3.Implies(is_('CANCEL'), z3.If(z3.Or(st == sv(WFD), st == sv(WFB)), rejected, error))),
            ('ERROR', z3.Implies(is_('ERROR'), rejected)),
            ('NEGOTIATE_UNIX_FD', z3.Implies(is_('NEGOTIATE_UNIX_FD'), error)),
            ('unknown-command', z3.Implies(z3.Not(known), error)),
            ('rejection-cancels-the-mechanism', z3.Implies(z3.And(rejected, z3.Not(o.current_mech.none)), cx.new(mech_old).g_cancelled)),
        ]

    def failed_when(cx):
        o = cx.old(cx.args['self'])
        cmd, args = lex(cx)
        return z3.Or(z3.And(cmd == sv('BEGIN'), o.state != sv(WFB)), o.reject_count >= MAXR)

    contract(w, 'txdbus.authentication.BusAuthenticator.handleAuthMessage', {'self': Ref(A), 'line': BYTES},
             requires=handle_pre, ensures=handle_post,
             raises={DBusAuthenticationFailed: failed_when, KeyError: lambda cx: z3.BoolVal(True)},
             # whatever escapes - a failed name lookup included - never leaves the peer marked as authenticated
             raises_post={KeyError: lambda cx: [('a line that raises does not authenticate', z3.Not(cx.new(cx.args['self']).authenticated))],
                          DBusAuthenticationFailed: lambda cx: [('a line that raises does not authenticate', z3.Not(cx.new(cx.args['self']).authenticated))]},
             modifies=lambda cx: [(cx.args['self'], A + '.' + f) for f in ('authenticated', 'guid', 'reject_count', 'state', 'current_mech')] +
             [('*', AP + '.g_nsent'), ('*', AP + '.g_last'), ('*', MECH + '.g_cancelled'), ('*', MECH + '.g_steps'), ('*', MECH + '.g_last_status')])

    # ---------------- mechanisms against the interface contract
    w.add_class(ClassSpec('BusExternalAuthenticator', au.BusExternalAuthenticator, {'ok': BOOL, 'creds': OPAQUE, 'g_has_creds': BOOL, 'g_uid': INT, 'g_pid': INT, 'g_gid': INT}))

    class _Hook:
        pass

    def ext_post(cx):
        o, n = cx.old(cx.args['self']), cx.new(cx.args['self'])
        r = cx.result
        shape = isinstance(r, VTuple) and len(r.items) == 2 and isinstance(r.items[0], VStr)
        if not shape:
            return [('shape', z3.BoolVal(False))]
        status = r.items[0].term
        # peer credentials = the (pid, uid, gid) the kernel reports for a UNIX socket; a socket of another kind yields uid -1
        known = z3.And(o.g_has_creds, o.g_uid >= 0)
        return [('accepts-only-with-peer-credentials-on-the-second-step',
                 z3.Implies(status == sv('OK'), z3.And(known, o.ok))),
                ('without credentials (none read, or a uid the kernel did not report) the mechanism refuses',
                 z3.Implies(z3.Not(known), z3.And(status != sv('OK'), status != sv('CONTINUE')))),
                ('challenge-is-text-or-bytes', z3.BoolVal(not (status.eq(sv('CONTINUE'))) or isinstance(r.items[1], (VStr, VBytes)))),
                ('with-credentials: CONTINUE then OK', z3.Implies(known, z3.If(o.ok, status == sv('OK'), z3.And(status == sv('CONTINUE'), n.ok))))]

    contract(w, 'txdbus.authentication.BusExternalAuthenticator.step', {'self': Ref('BusExternalAuthenticator'), 'arg': OPAQUE},
             ensures=ext_post, modifies=lambda cx: [(cx.args['self'], 'BusExternalAuthenticator.ok')])
    return w


class ModelsExt(Models06):
    def __init__(self, world):
        super().__init__(world)
        self.getattr_hooks.append(self.creds)

    def creds(self, I, obj, name):
        if isinstance(obj, VRef) and obj.cls == 'BusExternalAuthenticator' and name == 'creds':
            # None, or the triple (pid, uid, gid) unpacked from SO_PEERCRED
            has = I.ctx.heap_read(obj, 'g_has_creds')
            uid = I.ctx.heap_read(obj, 'g_uid')
            # the process and group ids are whatever the kernel reports: a peer in another PID namespace has pid 0, root has gid 0
            pid = I.ctx.heap_read(obj, 'g_pid')
            gid = I.ctx.heap_read(obj, 'g_gid')
            return VTuple([VInt(pid.term), VInt(uid.term), VInt(gid.term)]) if I.ctx.branch(has.term) else VNone()
        return None


# --------------------------------------------------------------------------- concrete side
def reference(lines, script):
    """DBus server state machine; script: mechanism outcomes consumed by successive steps"""
    st, count, out, auth, closed = WFA, 0, [], False, False
    mech_active = False
    script = list(script)
    MECHS = b'REJECTED EXTERNAL DBUS_COOKIE_SHA1 ANONYMOUS'

    def reject():
        nonlocal st, count, closed, mech_active
        mech_active = False
        count += 1
        if count > 5:
            closed = True
            return
        out.append(MECHS)
        st = WFA

    def stepm(resp):
        nonlocal st, mech_active
        import binascii
        if resp:
            try:
                binascii.unhexlify(resp.strip()).decode('ascii')
            except Exception:
                return reject()
        s = script.pop(0) if script else 'REJECT'
        if s == 'OK':
            out.append(b'OK guid')
            st = WFB
        elif s == 'CONTINUE':
            out.append(b'DATA ')
            st = WFD
        else:
            reject()
    for line in lines:
        if closed or auth:
            break
        cmd, _, args = line.partition(b' ')
        if cmd == b'AUTH':
            if st != WFA:
                out.append(b'ERROR')
                continue
            t = args.split()
            if not t or t[0] != b'SCRIPTED':
                reject()
            else:
                mech_active = True
                stepm(t[1] if len(t) > 1 else None)
        elif cmd == b'DATA':
            if st == WFD:
                stepm(args)
            else:
                out.append(b'ERROR')
        elif cmd == b'BEGIN':
            if st == WFB:
                auth = True
            else:
                closed = True
        elif cmd == b'CANCEL':
            if st in (WFD, WFB):
                reject()
            else:
                out.append(b'ERROR')
        elif cmd == b'ERROR':
            reject()
        else:
            out.append(b'ERROR')
    return out, auth, closed


def run_real(lines, script, split=None):
    from twisted.internet.testing import StringTransport
    from zope.interface import implementer
    from txdbus import bus, authentication as au, protocol

    script = list(script)

    @implementer(au.IBusAuthenticationMechanism)
    class Scripted:
        def getMechanismName(self): return 'SCRIPTED'
        def init(self, p): pass
        def step(self, arg):
            s = script.pop(0) if script else 'REJECT'
            return (s, b'' if s == 'CONTINUE' else None)
        def getUserName(self): return 'u'
        def cancel(self): pass

    class Auth(au.BusAuthenticator):
        authenticators = dict(au.BusAuthenticator.authenticators)
    Auth.authenticators[b'SCRIPTED'] = Scripted

    class BP(bus.BusProtocol):
        authenticator = Auth

    class F:
        class bus: uuid = b'guid'
    old = protocol._is_linux
    protocol._is_linux = False
    try:
        p = BP()
        p.factory = F
        t = StringTransport()
        p.makeConnection(t)
        data = b'\0' + b''.join(l + b'\r\n' for l in lines)
        cuts = split or [len(data)]
        prev = 0
        for c in cuts + [len(data)]:
            if c > prev:
                p.dataReceived(data[prev:c])
                prev = c
        got = [l for l in t.value().split(b'\r\n') if l]
        return got, p._authenticated, t.disconnecting
    finally:
        protocol._is_linux = old


ALPHABET = [b'AUTH SCRIPTED', b'AUTH SCRIPTED 6162', b'AUTH SCRIPTED zz', b'AUTH BOGUS', b'AUTH', b'DATA', b'DATA 6162', b'DATA \xff',
            b'BEGIN', b'CANCEL', b'ERROR', b'NEGOTIATE_UNIX_FD', b'FOO', b'\xff\xfe x',
            # command words with bytes outside ASCII among a command's letters: no command at all
            b'BEGIN\x80', b'\xffBEGIN', b'AU\xc3\xa9TH SCRIPTED', b'CANC\xffEL', b'DA\x80TA 6162']
SCRIPTS = [(), ('OK',), ('CONTINUE', 'OK'), ('CONTINUE', 'REJECT'), ('CONTINUE', 'CONTINUE', 'OK')]


def norm(out):
    r = []
    for l in out:
        if l.startswith(b'REJECTED'): r.append(b'REJECTED')
        elif l.startswith(b'ERROR'): r.append(b'ERROR')
        elif l.startswith(b'DATA'): r.append(b'DATA')
        elif l.startswith(b'OK'): r.append(b'OK')
        else: r.append(l)
    return r


def compare(lines, script, split=None):
    want = reference(lines, script)
    try:
        got = run_real(lines, script, split)
    except Exception as e:
        return 'lines %r script %r: the protocol raised %s: %s' % (lines, script, type(e).__name__, e)
    if (norm(got[0]), got[1], bool(got[2])) != (norm(want[0]), want[1], bool(want[2])):
        return 'lines %r script %r split %r: replies/authenticated/closed %r, state machine prescribes %r' % (
            lines, script, split, (norm(got[0]), got[1], bool(got[2])), (norm(want[0]), want[1], bool(want[2])))
    return None


def _uid_known(pwd_, u):
    try:
        pwd_.getpwuid(u)
        return True
    except KeyError:
        return False


def protocol_cases():
    from twisted.internet.testing import StringTransport
    from txdbus import bus, protocol

    class F:
        class bus: uuid = b'guid'
    old = protocol._is_linux
    protocol._is_linux = False
    try:
        for data, what in ((b'AUTH ANONYMOUS\r\n', 'missing initial NUL'), (b'\0AUTH ' + b'x' * 16400 + b'\r\n', 'line longer than 16 KiB'),
                           (b'\0' + b'x' * 16400, 'pending line longer than 16 KiB')):
            p = bus.BusProtocol()
            p.factory = F
            t = StringTransport()
            p.makeConnection(t)
            p.dataReceived(data)
            if not t.disconnecting or p._authenticated:
                return '%s: connection not closed' % what
        # a line longer than 16 KiB closes the connection whatever it is made of (blanks around a short command, a long
        # DATA payload, a long CANCEL) and however it is cut into reads whose pending part stays below the limit; the peer
        # is not authenticated by a BEGIN that follows
        pad = 19000
        longs = [b'AUTH ANONYMOUS' + b' ' * pad, b' ' * pad + b'AUTH ANONYMOUS', b'AUTH ANONYMOUS' + b'\t' * pad, b'AUTH' + b' ' * pad + b'ANONYMOUS',
                 b'CANCEL' + b' ' * pad, b'DATA ' + b'61' * (pad // 2), b' ' * 16385, b'AUTH ANONYMOUS ' + b' ' * 16371]
        for ln in longs:
            stream = b'\0' + ln + b'\r\nAUTH ANONYMOUS\r\nBEGIN\r\n'
            for how in ('one read', 'two halves', '4 KiB reads'):
                step = {'one read': len(stream), 'two halves': (len(stream) + 1) // 2, '4 KiB reads': 4096}[how]
                p = bus.BusProtocol()
                p.factory = F
                t = StringTransport()
                p.makeConnection(t)
                for i in range(0, len(stream), step):
                    p.dataReceived(stream[i:i + step])
                if not t.disconnecting or p._authenticated:
                    return 'a %d-byte line (%r...%r) delivered in %s: connection %s, authenticated=%r' % (
                        len(ln), ln[:16], ln[-4:], how, 'closed' if t.disconnecting else 'not closed', p._authenticated)
        # ... also when no line end ever comes and the pending bytes end in carriage returns (only ONE trailing CR may be the first
        # half of a line end): more than 16 KiB pending closes the connection
        for tail in (b'\r' * 17000, b'x' * 9000 + b'\r' * 9000, b'\r' * 40000):
            for step in (10 ** 6, 1000):
                stream = b'\0AUTH ' + tail
                p = bus.BusProtocol()
                p.factory = F
                t = StringTransport()
                p.makeConnection(t)
                for i in range(0, len(stream), step):
                    if not t.disconnecting:
                        p.dataReceived(stream[i:i + step])
                if not t.disconnecting:
                    return '%d bytes without a line end, the last %d of them carriage returns (reads of %d bytes): the connection is kept open' % (len(stream) - 1, len(tail) - len(tail.rstrip(b'\r')), step)
        # ... and a line of exactly 16 KiB is not 'longer than 16 KiB': it is answered (ERROR for an unknown command)
        p = bus.BusProtocol()
        p.factory = F
        t = StringTransport()
        p.makeConnection(t)
        p.dataReceived(b'\0' + b'FOO ' + b'x' * 16380 + b'\r\n')
        if t.disconnecting or not t.value().startswith(b'ERROR'):
            return 'a line of exactly 16384 bytes: closed=%r replies %r' % (t.disconnecting, t.value()[:40])
        # ... however it is cut: before its line end, between the CR and the LF, in small reads
        stream16 = b'\0' + b'FOO ' + b'x' * 16380 + b'\r\n'
        for how, cuts in (('line | CR LF', [16385]), ('line CR | LF', [16386]), ('nul | line CR | LF', [1, 16386]), ('1000-byte reads', list(range(1000, len(stream16), 1000)))):
            p = bus.BusProtocol()
            p.factory = F
            t = StringTransport()
            p.makeConnection(t)
            prev = 0
            for c in cuts + [len(stream16)]:
                p.dataReceived(stream16[prev:c])
                prev = c
            if t.disconnecting or not t.value().startswith(b'ERROR'):
                return 'a line of exactly 16384 bytes delivered as %s: closed=%r replies %r (in one read it is answered)' % (how, t.disconnecting, t.value()[:40])
        # an acceptable client may pipeline: its handshake, BEGIN and its first messages - far more than 16 KiB of them - in ONE
        # read (or cut anywhere); what follows BEGIN is message data, not an authentication line
        from txdbus import message as _msg
        hello = _msg.MethodCallMessage('/org/freedesktop/DBus', 'Hello', interface='org.freedesktop.DBus', destination='org.freedesktop.DBus').rawMessage
        big = _msg.SignalMessage('/o', 'S', 'org.e.I', signature='ay', body=[bytearray(b'x' * 40000)]).rawMessage
        stream = b'\0AUTH ANONYMOUS\r\nBEGIN\r\n' + hello + big
        for how, cuts in (('one read', []), ('nul byte first', [1]), ('cut inside BEGIN', [19]), ('cut after BEGIN', [24]), ('8 KiB reads', list(range(8192, len(stream), 8192)))):
            b_ = bus.Bus()

            class FB:
                bus = b_
            p = bus.BusProtocol()
            p.factory = FB
            t = StringTransport()
            p.makeConnection(t)
            prev = 0
            try:
                for c in cuts + [len(stream)]:
                    p.dataReceived(stream[prev:c])
                    prev = c
            except Exception as e:
                return 'pipelined handshake + %d bytes of messages (%s) raised %s: %s' % (len(hello) + len(big), how, type(e).__name__, e)
            if not p._authenticated or t.disconnecting or getattr(p, 'uniqueName', None) is None:
                return 'pipelined handshake + %d bytes of messages (%s): authenticated=%r closed=%r named=%r, replies %r' % (
                    len(hello) + len(big), how, p._authenticated, t.disconnecting, getattr(p, 'uniqueName', None), t.value()[:60])
        # EXTERNAL with the peer credentials the bus reads from the socket (SO_PEERCRED) when the first byte arrives - however
        # the first byte and the lines are cut into reads
        import struct as _st, binascii, os

        import pwd as _pwd
        unknown_uid = next(u for u in range(54321, 64000) if not _uid_known(_pwd, u))

        class CredSocket:
            pid = None
            uid = None

            def getsockopt(self, level, opt, size):
                return _st.pack('3i', os.getpid() if self.pid is None else self.pid, os.getuid() if self.uid is None else self.uid, os.getgid())

        class CredTransport(StringTransport):
            socket = CredSocket()
        ext = b'\0AUTH EXTERNAL ' + binascii.hexlify(str(os.getuid()).encode('ascii')) + b'\r\nDATA\r\nBEGIN\r\n'
        protocol._is_linux = True
        try:
            for how, cuts in (('one read', []), ('NUL alone, then the rest', [1]), ('NUL alone, then one line per read', [1, ext.index(b'\r\n') + 2]),
                              ('one byte per read', list(range(1, len(ext)))), ('one read, peer in another PID namespace: pid 0', []),
                              ('one read, a uid without an entry in the user database', []), ('NUL alone, then one line per read, a uid without an entry in the user database', [1, ext.index(b'\r\n') + 2])):
                p = bus.BusProtocol()
                p.factory = F
                t = CredTransport()
                t.socket = CredSocket()
                if 'pid 0' in how:
                    t.socket.pid = 0
                if 'without an entry' in how:
                    t.socket.uid = unknown_uid
                    ext = b'\0AUTH EXTERNAL ' + binascii.hexlify(str(unknown_uid).encode('ascii')) + b'\r\nDATA\r\nBEGIN\r\n'
                p.makeConnection(t)
                prev = 0
                try:
                    for c in cuts + [len(ext)]:
                        p.dataReceived(ext[prev:c])
                        prev = c
                except Exception as e:
                    return 'EXTERNAL client with peer credentials (%s) raised %s: %s' % (how, type(e).__name__, e)
                if not p._authenticated or t.disconnecting:
                    return 'an EXTERNAL client whose uid matches the peer credentials (%s) was not accepted: replies %r, closed=%r' % (how, t.value(), t.disconnecting)
            # a socket of another kind (a TCP listener) yields (0, -1, -1): no credentials - EXTERNAL is refused, and nothing
            # the peer sends afterwards makes it authenticated without a mechanism accepting it
            class NoCredSocket:
                def getsockopt(self, level, opt, size):
                    return _st.pack('3i', 0, -1, -1)

            class NoCredTransport(StringTransport):
                socket = NoCredSocket()
            p = bus.BusProtocol()
            p.factory = F
            t = NoCredTransport()
            p.makeConnection(t)
            try:
                for chunk in (b'\0AUTH EXTERNAL 30\r\n', b'DATA\r\n', b'BEGIN\r\n', b'FOO\r\n', b'BEGIN\r\n'):
                    if not t.disconnecting:
                        p.dataReceived(chunk)
            except Exception as e:
                return 'EXTERNAL on a socket without peer credentials raised %s: %s (replies %r)' % (type(e).__name__, e, t.value())
            if p._authenticated or any(l.startswith(b'OK') for l in t.value().split(b'\r\n')):
                return 'EXTERNAL on a socket without peer credentials: replies %r, authenticated=%r' % (t.value(), p._authenticated)
        finally:
            protocol._is_linux = False
        # acceptable credentials are accepted: ANONYMOUS, and EXTERNAL with peer credentials
        for lines, creds in (([b'AUTH ANONYMOUS', b'BEGIN'], None), ([b'AUTH EXTERNAL 30', b'DATA', b'BEGIN'], (1, 0, 0))):
            p = bus.BusProtocol()
            p.factory = F
            t = StringTransport()
            p.makeConnection(t)
            p._unix_creds = creds
            try:
                p.dataReceived(b'\0' + b''.join(l + b'\r\n' for l in lines))
            except Exception as e:
                return 'conforming client %r: %s: %s' % (lines, type(e).__name__, e)
            if not p._authenticated:
                return 'conforming client %r with acceptable credentials was not accepted (replies %r)' % (lines, t.value())
    finally:
        protocol._is_linux = old
    return None


def cookie_mechanism_case():
    """the real DBUS_COOKIE_SHA1 mechanism object (keyring in a temporary directory): a response that is not
    '<client challenge> <sha1 of server:client:cookie>' is never accepted - malformed (not two tokens), empty, wrong hash"""
    import os, shutil, tempfile, hashlib
    from txdbus import authentication
    tmp = tempfile.mkdtemp(prefix='verif_c06_')
    try:
        bads = [b'deadbeef', b'', b'a b c', b'abcd ' + b'0' * 40, b' ', b'abcd']
        for bad in bads:
            m = authentication.BusCookieAuthenticator()
            try:
                st = m._step_one(str(os.getuid()), os.path.join(tmp, 'keyring'))
            except Exception as e:
                return 'cookie mechanism, first step raised %s: %s' % (type(e).__name__, e)
            if st[0] != 'CONTINUE':
                return 'cookie mechanism, first step answered %r' % (st,)
            try:
                r = m._step_two(bad)
            except Exception as e:
                r = ('raised', type(e).__name__)
            if r[0] == 'OK':
                return 'cookie mechanism accepted the wrong response %r' % (bad,)
        # interleaved exchanges sharing one keyring: every pending exchange has a cookie id of its own, and the response a
        # conforming client computes from the cookie stored under the id it was told is accepted
        def answer(mech, msg):
            ctx, cid, challenge = msg.split()
            cookie = None
            with open(mech.cookie_file, 'rb') as f:
                for line in f:
                    k_id, _t, k_hex = line.split()
                    if k_id == cid:
                        cookie = k_hex
            if cookie is None:
                return None
            cc = b'abcdef0123456789'
            return cc + b' ' + binascii.hexlify(hashlib.sha1(b':'.join([challenge, cc, cookie])).digest())
        import binascii
        kd = os.path.join(tmp, 'keyring2')
        A, B, C = (authentication.BusCookieAuthenticator() for _ in range(3))
        ma = A._step_one(str(os.getuid()), kd)[1]
        mb = B._step_one(str(os.getuid()), kd)[1]
        if ma.split()[1] == mb.split()[1]:
            return 'two pending cookie exchanges were given the same cookie id %r' % ma.split()[1]
        ra = answer(A, ma)
        if ra is None or A._step_two(ra)[0] != 'OK':
            return 'the right response of the first of two interleaved cookie exchanges was not accepted'
        mc = C._step_one(str(os.getuid()), kd)[1]
        if mc.split()[1] == mb.split()[1]:
            return 'a third exchange, started while the second was pending, was given the pending exchange\'s cookie id %r' % mc.split()[1]
        rc = answer(C, mc)
        if rc is None or C._step_two(rc)[0] != 'OK':
            return 'the right response of an exchange started while another was pending was not accepted'
        rb = answer(B, mb)
        if rb is None or B._step_two(rb)[0] != 'OK':
            return 'the right response of the exchange that was pending throughout was not accepted'
    finally:
        shutil.rmtree(tmp, ignore_errors=True)
    return None


def cookie_full_stack_case():
    """DBUS_COOKIE_SHA1 through the whole bus side - line framing, BusAuthenticator, the real mechanism with its keyring in a
    temporary directory: a conforming client that answers the challenge with the cookie stored under the id it was told IS
    accepted (OK, then authenticated on BEGIN); the same exchange with one hex digit of the hash changed is not"""
    import binascii, hashlib, os, shutil, tempfile
    from twisted.internet.testing import StringTransport
    from txdbus import authentication, bus, protocol
    tmp = tempfile.mkdtemp(prefix='verif_c06f_')
    keyring = os.path.join(tmp, 'keyring')
    orig = authentication.BusCookieAuthenticator._step_one
    authentication.BusCookieAuthenticator._step_one = lambda self, username, keyring_dir=None: orig(self, username, keyring)
    old_linux = protocol._is_linux
    protocol._is_linux = False

    class F:
        class bus: uuid = b'guid'
    try:
        # ... also with a keyring directory that others may search but neither read nor write (the specification forbids only those)
        for tamper, mode in ((False, None), (True, None), (False, 0o711), (False, 0o710), (False, 0o701), (True, 0o711)):
            if mode is not None:
                os.chmod(keyring, mode)
            p = bus.BusProtocol()
            p.factory = F
            t = StringTransport()
            p.makeConnection(t)

            def lines():
                out = [l for l in t.value().split(b'\r\n') if l]
                t.clear()
                return out
            p.dataReceived(b'\0AUTH DBUS_COOKIE_SHA1 ' + binascii.hexlify(str(os.getuid()).encode('ascii')) + b'\r\n')
            out = lines()
            if len(out) != 1 or not out[0].startswith(b'DATA '):
                return 'AUTH DBUS_COOKIE_SHA1 <uid> (keyring directory mode %s) answered %r, expected a DATA challenge' % ('0700 as created' if mode is None else oct(mode), out)
            ctx, cid, challenge = binascii.unhexlify(out[0][5:]).split()
            cookie = None
            with open(os.path.join(keyring, ctx.decode('ascii')), 'rb') as f:
                for line in f:
                    k_id, _t, k_hex = line.split()
                    if k_id == cid:
                        cookie = k_hex
            if cookie is None:
                return 'the cookie id %r named in the challenge is not in the keyring file' % cid
            cc = binascii.hexlify(b'client-challenge')
            h = binascii.hexlify(hashlib.sha1(b':'.join([challenge, cc, cookie])).digest())
            if tamper:
                h = (b'0' if h[:1] != b'0' else b'1') + h[1:]
            p.dataReceived(b'DATA ' + binascii.hexlify(cc + b' ' + h) + b'\r\n')
            out = lines()
            p.dataReceived(b'BEGIN\r\n')
            if not tamper and (len(out) != 1 or not out[0].startswith(b'OK ') or not p._authenticated):
                return 'a conforming client presenting the right cookie response was answered %r and authenticated=%r' % (out, p._authenticated)
            if tamper and (p._authenticated or not out or not out[0].startswith(b'REJECTED')):
                return 'a wrong cookie response was answered %r, authenticated=%r' % (out, p._authenticated)
        # user names the bus cannot use (a NUL byte, nobody by that name) are answered REJECTED like any failed attempt
        for uname in (b'a\0b', b'no_such_user_verif', b'', b'\xc3\xa9'):
            p = bus.BusProtocol()
            p.factory = F
            t = StringTransport()
            p.makeConnection(t)
            try:
                p.dataReceived(b'\0AUTH DBUS_COOKIE_SHA1 ' + binascii.hexlify(uname) + b'\r\n')
            except Exception as e:
                return 'AUTH DBUS_COOKIE_SHA1 for the user name %r raised %s: %s' % (uname, type(e).__name__, e)
            out = [l for l in t.value().split(b'\r\n') if l]
            if len(out) != 1 or not out[0].startswith(b'REJECTED'):
                return 'AUTH DBUS_COOKIE_SHA1 for the user name %r answered %r, expected REJECTED' % (uname, out)
        # a response computed WITHOUT the cookie (over an empty one) is never accepted - also when the peer let its cookie expire
        import time as _time
        real_time = _time.time
        try:
            p = bus.BusProtocol()
            p.factory = F
            t = StringTransport()
            p.makeConnection(t)
            p.dataReceived(b'\0AUTH DBUS_COOKIE_SHA1 ' + binascii.hexlify(str(os.getuid()).encode('ascii')) + b'\r\n')
            ctx, cid, challenge = binascii.unhexlify(t.value().split(b'\r\n')[0][5:]).split()
            t.clear()
            authentication.time.time = lambda: real_time() + 45          # the cookie has expired from the keyring by now
            kf = os.path.join(keyring, ctx.decode('ascii'))                # ... also for code that reads the clock another way:
            if os.path.exists(kf):                                        # the keyring entry is dated 100 s back
                rows = [l.split() for l in open(kf, 'rb').read().splitlines() if l.strip()]
                with open(kf, 'wb') as f_:
                    for r_ in rows:
                        f_.write(b' '.join([r_[0], str(int(real_time()) - 100).encode('ascii'), r_[2]]) + b'\n')
            cc = binascii.hexlify(b'late-client')
            h = binascii.hexlify(hashlib.sha1(b':'.join([challenge, cc, b''])).digest())
            try:
                p.dataReceived(b'DATA ' + binascii.hexlify(cc + b' ' + h) + b'\r\n')
                p.dataReceived(b'BEGIN\r\n')
            except Exception as e:
                return 'a late cookie response raised %s: %s' % (type(e).__name__, e)
            if p._authenticated or any(l.startswith(b'OK') for l in t.value().split(b'\r\n')):
                return 'a response hashed over an EMPTY cookie (sent after the cookie expired) was accepted: %r' % t.value()
        finally:
            authentication.time.time = real_time
        # the library's own client against the library's own bus: EXTERNAL is refused (no peer credentials here), the client
        # moves on to DBUS_COOKIE_SHA1, reads the cookie from the keyring and is accepted
        import pwd
        from . import c07 as _c07
        p = bus.BusProtocol()

        class F2:
            class bus: uuid = b'1234abcd'
        p.factory = F2
        t = StringTransport()
        p.makeConnection(t)
        ca, cp = _c07.make_client(False)
        ca.cookie_dir = keyring
        saved_getpass = authentication.getpass

        class RealUser:
            @staticmethod
            def getuser(): return pwd.getpwuid(os.getuid()).pw_name
        authentication.getpass = RealUser
        try:
            p.dataReceived(b'\0')
            sent = 0
            for _ in range(12):
                for l in cp.sent[sent:]:
                    p.dataReceived(l + b'\r\n')
                sent = len(cp.sent)
                out = [l for l in t.value().split(b'\r\n') if l]
                t.clear()
                if ca.authenticated:
                    break
                for l in out:
                    ca.handleAuthMessage(l)
        finally:
            authentication.getpass = saved_getpass
        used_cookie = any(l.startswith(b'DATA ') for l in cp.sent)
        if not (ca.authenticated and p._authenticated and used_cookie):
            return 'the library\'s client against its bus with a shared keyring: client lines %r, client authenticated=%r, bus authenticated=%r' % (cp.sent, ca.authenticated, p._authenticated)
    finally:
        authentication.BusCookieAuthenticator._step_one = orig
        protocol._is_linux = old_linux
        shutil.rmtree(tmp, ignore_errors=True)
    return None


def bounded(tier, seed):
    n = 1
    f = cookie_mechanism_case()
    if f:
        return n, f, {'case': 'cookie mechanism'}
    n += 1
    try:
        f = cookie_full_stack_case()
    except Exception as e:
        f = 'cookie exchange through the bus raised %s: %s' % (type(e).__name__, e)
    if f:
        return n, f, {'case': 'cookie exchange through the bus'}
    depth = 4 if tier == 'thorough' else 3
    small = [ALPHABET[i] for i in (0, 1, 2, 3, 5, 8, 9, 10, 12, 14, 17)]
    for L in range(1, depth + 1):
        for lines in itertools.product(small if L > 2 else ALPHABET, repeat=L):
            for script in (SCRIPTS if L <= 2 else SCRIPTS[:3]):
                n += 1
                f = compare(list(lines), script)
                if f:
                    return n, f, {'lines': [l.decode('latin-1') for l in lines], 'script': list(script)}
    rnd = random.Random(seed)
    for _ in range(30000 if tier == 'thorough' else 80):
        lines = [rnd.choice(ALPHABET) for _ in range(rnd.randrange(4, 12))]
        script = rnd.choice(SCRIPTS)
        total = 1 + sum(len(l) + 2 for l in lines)
        split = sorted(rnd.sample(range(1, total), min(total - 1, rnd.randrange(0, 4))))
        n += 1
        f = compare(lines, script, split)
        if f:
            return n, f, {'lines': [l.decode('latin-1') for l in lines], 'script': list(script), 'split': split}
    n += 1
    f = protocol_cases()
    if f:
        return n, f, {'case': 'protocol-level'}
    return n, None, None


def replay(function, clause, model):
    n, f, inp = bounded('quick', 13)
    return {'reproduced': bool(f), 'input': inp, 'detail': f or 'no failing line sequence among %d' % n}


def run_bounded(tier, seed):
    n, f, inp = bounded(tier, seed)
    return {'tool': 'line-sequence enumeration through the real BusProtocol (scripted mechanism) against the DBus server state machine',
            'bound': 'all sequences of length <= %d over a 14/9-command alphabet x 5/3 mechanism scripts; random sequences of length 4..11 with random read splitting; NUL / 16 KiB / conforming-client cases' % (4 if tier == 'thorough' else 3),
            'evaluations': n, 'failures': [] if not f else [{'function': 'txdbus.authentication.BusAuthenticator', 'clause': 'state-machine', 'input': inp, 'detail': f}]}


def build(tier='quick'):
    w = build_world()
    return Spec('C06', w, lambda world: ModelsExt(world),
                ['txdbus.authentication.BusAuthenticator.handleAuthMessage',
                 'txdbus.authentication.BusExternalAuthenticator.step',
                 'txdbus.protocol.BasicDBusProtocol.dataReceived'],
                replay=replay, bounded=[{'name': 'auth-line-sequences', 'run': run_bounded}],
                trusted=['whitespace tokenisation bytes.split(), strip(), binascii (un)hexlify and ASCII decoding are uninterpreted lexing functions shared by code and specification',
                         'ASCII decoding is injective: dec(cmd) == "X" iff cmd == b"X"'],
                assumed=['mechanism interface: step() returns an arbitrary (status, challenge) with a text/bytes challenge on CONTINUE; cancel(); getUserName()',
                         'protocol.sendAuthMessage sends exactly the line it is given; BusAuthenticator.__init__ copies the class mechanism table',
                         'IAuth / transport interface contracts of protocol_common'],
                notes=['DBUS_COOKIE_SHA1 (cookie files, pwd, os) is outside the verified subset: covered only by the repository tests and the bounded run'],
                explanation='handleAuthMessage (handlers inlined) against the server state machine from every invariant state, EXTERNAL step, dataReceived line mode; sequences by bounded enumeration',
                design_ref='DESIGN.md 4/C06')
