"""Field tables (sidecar class specs) shared by the contract modules."""
from pyvc.values import *  # noqa
from pyvc.engine import ClassSpec


def message_classes(world):
    from txdbus import message
    world.add_class(ClassSpec('DBusMessage', message.DBusMessage, {
        'expectReply': BOOL, 'autoStart': BOOL, 'signature': Opt(STR), 'body': OPAQUE,
        'endian': INT, 'bodyLength': INT, 'serial': Opt(INT), 'headers': OPAQUE,
        'rawMessage': Opt(BYTES), 'rawHeader': BYTES, 'rawPadding': BYTES, 'rawBody': BYTES,
        'interface': Opt(STR), 'path': Opt(STR), 'sender': Opt(STR), 'destination': Opt(STR),
        'member': Opt(STR), 'error_name': Opt(STR), 'reply_serial': Opt(INT),
        'unix_fds': INT, 'unix_fds?set': BOOL, 'oobFDs': OPAQUE,
        '_messageType': INT,          # per-subclass class attribute, mirrored as a field of the abstract message
    }))
    for n in ('MethodCallMessage', 'MethodReturnMessage', 'ErrorMessage', 'SignalMessage'):
        world.add_class(ClassSpec(n, getattr(message, n), {}, bases=('DBusMessage',)))


def protocol_classes(world):
    from txdbus import protocol
    world.add_class(ClassSpec('Transport', None, {
        'disconnecting': BOOL,
        'g_out': BYTES,          # ghost: bytes written so far (order preserving)
        'g_closed': BOOL,        # ghost: loseConnection() was called
        'g_nwrites': INT,
    }))
    world.add_class(ClassSpec('BasicDBusProtocol', protocol.BasicDBusProtocol, {
        '_buffer': BYTES, '_authenticated': BOOL, '_nextMsgLen': INT, '_endian': STR,
        '_client': BOOL, '_firstByte': BOOL, '_receivedFDs': OPAQUE, '_unix_creds': OPAQUE,
        '_dbusAuth': Opt(Ref('IAuth')), 'transport': Ref('Transport'), 'guid': OPAQUE,
        'g_flat': BYTES,         # ghost: concatenation of the raw messages delivered so far
        'g_count': INT,          # ghost: number of raw messages delivered so far
    }))
