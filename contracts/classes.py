"""Field tables (sidecar class specs) shared by the contract modules."""
from pyvc.values import *  # noqa
from pyvc.engine import ClassSpec


def message_classes(world):
    from txdbus import message
    world.add_class(ClassSpec('DBusMessage', message.DBusMessage, {
        'expectReply': BOOL, 'autoStart': BOOL, 'signature': Opt(STR), 'body': OPAQUE,
        'endian': INT, 'bodyLength': INT, 'serial': Opt(INT), 'headers': OPAQUE,
        'rawMessage': Opt(BYTES), 'rawHeader': BYTES, 'rawPadding': BYTES, 'rawBody': BYTES,
        'interface': Opt(STR), 'path': Opt(STR), 'sender': Opt(STR), 'destination': Opt(STR),
        'member': Opt(STR), 'error_name': Opt(STR), 'reply_serial': Opt(INT),
        'unix_fds': INT, 'unix_fds?set': BOOL, 'oobFDs': OPAQUE,
    }))
    for n in ('MethodCallMessage', 'MethodReturnMessage', 'ErrorMessage', 'SignalMessage'):
        world.add_class(ClassSpec(n, getattr(message, n), {}, bases=('DBusMessage',)))
