"""C05 - malformed or hostile message bytes are rejected in bounded time.

Deductive part (no assumption on the signature or the data: every string / byte string):
  * unmarshal, unmarshal_array, unmarshal_struct, unmarshal_variant TERMINATE: one lexicographic measure shared by the
    mutually recursive group (bytes of data left after the offset, length of the signature still to decode, rank of the
    function) decreases at every recursive call - including the data-driven recursion of nested variants - and every
    loop has a decreasing variant; in particular the array loop advances by at least one byte per element (the zero-size
    element loop 'a()' was a genuine defect, fixed in /repo).  The measure is bounded by 2048 * (len(data) + 1): the
    recursion depth is at most linear in the input.
  * each returns a non-negative count; the only exceptions are those of the primitives (struct.error on short data,
    KeyError / IndexError / TypeError on invalid type codes, Unicode errors) and MarshallingError - all of which the
    caller turns into a closed connection (C04 proves that for dataReceived).
  * the leaf decoders are loop free (terminate trivially) and read inside the data or raise struct.error.
Dispatch through unmarshallers[c] uses the generic table contract carrying the same measure.
  * genCompleteTypes and its inner bracket matcher find_end terminate for every string (loop variants, recursion on a
    strictly shorter string) and yield non-empty pieces no longer than the input (contracts/splitter_contracts.py).
Bounded part (labelled): parseMessage as a whole and the splitter once more, by an interpreter-step budget linear in the input over truncations / byte mutations of valid messages, hostile
signatures from a grammar, lying length fields.
"""
import random
import struct
import sys

import z3

from pyvc.values import *  # noqa
from pyvc.engine import World, LoopSpec
from pyvc.models import ufun, unpacked
from pyvc.runner import Spec
from pyvc import strings as S
from .base import contract
from . import marshal_contracts as MC
from . import marshal_harness as H
from . import wire_ref as W

sv = z3.StringVal
RANK_ENTRY, RANK_DRIVER = 1, 2


def measure(L, data, off, rank):
    rem = z3.Length(data) - off
    return z3.If(rem > 0, rem, 0) * 2048 + L * 4 + rank


def left(data, off):
    """bytes of data after the offset: the array loop runs at most once per byte of input"""
    rem = z3.Length(data) - off
    return z3.If(rem > 0, rem, 0)


def add_any_contracts(w, targets):
    from txdbus import marshal
    from txdbus.error import MarshallingError
    allowed = {Exception: lambda cx: z3.BoolVal(True), struct.error: lambda cx: z3.BoolVal(True), KeyError: lambda cx: z3.BoolVal(True),
               IndexError: lambda cx: z3.BoolVal(True), TypeError: lambda cx: z3.BoolVal(True)}
    first = MC.first

    def pre(cx, sig):
        return [('offset-non-negative', cx.a('offset') >= 0), ('signature-fits-the-wire (one length byte)', z3.Length(cx.a(sig)) <= 255)]

    def progress(cx):
        n = cx.result.items[0].term
        return [('consumed-non-negative', n >= 0),
                ('a value that occupies bytes was read inside the data', z3.Or(n == 0, cx.a('offset') + 1 <= z3.Length(cx.a('data'))))]

    def progress_seq(cx):
        # a sequence of values started at an 8-aligned offset (a struct body): nothing is skipped before the first read
        n = cx.result.items[0].term
        return [('consumed-non-negative', n >= 0),
                ('started at a struct boundary, a sequence that occupies bytes read inside the data',
                 z3.Implies(MC.ALIGNED(8, cx.a('offset')), z3.Or(n == 0, cx.a('offset') + 1 <= z3.Length(cx.a('data')))))]

    def stub_pre(cx):
        out = pre(cx, 'ct') + [('dispatched-type-is-non-empty', z3.Length(cx.a('ct')) >= 1),
                               ('value-read-at-its-alignment', MC.ALIGNED(MC.ALIGNF(first(cx.a('ct'))), cx.a('offset')))]
        key = getattr(cx.ctx, 'table_key', None)
        if key is not None:
            out.append(('dispatched-on-the-first-type-code', key.term == first(cx.a('ct'))))
        return out

    contract(w, 'table.unmarshallers[]', {'ct': STR, 'data': BYTES, 'offset': INT, 'lendian': BOOL, 'oobFDs': OPAQUE}, fn=MC.UNMARSH,
             requires=stub_pre, result=TupleT(INT, OPAQUE),
             ensures=lambda cx: progress(cx),
             decreases=lambda cx: measure(z3.Length(cx.a('ct')), cx.a('data'), cx.a('offset'), RANK_ENTRY), rec_group='decode',
             raises=allowed, may_raise_any=True, assumed=True)

    from . import splitter_contracts as SC
    SC.add_splitter_contracts(w, targets)          # genCompleteTypes and its inner find_end: verified here as well (termination, piece bounds)

    nonneg = progress

    # ---- driver
    contract(w, 'txdbus.marshal.unmarshal', {'compoundSignature': STR, 'data': BYTES, 'offset': INT, 'lendian': BOOL, 'oobFDs': OPAQUE},
             requires=lambda cx: pre(cx, 'compoundSignature'),
             ensures=progress_seq, result=TupleT(INT, ListT(OPAQUE)), raises=allowed, may_raise_any=True, locals_types={'values': ListT(OPAQUE)},
             decreases=lambda cx: measure(z3.Length(cx.a('compoundSignature')), cx.a('data'), cx.a('offset'), RANK_DRIVER), rec_group='decode',
             loops={1: LoopSpec(invariant=lambda cx: [('offset-only-grows', z3.And(cx.l('offset') >= cx.a('offset'), cx.l('start_offset') == cx.a('offset'))),
                                                      ('nothing consumed yet, or a read inside the data happened',
                                                       z3.Implies(MC.ALIGNED(8, cx.a('offset')),
                                                                  z3.Or(cx.l('offset') == cx.a('offset'), cx.a('offset') + 1 <= z3.Length(cx.a('data')))))],
                                ghost_index='_k1')})
    targets.append('txdbus.marshal.unmarshal')

    # ---- array
    def arr_inv(cx):
        ct = cx.a('ct')
        return [('offset-only-grows', z3.And(cx.l('offset') >= cx.a('offset') + 4, cx.l('start_offset') == cx.a('offset'))),
                ('element-type', z3.And(cx.l('tsig') == S.slice_(cx.ctx, ct, z3.IntVal(1), None), z3.Length(cx.l('tsig')) >= 1))]

    contract(w, 'txdbus.marshal.unmarshal_array', {'ct': STR, 'data': BYTES, 'offset': INT, 'lendian': BOOL, 'oobFDs': OPAQUE},
             requires=lambda cx: pre(cx, 'ct') + [('dispatched-type-is-non-empty', z3.Length(cx.a('ct')) >= 1)],
             ensures=nonneg, result=TupleT(INT, OPAQUE), raises=allowed, may_raise_any=True,
             locals_types={'values': ListT(OPAQUE), 'd': DictT(OPAQUE, OPAQUE)},
             decreases=lambda cx: measure(z3.Length(cx.a('ct')), cx.a('data'), cx.a('offset'), RANK_ENTRY), rec_group='decode',
             loops={1: LoopSpec(invariant=arr_inv, variant=lambda cx: left(cx.a('data'), cx.l('offset'))),
                    2: LoopSpec(invariant=lambda cx: [], ghost_index='_k2')})
    targets.append('txdbus.marshal.unmarshal_array')

    # ---- struct / dict entry
    contract(w, 'txdbus.marshal.unmarshal_struct', {'ct': STR, 'data': BYTES, 'offset': INT, 'lendian': BOOL, 'oobFDs': OPAQUE},
             requires=lambda cx: pre(cx, 'ct') + [('dispatched-type-is-non-empty', z3.Length(cx.a('ct')) >= 1),
                                                  ('a struct starts on an 8-byte boundary', MC.ALIGNED(8, cx.a('offset')))],
             ensures=nonneg, result=TupleT(INT, ListT(OPAQUE)), raises=allowed, may_raise_any=True,
             decreases=lambda cx: measure(z3.Length(cx.a('ct')), cx.a('data'), cx.a('offset'), RANK_ENTRY), rec_group='decode')
    targets.append('txdbus.marshal.unmarshal_struct')

    # ---- variant: the nested signature comes from the data; the bytes left strictly decrease
    contract(w, 'txdbus.marshal.unmarshal_variant', {'ct': STR, 'data': BYTES, 'offset': INT, 'lendian': BOOL, 'oobFDs': OPAQUE},
             requires=lambda cx: pre(cx, 'ct') + [('dispatched-type-is-non-empty', z3.Length(cx.a('ct')) >= 1)],
             ensures=nonneg, result=TupleT(INT, OPAQUE), raises=allowed, may_raise_any=True,
             decreases=lambda cx: measure(z3.Length(cx.a('ct')), cx.a('data'), cx.a('offset'), RANK_ENTRY), rec_group='decode')
    targets.append('txdbus.marshal.unmarshal_variant')


class Models05(MC.MarshalModels):
    """values are opaque: subscripting one (the [key, value] pair of a decoded dict entry, the single content of a variant)
    either fails with IndexError / TypeError or yields another opaque value; storing under an opaque key may fail with
    TypeError (unhashable)"""
    def getitem(self, I, obj, idx):
        if isinstance(obj, VOpaque) and obj.term is not None and isinstance(idx, VInt):
            k = I.ctx.choose([z3.BoolVal(True), z3.BoolVal(True), z3.BoolVal(True)])
            if k == 1:
                I.raise_py(IndexError)
            if k == 2:
                I.raise_py(TypeError)
            return VOpaque('item', ufun('item_of', IntSort, IntSort, IntSort)(obj.term, idx.term))
        return super().getitem(I, obj, idx)


# ----------------------------------------------------------------------------------- bounded part
WALL_S = 20          # per decoded input; the hostile inputs of the bounded part decode in milliseconds on the unchanged tree


class WallClock(BaseException):
    pass


class Budget(BaseException):
    # not an Exception: code under test that catches Exception (to retry, to translate errors) must not swallow the budget
    pass


def steps_of(fn, limit):
    """run fn counting traced line events in txdbus code; Budget when the limit is exceeded"""
    n = [0]

    def tracer(frame, event, arg):
        if event == 'line' and 'txdbus' in frame.f_code.co_filename:
            n[0] += 1
            if n[0] > limit:
                raise Budget()
        return tracer
    # wall clock as well: a step that is one interpreted line may be a library call that does not return (a regular
    # expression backtracking exponentially)
    import signal

    def _late(signum, frame):
        raise WallClock()
    old_h = signal.signal(signal.SIGALRM, _late)
    signal.setitimer(signal.ITIMER_REAL, WALL_S, 1)
    old = sys.gettrace()
    sys.settrace(tracer)
    try:
        try:
            fn()
            out = 'returned'
        except Budget:
            out = 'BUDGET'
        except WallClock:
            out = 'BUDGET'
            n[0] = -1
        except RecursionError:
            out = 'RecursionError'
        except Exception as e:
            out = type(e).__name__
    finally:
        sys.settrace(old)
        signal.setitimer(signal.ITIMER_REAL, 0)
        signal.signal(signal.SIGALRM, old_h)
    return n[0], out


def peak_memory_of(fn):
    """peak of Python-level allocations (tracemalloc) while fn runs, and how it ended"""
    import tracemalloc
    tracemalloc.start()
    try:
        tracemalloc.reset_peak()
        base = tracemalloc.get_traced_memory()[0]
        try:
            fn()
            out = 'returned'
        except RecursionError:
            out = 'RecursionError'
        except Exception as e:
            out = type(e).__name__
        peak = tracemalloc.get_traced_memory()[1] - base
    finally:
        tracemalloc.stop()
    return peak, out


class address_space_cap:
    """while the hostile inputs run, the process may grow by at most `extra` bytes of address space: a decoder that sizes a
    buffer by a length word of the input then ends in MemoryError (reported as a failure) instead of taking the machine down"""
    def __init__(self, extra=2 << 30):
        self.extra = extra

    def __enter__(self):
        import resource
        self.old = resource.getrlimit(resource.RLIMIT_AS)
        try:
            cur = int(open('/proc/self/statm').read().split()[0]) * resource.getpagesize()
            hard = self.old[1]
            want = cur + self.extra
            if hard != resource.RLIM_INFINITY:
                want = min(want, hard)
            resource.setrlimit(resource.RLIMIT_AS, (want, hard))
        except (OSError, ValueError):
            self.old = None
        return self

    def __exit__(self, *a):
        import resource
        if self.old is not None:
            resource.setrlimit(resource.RLIMIT_AS, self.old)
        return False


def memory_budget_for(nbytes, nsig):
    # decoded data is at most a few Python objects per input byte; the constant part covers frames, the exception and its
    # traceback and the pieces of a signature of length nsig (measured on the unchanged tree with a margin of > 4x)
    return 150000 + 2000 * nsig + 600 * nbytes


def budget_for(nbytes, nsig):
    # linear in the data for a given signature: splitting a signature of length n <= 255 costs up to ~n^2 interpreted lines
    # (bracket matching per nesting level) and is repeated per decoded element, so the constant is quadratic in n
    # splitting once: O(n^2) for nesting depth ~n; per decoded value another split of its element signature: O(n) amortised
    # for sequences, so the data term carries a factor n, not n^2 (measured on the unchanged tree with a margin of > 3x)
    return 4000 + 60 * (nsig + 1) ** 2 + (400 + 40 * nsig) * nbytes


def long_name_cases():
    """valid messages naming long paths / interfaces / members / bus names in the header and in the body, then the same bytes with
    ONE character of such a name replaced by a character that does not belong there (at its end, in its middle): rejected or
    decoded, within the budget"""
    from txdbus import message
    long_path = '/org/freedesktop/' + 'a' * 48 + '/' + 'b_' * 20 + '/c'
    long_if = 'org.' + 'x' * 60 + '.' + 'Y' * 60 + '.Z'
    base = [message.MethodCallMessage(long_path, 'M' * 60, interface=long_if, destination='org.' + 'd' * 80 + '.e', signature='oaoa{so}',
                                      body=[long_path, [long_path, long_path + '/d'], {'k': long_path}]).rawMessage,
            message.SignalMessage(long_path, 'S' * 40, long_if, signature='(so)', body=[('t', long_path)]).rawMessage,
            message.ErrorMessage(long_if, 5, destination=':1.' + '9' * 60, signature='o', body=[long_path]).rawMessage]
    out = []
    for raw in base:
        for name in (long_path, long_if, 'M' * 60, 'S' * 40, 'org.' + 'd' * 80 + '.e'):
            nb = name.encode('ascii')
            start = raw.find(nb)
            while start >= 0:
                for pos in (start + len(nb) - 1, start + len(nb) // 2, start + 1):
                    for bad in (b'-', b'.', b' ', b'/', b'\xff', b'\0', b'!', b'\n'):
                        out.append(raw[:pos] + bad + raw[pos + 1:])
                start = raw.find(nb, start + 1)
    return base + out


class Undecoded(BaseException):
    pass


def parse_fully(data):
    """parseMessage either rejects the bytes or returns a message that IS decoded: reading its body and header fields afterwards
    (what the handlers it is delivered to will do) cannot fail any more"""
    from txdbus import message
    m = message.parseMessage(data, [])
    try:
        _ = (m.body, m.signature, m.serial, getattr(m, 'member', None), getattr(m, 'path', None))
        if m.signature and m.body is None:
            raise ValueError('a message with the signature %r has no decoded body' % (m.signature,))
    except Exception as e:
        raise Undecoded('%s: %s' % (type(e).__name__, e))
    return m


def valid_messages(rnd):
    from txdbus import message
    out = []
    bodies = [(None, None), ('s', ['hello']), ('a{sv}', [{'a': 1, 'b': 'x'}]), ('ai', [[1, 2, 3]]), ('(ii)as', [(1, 2), ['a', 'b']]),
              ('v', [[1, 2, 3]]), ('aai', [[[1], [2, 3]]]), ('ay', [bytearray(b'abc')]), ('a(sv)', [[('k', 5)]])]
    for sig, body in bodies:
        out.append(message.MethodCallMessage('/a/b', 'Member', interface='org.x.Y', destination='org.x.Z', signature=sig, body=body).rawMessage)
        out.append(message.SignalMessage('/a', 'Sig', 'org.x.Y', signature=sig, body=body).rawMessage)
        out.append(message.MethodReturnMessage(7, signature=sig, body=body).rawMessage)
        out.append(message.ErrorMessage('org.x.Err', 9, signature=sig, body=body).rawMessage)
    return out


HOSTILE_SIGS = ['ai' * 16, 'ai' * 30, '(' + 'ay' * 40 + ')', 'a(' + 'ai' * 20 + ')', 'ab', 'ay', 'ai', 'ax', 'ad', 'as', 'ao', 'ag', 'ah', 'a(b)', 'a(yb)', 'a{bb}', 'aab', 'av', 'a()', 'a{}', 'a(a())', 'aa()', 'a' * 254 + 'i', '(' * 120 + 'i' + ')' * 120, '(' * 200, 'a{' * 60, '((((', '))))', 'a', 'aa', 'a{s', 'a(i',
                '{ss}', 'v' * 200, 'a(' + 'i' * 250 + ')', 'z', 'a~', '()', 'a(v)', 'av', 'a{vv}', 'a{sa{sa{sv}}}', '\x00', 'ai(', 'a)', 'a}']


class CountingBytes(bytes):
    """counts the bytes copied out of a message by slicing (work the interpreter-step count does not see)"""
    copied = 0

    def __getitem__(self, k):
        r = bytes.__getitem__(self, k)
        if isinstance(k, slice):
            CountingBytes.copied += len(r)
            if len(r) > 64:
                return CountingBytes(r)          # large pieces keep counting (a piece sliced again and again)
        return r


def copy_cases():
    """decoding copies each part of a message a bounded number of times: the bytes sliced out of a message with many strings /
    object paths / dict entries / variants stay proportional to its length"""
    from txdbus import marshal, message
    from . import wire_ref as W
    n = 3000
    cases = [('as', W.encode('as', [['abc'] * n], 0, True)), ('ao', W.encode('ao', [['/a/b'] * n], 0, True)),
             ('a{sv}', W.encode('a{sv}', [{'k%d' % i: W.Variant('s', 'vv') for i in range(n)}], 0, True)),
             ('a(so)', W.encode('a(so)', [[['x', '/p']] * n], 0, True)),
             ('aau', W.encode('aau', [[[1, 2]] * n], 0, True)), ('a{sas}', W.encode('a{sas}', [{'k%d' % i: ['a', 'b'] for i in range(n)}], 0, True)),
             ('aay', W.encode('aay', [[[1, 2, 3]] * n], 0, True)), ('a(ai)', W.encode('a(ai)', [[[[7]]] * n], 0, True))]
    for sig, data in cases:
        CountingBytes.copied = 0
        try:
            marshal.unmarshal(sig, CountingBytes(data), 0, True)
        except Exception as e:
            return 'unmarshal(%r, %d bytes) raised %s: %s' % (sig, len(data), type(e).__name__, e), {'signature': sig}
        if CountingBytes.copied > 8 * len(data) + 4096:
            return 'unmarshal(%r, %d bytes) sliced %d bytes out of the message: copying not proportional to the length' % (sig, len(data), CountingBytes.copied), {'signature': sig, 'bytes': len(data)}
    raw = message.MethodCallMessage('/a/b', 'M', interface='org.x.Y', signature='asao', body=[['abc'] * n, ['/a/b'] * n]).rawMessage
    CountingBytes.copied = 0
    message.parseMessage(CountingBytes(raw), [])
    if CountingBytes.copied > 8 * len(raw) + 4096:
        return 'parseMessage(%d bytes) sliced %d bytes out of the message' % (len(raw), CountingBytes.copied), {'bytes': len(raw)}
    return None, None


def growth_cases():
    """'work proportional to its length' as a growth law: for families of hostile messages parameterised by a scale, doubling the
    scale (which doubles the length) may not much more than double the interpreter steps (counts are deterministic)"""
    from txdbus import marshal, message
    from . import wire_ref as W

    def oversized_signature(k):
        # header field 8 sent as a STRING variant: a 'signature' of 4k+4 characters, k zero-size members per array element,
        # and k/8 elements
        sig = 'a(' + '()' * k + 'y)'
        nel = max(2, k // 8)
        elems = b''.join(b'\x01' + (b'\0' * 7 if i < nel - 1 else b'') for i in range(nel))
        body = struct.pack('<I', len(elems)) + b'\0' * 4 + elems
        arr = [[1, W.Variant('o', '/o')], [3, W.Variant('s', 'M')], [8, W.Variant('s', sig)]]
        head = W.encode('yyyyuua(yv)', [ord('l'), 1, 0, 1, len(body), 1, arr], 0, True)
        raw = head + W.pad(len(head), 8) + body
        return raw, (lambda: message.parseMessage(raw, []))

    def signature_as_string_array(k):
        # header field 8 sent as an ARRAY OF STRINGS holding one oversized container signature
        sig = 'a(' + '()' * k + 'y)'
        nel = max(2, k // 8)
        elems = b''.join(b'\x01' + (b'\0' * 7 if i < nel - 1 else b'') for i in range(nel))
        body = struct.pack('<I', len(elems)) + b'\0' * 4 + elems
        arr = [[1, W.Variant('o', '/o')], [3, W.Variant('s', 'M')], [8, W.Variant('as', [sig])]]
        head = W.encode('yyyyuua(yv)', [ord('l'), 1, 0, 1, len(body), 1, arr], 0, True)
        raw = head + W.pad(len(head), 8) + body
        return raw, (lambda: message.parseMessage(raw, []))

    def nested_variants(k):
        # v holding (v) holding ... holding u, the innermost value cut off
        data = b''
        for _ in range(k):
            data += b'\x03(v)\0'
            data += b'\0' * ((-len(data)) % 8)
        data += b'\x01u\0'
        return data, (lambda: marshal.unmarshal('v', data, 0, True))

    def many_strings(k):
        elems = b''.join(struct.pack('<I', 3) + b'abc\0' for _ in range(k))
        data = struct.pack('<I', len(elems)) + elems
        return data, (lambda: marshal.unmarshal('as', data, 0, True))

    def many_dict_entries(k):
        elems = b''.join(struct.pack('<I', 1) + b'k\0' + b'\x01y\0' + b'\x07' + b'\0' * 6 for _ in range(k))
        data = struct.pack('<I', len(elems)) + b'\0' * 4 + elems
        return data, (lambda: marshal.unmarshal('a{sv}', data, 0, True))

    def many_distinct_dict_entries(k):
        # a dictionary as applications send them: every key different (fixed-width keys, so that the length doubles with k)
        data = W.encode('a{us}', [{1000000 + i: 'v%06d' % i for i in range(k)}], 0, True)
        return data, (lambda: marshal.unmarshal('a{us}', data, 0, True))

    def many_distinct_string_keys(k):
        data = W.encode('a{sv}', [{'key%06d' % i: W.Variant('y', 7) for i in range(k)}], 0, False)
        return data, (lambda: marshal.unmarshal('a{sv}', data, 0, False))

    def lying_signature_length(k):
        # a variant whose inline signature claims a few characters but runs on for 4k more before its NUL, then an array body
        sig = ('a(' + '()' * k + 'y)').encode('ascii')
        nel = max(2, k // 8)
        elems = b''.join(b'\x01' + (b'\0' * 7 if i < nel - 1 else b'') for i in range(nel))
        data = bytes([4]) + sig + b'\0'
        data += b'\0' * ((-len(data)) % 4) + struct.pack('<I', len(elems))
        data += b'\0' * ((-len(data)) % 8) + elems
        return data, (lambda: marshal.unmarshal('v', data, 0, True))

    def lying_header_signature_length(k):
        # the same lie in the SIGNATURE header field of a message
        sig = 'a(' + '()' * k + 'y)'
        nel = max(2, k // 8)
        elems = b''.join(b'\x01' + (b'\0' * 7 if i < nel - 1 else b'') for i in range(nel))
        body = struct.pack('<I', len(elems)) + b'\0' * 4 + elems
        arr = [[1, W.Variant('o', '/o')], [3, W.Variant('s', 'M')]]
        head = bytearray(W.encode('yyyyuua(yv)', [ord('l'), 1, 0, 1, len(body), 1, arr], 0, True))
        head += b'\0' * ((-len(head)) % 8)
        field = bytes([8, 1]) + b'g\0' + bytes([4]) + sig.encode('ascii') + b'\0'
        head += field
        struct.pack_into('<I', head, 12, len(head) - 16)
        raw = bytes(head) + b'\0' * ((-len(head)) % 8) + body
        return raw, (lambda: message.parseMessage(raw, []))

    def deep_nesting(k):
        # a well-formed message whose one-byte body sits in k structs (and, second shape, an empty array of arrays k deep around them)
        sig = '(' * k + 'y' + ')' * k
        arr = [[1, W.Variant('o', '/o')], [3, W.Variant('s', 'M')], [8, W.Variant('g', sig)]]
        body = b'\x05'
        head = W.encode('yyyyuua(yv)', [ord('l'), 1, 0, 1, len(body), 1, arr], 0, True)
        raw = head + W.pad(len(head), 8) + body
        return raw, (lambda: message.parseMessage(raw, []))

    def deep_array_nesting(k):
        sig = 'a' * k + '(' * k + 'y' + ')' * k
        arr = [[1, W.Variant('o', '/o')], [3, W.Variant('s', 'M')], [8, W.Variant('g', sig)]]
        body = struct.pack('<I', 0) + (b'\0' * 4 if k == 0 else b'')
        head = W.encode('yyyyuua(yv)', [ord('l'), 1, 0, 1, len(body), 1, arr], 0, True)
        raw = head + W.pad(len(head), 8) + body
        return raw, (lambda: message.parseMessage(raw, []))

    # nesting depth: the cost may grow with the square of the depth (bracket matching per level), never exponentially
    for name, fam, scale in (('one byte in nested structs', deep_nesting, 15), ('an empty array of arrays of nested structs', deep_array_nesting, 15)):
        d1, f1 = fam(scale)
        d2, f2 = fam(2 * scale)
        s1, o1 = steps_of(f1, 200000)
        if o1 == 'BUDGET':
            return '%s, %d levels: more than %d interpreter steps for %d bytes' % (name, scale, s1 - 1, len(d1)), {'family': name, 'scales': [scale]}
        s2, o2 = steps_of(f2, 6 * s1 + 4000)
        if o2 == 'BUDGET':
            return '%s: %d levels take %d interpreter steps, %d levels more than %d: worse than the square of the depth' % (name, scale, s1, 2 * scale, s2 - 1), {'family': name, 'scales': [scale, 2 * scale]}

    for name, fam, scale in (('body signature sent as an oversized STRING header field', oversized_signature, 200), ('nested variants', nested_variants, 20),
                             ('body signature sent as an array of strings', signature_as_string_array, 200),
                             ('variant whose inline signature runs past its declared length', lying_signature_length, 200),
                             ('message whose SIGNATURE header field runs past its declared length', lying_header_signature_length, 200),
                             ('array of strings', many_strings, 200), ('array of dict entries with variant values', many_dict_entries, 100),
                             ('dictionary of many distinct integer keys', many_distinct_dict_entries, 600), ('dictionary of many distinct string keys', many_distinct_string_keys, 600)):
        d1, f1 = fam(scale)
        d2, f2 = fam(2 * scale)
        s1, o1 = steps_of(f1, 600000)
        if o1 == 'BUDGET':
            return '%s: %d bytes take more than %d interpreter steps' % (name, len(d1), s1 - 1), {'family': name, 'scales': [scale]}
        s2, o2 = steps_of(f2, 3 * s1 + 2000)
        if o2 == 'BUDGET' or s2 > 3 * s1 + 2000:
            return '%s: %d bytes take %d interpreter steps, %d bytes take %s%d (%s): more than proportional to the length' % (
                name, len(d1), s1, len(d2), '> ' if o2 == 'BUDGET' else '', s2, o2), {'family': name, 'scales': [scale, 2 * scale]}
    return None, None


def retention_case():
    """decoding leaves nothing behind: after a series of messages (valid ones, ones with unknown header fields carrying large
    values, ones whose body is rejected) has been decoded and dropped, the memory still held is unrelated to how much was decoded"""
    import gc, tracemalloc
    from txdbus import message
    from . import wire_ref as W
    from .message_harness import ref_message
    big = 'v' * 4000
    msgs = []
    for k in range(60):
        extra = [(40 + k % 7, 's', big), (200, 'as', [big[:500]] * 4)]
        msgs.append(ref_message(1, 0, k + 1, [(1, '/o'), (3, 'M'), (8, 's')], 's', ['x'], k % 2 == 0, extra_fields=extra))
        msgs.append(ref_message(4, 0, k + 1, [(1, '/o'), (2, 'a.b'), (3, 'S'), (8, 'as')], 'as', [[big[:300]] * 3], True, extra_fields=extra)[:-5])    # body cut short
        msgs.append(message.SignalMessage('/a', 'Sig', 'org.x.Y', signature='ay', body=[bytearray(b'z' * 3000)]).rawMessage)

    # ... and every round brings body signatures never seen before (a peer chooses them freely): nothing is kept per signature either
    srnd = random.Random(977)

    def fresh_signatures(n_):
        out = []
        for k in range(n_):
            sig = ''.join(srnd.choice('ybnqiuxt') for _ in range(srnd.randrange(120, 250)))
            # ... and names never seen before: a long object path, a member, an interface, a sender of the peer's choosing
            word = lambda n_: ''.join(srnd.choice('abcdefghijklmnopqrstuvwxyz') for _ in range(n_))
            raw = ref_message(4, 0, 1000 + k, [(1, '/p/' + word(1500)), (2, 'a.' + word(200)), (3, word(200)), (7, ':1.' + word(100)), (8, sig)], sig,
                              [0 if c != 'b' else False for c in sig], k % 2 == 0)
            out.append(raw if k % 2 else raw[:-3])          # every other one is cut short and rejected
        return out
    fresh = [fresh_signatures(40) for _ in range(4)]

    def run(round_=0):
        for raw in msgs + fresh[round_]:
            try:
                message.parseMessage(raw, [])
            except Exception:
                pass
    run()                                  # warm-up: caches, interned strings, lazily imported modules
    gc.collect()
    tracemalloc.start()
    try:
        base = tracemalloc.get_traced_memory()[0]
        for r_ in range(3):
            run(r_ + 1)
        gc.collect()
        held = tracemalloc.get_traced_memory()[0] - base
    finally:
        tracemalloc.stop()
    total = 3 * sum(len(m) for m in msgs)
    # ... and nothing of what was rejected changes how the next, valid message (of another peer) is decoded
    from txdbus import message as _m
    for _ in range(40):
        for raw in long_name_cases()[3:60]:
            try:
                _m.parseMessage(raw, [])
            except Exception:
                pass
    probe = _m.MethodCallMessage('/a/b', 'Member', interface='org.x.Y', destination='org.x.Z', signature='a{sv}v', body=[{'a': 1, 'b': 'x'}, [1, 2, 3]])
    try:
        back = _m.parseMessage(probe.rawMessage, [])
        if back.body != [{'a': 1, 'b': 'x'}, [1, 2, 3]] or back.member != 'Member':
            return 'after %d rejected messages a valid message decodes to %r' % (40 * 57, back.body), {'case': 'valid message after a hostile history'}
    except Exception as e:
        return 'after %d rejected messages a valid message of another peer is rejected: %s: %s' % (40 * 57, type(e).__name__, e), {'case': 'valid message after a hostile history'}
    if held > 64 * 1024:
        return 'after decoding and dropping %d bytes of messages (unknown header fields with large values among them) %d bytes are still held' % (total, held), {'messages': len(msgs) * 3}
    return None, None


def bounded(tier, seed):
    import gc
    with address_space_cap():
        r = bounded_(tier, seed)
    if r[1] is None and not gc.isenabled():
        gc.enable()
        return r[0] + 1, 'after the decoded and rejected messages of this run the cyclic garbage collector of the process is switched off: a rejected message cost more than its own connection', {'case': 'process state'}
    return r


def bounded_(tier, seed):
    from txdbus import marshal, message
    rnd = random.Random(seed * 31 + 5)
    n = 0

    def fail(what, inp, steps, out, limit):
        return n, '%s: %s after %d interpreter steps (budget %d)' % (what, out, steps, limit), inp

    n += 1
    f, inp = growth_cases()
    if f:
        return n, f, inp
    n += 1
    f, inp = retention_case()
    if f:
        return n, f, inp
    n += 1
    f, inp = copy_cases()
    if f:
        return n, f, inp
    # 1. hostile signatures against hostile data (unmarshal directly, as parseMessage does for the body)
    datas = [b'', b'\0' * 64, struct.pack('<I', 4) + b'\0' * 4 + b'abcd' * 8, struct.pack('<I', 2**32 - 1) + b'\xff' * 60, struct.pack('<I', 2**31) + b'\0' * 60, struct.pack('>I', 2**31 + 8) + b'\0\0\0\1' * 15,
             struct.pack('<I', 2**30) + struct.pack('<i', -5) * 15, struct.pack('<I', 1000) + struct.pack('<I', 3) + b'abc\0' + struct.pack('<i', -13) + b'\0' * 16,
             struct.pack('>I', 1000) + struct.pack('>I', 3) + b'abc\0' + struct.pack('>i', -13) + b'\0' * 16, struct.pack('<I', 2**30) + struct.pack('<i', -9) * 3 + b'\0' * 20,
             struct.pack('<I', 16) + b'\1v\0\1v\0\1v\0\1v\0' * 4, bytes(range(256))]
    for sg in HOSTILE_SIGS:
        for d in datas:
            for le in (True, False):
                n += 1
                limit = budget_for(len(d), len(sg))
                st, out = steps_of(lambda: marshal.unmarshal(sg, d, 0, le), limit)
                if out in ('BUDGET', 'MemoryError'):
                    return fail('unmarshal(%r, %d bytes)' % (sg, len(d)), {'signature': sg, 'data': d.hex(), 'little_endian': le}, st, out, limit)
    # 1b. the same inputs, and array length words that claim up to 64 MiB in front of a few bytes: the data built while
    # decoding stays proportional to the input (peak of Python-level allocations)
    liars = [struct.pack(e + 'I', claim) + body for claim in (1 << 16, 1 << 22, (1 << 26) - 8, 1 << 26) for e in '<>'
             for body in (b'', b'\0' * 4, b'\0' * 12 + b'\1\2\3\4' * 5)]
    for sg in HOSTILE_SIGS + ['(ay)', 'v', 'a(ay)', '(iay)', 'aay', 'aai', 'a{say}']:
        for d in datas + liars:
            for le in (True, False):
                n += 1
                mlimit = memory_budget_for(len(d), len(sg))
                peak, out = peak_memory_of(lambda: marshal.unmarshal(sg, d, 0, le))
                if peak > mlimit or out == 'MemoryError':
                    return n, 'unmarshal(%r, %d bytes): %s with a peak of %d bytes allocated (budget %d): data unrelated in size to the input' % (
                        sg, len(d), out, peak, mlimit), {'signature': sg, 'data': d.hex(), 'little_endian': le}
    # 1c. whole messages whose HEADER claims more than came: a UNIX_FDS count far beyond the descriptors received (none), on every
    # message type, whole and cut short - what is built while parsing stays proportional to the bytes
    from .message_harness import ref_message
    for claim in (3, 70000, 4 * 10 ** 6, 2 ** 24, 2 ** 32 - 1):
        for mtype, fields in ((1, [(1, '/o'), (3, 'M'), (8, 'su'), (9, claim)]), (4, [(9, claim), (1, '/o'), (2, 'a.b'), (3, 'S'), (8, 'su')]),
                              (2, [(5, 7), (9, claim), (8, 'su')]), (3, [(4, 'a.b.E'), (5, 7), (8, 'su'), (9, claim)])):
            for le in (True, False):
                whole = ref_message(mtype, 0, 9, fields, 'su', ['x', 1], le)
                for data in (whole, whole[:-1]):
                    n += 1
                    mlimit = memory_budget_for(len(data), 255)
                    peak, out = peak_memory_of(lambda: message.parseMessage(data, []))
                    if peak > mlimit or out == 'MemoryError':
                        return n, 'parseMessage(%d bytes, header claiming %d descriptors, none received): %s with a peak of %d bytes allocated (budget %d): data unrelated in size to the input' % (
                            len(data), claim, out, peak, mlimit), {'raw': data.hex()}
                    st, out = steps_of(lambda: message.parseMessage(data, []), budget_for(len(data), 255))
                    if out in ('BUDGET', 'MemoryError'):
                        return fail('parseMessage(%d bytes, header claiming %d descriptors)' % (len(data), claim), {'raw': data.hex()}, st, out, budget_for(len(data), 255))
    # 2. signature splitter alone, every string over a hostile alphabet up to a length
    import itertools
    L = 7 if tier == 'thorough' else 6
    for k in range(0, L + 1):
        for tup in itertools.product('a({})iv', repeat=k):
            sg = ''.join(tup)
            n += 1
            limit = 400 + 40 * (len(sg) + 1) ** 2
            st, out = steps_of(lambda: list(marshal.genCompleteTypes(sg)), limit)
            if out == 'BUDGET':
                return fail('genCompleteTypes(%r)' % sg, {'signature': sg}, st, out, limit)
    # 3. whole messages: truncations and byte mutations, lying lengths
    msgs = valid_messages(rnd)
    per = 120 if tier == 'thorough' else 25
    for data in long_name_cases():
        n += 1
        limit = budget_for(len(data), 255)
        try:
            st, out = steps_of(lambda: parse_fully(data), limit)
        except Undecoded as e:
            return n, 'parseMessage(%d bytes) returned a message that is not decoded: reading it afterwards fails with %s' % (len(data), e), {'raw': data.hex()}
        if out in ('BUDGET', 'MemoryError'):
            return fail('parseMessage(%d bytes naming long paths / names, one character replaced)' % len(data), {'raw': data.hex()}, st, 'no result within %d s' % WALL_S if st < 0 else out, limit)
    for raw in msgs:
        cases = [raw[:k] for k in range(0, len(raw), max(1, len(raw) // 24))]
        for _ in range(per):
            b = bytearray(raw)
            for _ in range(rnd.choice([1, 1, 2, 4])):
                i = rnd.randrange(len(b))
                b[i] = rnd.choice([0, 1, 255, b[i] ^ (1 << rnd.randrange(8)), rnd.randrange(256), ord('a'), ord('('), ord('{'), ord('v')])
            cases.append(bytes(b))
        for data in cases:
            n += 1
            limit = budget_for(len(data), 255)
            try:
                st, out = steps_of(lambda: parse_fully(data), limit)
            except Undecoded as e:
                return n, 'parseMessage(%d bytes) returned a message that is not decoded: reading it afterwards fails with %s' % (len(data), e), {'raw': data.hex()}
            if out in ('BUDGET', 'MemoryError'):
                return fail('parseMessage(%d bytes)' % len(data), {'raw': data.hex()}, st, out, limit)
    return n, None, None


def replay(function, clause, model):
    n, f, inp = bounded('quick', 1)
    return {'reproduced': bool(f), 'input': inp, 'detail': f or 'every one of %d hostile inputs finished within its step budget' % n}


def run_bounded(tier, seed):
    n, f, inp = bounded(tier, seed)
    return {'tool': 'interpreter-step budget (sys.settrace line events inside txdbus) linear in the input length',
            'bound': '%d hostile signatures x 12 data blobs x 2 byte orders; every string over "a({})iv" up to length %d for the splitter; 36 valid messages x (24 truncations + %d byte mutations) through parseMessage' % (len(HOSTILE_SIGS), 7 if tier == 'thorough' else 6, 120 if tier == 'thorough' else 25),
            'evaluations': n, 'failures': [] if not f else [{'function': 'txdbus.marshal / txdbus.message', 'clause': 'bounded-time', 'input': inp, 'detail': f}]}


def build(tier='quick'):
    w = World()
    targets = []
    MC.add_fixed_contracts(w, targets)
    MC.add_string_contracts(w, targets)
    targets = [t for t in targets if '.unmarshal_' in t]
    add_any_contracts(w, targets)
    sp = Spec('C05', w, lambda world: Models05(world), targets, replay=replay,
                bounded=[{'name': 'step-budget', 'run': run_bounded}],
                trusted=['struct.unpack_from raises struct.error when the read would pass the end of the data; codecs decode as uninterpreted functions (ascii: one character per byte)'],
                assumed=['genCompleteTypes is verified in its eager reading (the list it yields when run to completion); a consumer that stops early sees a prefix of that list',
                         'the generic table contract: each unmarshallers entry returns a non-negative count and obeys the shared measure - every live entry is verified against exactly that',
                         'subscripting / hashing opaque decoded values either raises IndexError / TypeError or succeeds'],
                notes=['termination = decreasing measures (partial-correctness engine + variants); "work proportional to the length" as a step count is the bounded part'],
                explanation='termination of the mutually recursive decoder for every signature and every byte string by one decreasing measure; step budgets on generated hostile inputs on top',
                design_ref='DESIGN.md 4/C05')
    sp.lemmas = MC.abstraction_lemmas()
    return sp
