"""Bounded harness for txdbus.message against the reference codec (contracts/wire_ref.py): C03."""
import itertools
import random
import struct

from . import wire_ref as W
from . import marshal_harness as H

HDR = 'yyyyuua(yv)'
FIELD_SIG = {1: 'o', 2: 's', 3: 's', 4: 's', 5: 'u', 6: 's', 7: 's', 8: 'g', 9: 'u'}
FIELD_ATTR = {1: 'path', 2: 'interface', 3: 'member', 4: 'error_name', 5: 'reply_serial', 6: 'destination', 7: 'sender', 8: 'signature', 9: 'unix_fds'}


def ref_message(mtype, flags, serial, fields, body_sig, body_vals, le, extra_fields=(), extras_first=False):
    """spec bytes of a message: fields = [(code, value)] in the order given; extra_fields = [(code, sig, value)] unknown codes, written
    after the known fields or (extras_first) before them"""
    body = W.encode(body_sig, body_vals, 0, le) if body_sig else b''
    known = [[c, W.Variant(FIELD_SIG[c], v)] for c, v in fields]
    extra = [[c, W.Variant(s, v)] for c, s, v in extra_fields]
    arr = (extra + known) if extras_first else (known + extra)
    head = W.encode(HDR, [ord('l') if le else ord('B'), mtype, flags, 1, len(body), serial, arr], 0, le)
    return head + W.pad(len(head), 8) + body


def make_message(kind, opts, body_sig, body_vals, flags):
    from txdbus import message
    tx_body = [H.to_tx(ct, v) for ct, v in zip(W.split(body_sig), body_vals)] if body_sig else None
    kw = dict(signature=body_sig or None, body=tx_body)
    if kind == 1:
        m = message.MethodCallMessage('/org/x/Obj', 'Frob', interface=opts.get('interface'), destination=opts.get('destination'),
                                      expectReply=not (flags & 1), autoStart=not (flags & 2), **kw)
    elif kind == 2:
        m = message.MethodReturnMessage(opts.get('reply_serial', 5), destination=opts.get('destination'), **kw)
    elif kind == 3:
        m = message.ErrorMessage('org.x.Error.Failed', opts.get('reply_serial', 5), destination=opts.get('destination'), sender=opts.get('sender'), **kw)
    else:
        m = message.SignalMessage('/org/x/Obj', 'Changed', 'org.x.Iface', destination=opts.get('destination'), **kw)
    return m


def expected_fields(kind, opts, body_sig):
    f = {}
    if kind in (1, 4):
        f['path'] = '/org/x/Obj'
        f['member'] = 'Frob' if kind == 1 else 'Changed'
    if kind == 1 and opts.get('interface'):
        f['interface'] = opts['interface']
    if kind == 4:
        f['interface'] = 'org.x.Iface'
    if kind == 3:
        f['error_name'] = 'org.x.Error.Failed'
    if kind in (2, 3):
        f['reply_serial'] = opts.get('reply_serial', 5)
    if opts.get('destination'):
        f['destination'] = opts['destination']
    if kind == 3 and opts.get('sender'):
        f['sender'] = opts['sender']
    if body_sig:
        f['signature'] = body_sig
    return f


SEEN_SERIALS = set()          # every serial handed out in this process so far: a fresh one must differ from all of them


def wellformed_case(kind, opts, body_sig, body_vals, flags, last_serial):
    """construct, check the bytes against the specification layout, parse back and compare"""
    from txdbus import message
    try:
        m = make_message(kind, opts, body_sig, body_vals, flags)
    except Exception as e:
        return 'constructing message type %d %r body %r raised %s: %s' % (kind, opts, body_sig, type(e).__name__, e), last_serial
    raw = m.rawMessage
    what = 'type %d opts %r flags %d body %r %r' % (kind, opts, flags, body_sig, body_vals)
    if raw[0:1] != b'l':
        return '%s: endianness byte %r' % (what, raw[0:1]), last_serial
    try:
        f = header_types_ok(raw, what)
    except Exception as e:
        f = '%s: the header fields cannot be read from the wire (%s: %s)' % (what, type(e).__name__, e)
    if f:
        return f, last_serial
    try:
        vals, n = W.decode(HDR, raw, 0, True)
    except Exception as e:
        return '%s: fixed header / field array do not decode per the specification: %s' % (what, e), last_serial
    _, mtype, fl, ver, blen, serial, arr = vals
    exp_flags = flags if kind == 1 else 0
    if mtype != kind or ver != 1 or fl != exp_flags:
        return '%s: header says type %d version %d flags %d (expected flags %d)' % (what, mtype, ver, fl, exp_flags), last_serial
    if serial == 0 or serial in SEEN_SERIALS or serial != m.serial:
        return '%s: serial %r is zero, or was used by an earlier message of this process, or differs from the attribute (%r)' % (what, serial, m.serial), last_serial
    SEEN_SERIALS.add(serial)
    padn = (8 - n % 8) % 8
    if raw[n:n + padn] != b'\0' * padn:
        return '%s: header padding %r' % (what, raw[n:n + padn]), serial
    body = raw[n + padn:]
    if blen != len(body):
        return '%s: declared body length %d, actual %d' % (what, blen, len(body)), serial
    want_body = W.encode(body_sig, body_vals, 0, True) if body_sig else b''
    if body != want_body:
        return '%s: body bytes %s, the specification gives %s' % (what, body.hex(), want_body.hex()), serial
    got = {}
    for code, v in arr:
        got[FIELD_ATTR.get(code, code)] = v
    if got != expected_fields(kind, opts, body_sig):
        return '%s: header fields %r, expected %r' % (what, got, expected_fields(kind, opts, body_sig)), serial
    if m.rawHeader + m.rawPadding + m.rawBody != raw:
        return '%s: rawHeader + rawPadding + rawBody differ from rawMessage' % what, serial
    f = parsed_equals(raw, kind, exp_flags, serial, expected_fields(kind, opts, body_sig), body_sig, body_vals, what + ' (own bytes)')
    return f, serial


def parsed_equals(raw, kind, flags, serial, fields, body_sig, body_vals, what):
    from txdbus import message
    try:
        p = message.parseMessage(raw, [])
    except Exception as e:
        return '%s: parseMessage raised %s: %s' % (what, type(e).__name__, e)
    if p._messageType != kind or type(p) is not message._mtype[kind]:
        return '%s: parsed as %s' % (what, type(p).__name__)
    if p.serial != serial:
        return '%s: parsed serial %r, sent %r' % (what, p.serial, serial)
    if p.expectReply != (not flags & 1) or p.autoStart != (not flags & 2):
        return '%s: flags %d parsed as expectReply=%r autoStart=%r' % (what, flags, p.expectReply, p.autoStart)
    for attr in FIELD_ATTR.values():
        want = fields.get(attr)
        got = getattr(p, attr, None)
        if got != want:
            return '%s: header field %s parsed as %r, sent %r' % (what, attr, got, want)
    if body_sig:
        want = [W.canon(ct, v) for ct, v in zip(W.split(body_sig), body_vals)]
        if not W.same(p.body, want):
            return '%s: body parsed as %r, sent %r' % (what, p.body, want)
    elif p.body is not None:
        return '%s: body %r for a message without signature' % (what, p.body)
    return None


def foreign_case(rnd, kind, fields, flags, serial, body_sig, body_vals, le):
    """bytes another implementation would produce: either byte order, header fields in any order, unknown field codes"""
    order = list(fields.items())
    rnd.shuffle(order)
    inv = {v: k for k, v in FIELD_ATTR.items()}
    flist = [(inv[a], v) for a, v in order]
    extra = []
    if rnd.random() < 0.5:
        extra.append((rnd.choice([10, 42, 200]), rnd.choice(['s', 'u', 'ay']), None))
        extra[-1] = (extra[-1][0], extra[-1][1], {'s': 'future', 'u': 7, 'ay': [1, 2]}[extra[-1][1]])
    # an unknown field may stand anywhere in the header: after the known fields, or before all of them
    first = bool(extra) and (serial + len(flist) + kind) % 2 == 0
    raw = ref_message(kind, flags, serial, flist, body_sig, body_vals, le, extra, extras_first=first)
    what = 'foreign message type %d fields %r extra %r (%s the known fields) flags %d serial %d body %r %r le=%s' % (kind, flist, extra, 'before' if first else 'after', flags, serial, body_sig, body_vals, le)
    return parsed_equals(raw, kind, flags, serial, fields, body_sig, body_vals, what), raw


def size_limit_cases():
    """the 128 MiB limit counts the whole message (header, padding, body)"""
    from txdbus import message, error
    limit = 2 ** 27
    probe = message.SignalMessage('/a', 'S', 'a.b', signature='s', body=['x'])
    overhead = len(probe.rawMessage) - 1            # everything except the string payload itself
    out = []
    for total, should in ((limit, True), (limit + 1, False), (limit + 8, False)):
        n = total - overhead
        try:
            m = message.SignalMessage('/a', 'S', 'a.b', signature='s', body=['x' * n])
            ok = True
            size = len(m.rawMessage)
            del m
        except error.MarshallingError:
            ok, size = False, None
        except MemoryError:
            continue
        if ok != should:
            out.append('a message of %d bytes in total %s (limit %d)' % (total, 'was constructed' if ok else 'was refused', limit))
        elif ok and size != total:
            out.append('size probe: expected %d bytes, got %d' % (total, size))
    # header padding counts: a message whose header + body fit but whose padded total does not
    for k in range(1, 8):
        try:
            probe = message.SignalMessage('/a', 'S' * k, 'a.b', signature='s', body=['x'])
        except Exception:
            continue
        padn = len(probe.rawPadding)
        if padn == 0:
            continue
        unpadded = len(probe.rawHeader) + len(probe.rawBody) - 1
        n = limit - unpadded            # header + body == limit, padded total == limit + padn
        try:
            m = message.SignalMessage('/a', 'S' * k, 'a.b', signature='s', body=['x' * n])
            size = len(m.rawMessage)
            del m
            if size > limit:
                out.append('a message of %d bytes (header + body = %d, %d padding bytes) was constructed; the limit is %d' % (size, limit, padn, limit))
        except error.MarshallingError:
            pass
        except MemoryError:
            pass
        break
    return out


def signature_limit_cases():
    """a body signature may be up to 255 characters long: messages at and just under the limit are built, and parsed, in either byte order"""
    from txdbus import message
    for sig, vals in (('y' * 255, [7] * 255), ('y' * 254, [7] * 254), ('su' * 127 + 'b', ['t', 5] * 127 + [True]), ('(' + 'y' * 253 + ')', [[1] * 253])):
        try:
            m = message.MethodCallMessage('/p', 'M', signature=sig, body=vals)
            back = message.parseMessage(m.rawMessage, [])
        except Exception as e:
            return 'a call with a body signature of %d characters (%s...) raised %s: %s' % (len(sig), sig[:6], type(e).__name__, str(e)[:80])
        if back.signature != sig or not W.same(back.body, [W.canon(ct, v) for ct, v in zip(W.split(sig), vals)]):
            return 'a call with a body signature of %d characters came back with signature length %r' % (len(sig), back.signature and len(back.signature))
        for le in (True, False):
            raw = ref_message(4, 0, 77, [(1, '/o'), (2, 'a.b'), (3, 'S'), (8, sig)], sig, vals, le)
            try:
                back = message.parseMessage(raw, [])
            except Exception as e:
                return 'parsing a %s-endian signal whose body signature has %d characters raised %s: %s' % ('little' if le else 'big', len(sig), type(e).__name__, str(e)[:80])
            if back.signature != sig or len(back.body) != len(W.split(sig)):
                return 'a %s-endian signal whose body signature has %d characters parsed to signature length %r, %d values' % ('little' if le else 'big', len(sig), back.signature and len(back.signature), len(back.body or []))
    return None


def nonstring_signature_cases():
    """header field 8 sent with a value that is no string - an array, a number, a boolean; empty or zero ones too - is refused, in
    either byte order (a bus that passed it on would hand its peers a message they cannot parse)"""
    from txdbus import message
    from txdbus.error import MarshallingError
    for vsig, val in (('as', []), ('as', ['s']), ('u', 0), ('u', 7), ('b', False), ('d', 0.0), ('ay', []), ('i', 0)):
        for le in (True, False):
            raw = ref_message(1, 0, 3, [(1, '/p'), (3, 'M'), (6, 'a.victim')], None, None, le, extra_fields=[(8, vsig, val)])
            try:
                m = message.parseMessage(raw, [])
            except MarshallingError:
                continue
            except Exception as e:
                return 'a %s-endian call whose SIGNATURE header field holds the %s value %r raised %s instead of MarshallingError' % ('little' if le else 'big', vsig, val, type(e).__name__)
            return 'a %s-endian call whose SIGNATURE header field holds the %s value %r was accepted (signature attribute %r)' % ('little' if le else 'big', vsig, val, m.signature)
    return None


def long_value_cases():
    """header fields without a length limit of their own - an object path, a destination's ... no: only the PATH - may be long; string
    values of the body may be long; such messages are built and parsed, in either byte order, whatever the order of the fields"""
    from txdbus import message
    for n_el in (40, 90, 400):
        path = '/' + '/'.join('element%d' % i for i in range(n_el))            # 360 .. 4000 characters
        text = 'v' * (3 * len(path))
        try:
            m = message.MethodCallMessage(path, 'M', interface='a.b', signature='so', body=[text, path])
            back = message.parseMessage(m.rawMessage, [])
        except Exception as e:
            return 'a call to an object path of %d characters raised %s: %s' % (len(path), type(e).__name__, str(e)[:80])
        if back.path != path or back.body != [text, path]:
            return 'a call to an object path of %d characters came back with a path of %r characters' % (len(path), back.path and len(back.path))
        for le in (True, False):
            for fields in ([(1, path), (2, 'a.b'), (3, 'S'), (8, 's')], [(8, 's'), (3, 'S'), (2, 'a.b'), (1, path)]):
                raw = ref_message(4, 0, 5, fields, 's', [text], le)
                try:
                    back = message.parseMessage(raw, [])
                except Exception as e:
                    return 'parsing a %s-endian signal from an object path of %d characters raised %s: %s' % ('little' if le else 'big', len(path), type(e).__name__, str(e)[:80])
                if back.path != path or back.member != 'S' or back.body != [text]:
                    return 'a %s-endian signal from an object path of %d characters parsed to path length %r, member %r' % ('little' if le else 'big', len(path), back.path and len(back.path), back.member)
    return None


def invalid_name_cases():
    """a message naming an invalid path, interface, member, destination or error name cannot be constructed"""
    from txdbus import message
    from txdbus.error import MarshallingError
    bad = {'path': ['', 'a', '/a/', '/a//b', '/a.b', '/\u00e9'], 'interface': ['', 'a', 'a.', '.a.b', 'a..b', 'a.1b', 'a b.c'],
           'member': ['', '1a', 'a.b', 'a-b', 'a b'], 'destination': ['', 'a', ':1', ':.a', 'a.b.', ':1..2', 'a.b c'], 'error_name': ['', 'a', 'a.', 'a..b']}
    # letters and digits outside ASCII are not name characters; names are at most 255 characters long
    foreign = ['Gr\u00f6\u00dfe', 'caf\u00e9', '\u0394t', 'x\u0663', '\u00e9', 'a\u00aa', 'x\u00b2']
    bad['member'] += foreign + ['a' * 256, 'M\n', 'M\r', 'M\0', '\nM', 'M ']
    # a colon belongs at the very start of a unique connection name and nowhere else
    bad['destination'] += ['com.example:svc', 'c:om.example', 'com.example.svc:', 'com.exa:mple.svc', '::1.42', ':1:42.7', ':1.42:']
    bad['interface'] += ['com.example:svc', ':1.42']
    bad['error_name'] += ['com.example:Err', ':1.42', 'org.freedesktop.DBus.Error.', 'org.freedesktop.DBus.Error.No-Memory', 'org.freedesktop.DBus.Error.2Big',
                          'org.freedesktop.DBus.Error.' + 'x' * 240]
    for k_, ok_ in (('interface', 'a.b'), ('error_name', 'a.b'), ('destination', 'a.b'), ('destination', ':1.2'), ('path', '/a')):
        bad[k_] += [ok_ + '\n', ok_ + '\0', ok_ + ' ', '\n' + ok_]
    bad['interface'] += ['a.' + x for x in foreign] + [x + '.b' for x in foreign] + ['a.' + 'b' * 254]
    bad['error_name'] += ['a.' + x for x in foreign] + ['a.' + 'b' * 254]
    bad['destination'] += ['a.' + x for x in foreign] + [':1.' + x for x in foreign] + ['a.' + 'b' * 254]
    bad['path'] += ['/' + x for x in foreign] + ['/a/' + foreign[0] + '/b']
    mk = {'MethodCallMessage': lambda **k: message.MethodCallMessage(k.get('path', '/p'), k.get('member', 'M'), interface=k.get('interface'), destination=k.get('destination')),
          'SignalMessage': lambda **k: message.SignalMessage(k.get('path', '/p'), k.get('member', 'M'), k.get('interface', 'a.b'), destination=k.get('destination')),
          'MethodReturnMessage': lambda **k: message.MethodReturnMessage(1, destination=k.get('destination')),
          'ErrorMessage': lambda **k: message.ErrorMessage(k.get('error_name', 'a.b'), 1, destination=k.get('destination'))}
    takes = {'MethodCallMessage': ('path', 'member', 'interface', 'destination'), 'SignalMessage': ('path', 'member', 'interface', 'destination'),
             'MethodReturnMessage': ('destination',), 'ErrorMessage': ('error_name', 'destination')}
    # a field the message type requires is not left out either
    for what, mkf in (('MethodCallMessage without a path', lambda: message.MethodCallMessage(None, 'M')), ('SignalMessage without a path', lambda: message.SignalMessage(None, 'M', 'a.b')),
                      ('MethodCallMessage without a member', lambda: message.MethodCallMessage('/p', None)), ('SignalMessage without an interface', lambda: message.SignalMessage('/p', 'M', None)),
                      ('ErrorMessage without a name', lambda: message.ErrorMessage(None, 1))):
        try:
            mkf()
        except MarshallingError:
            continue
        except Exception as e:
            return '%s raised %s instead of MarshallingError' % (what, type(e).__name__)
        return '%s was constructed' % what
    for cls, fields in takes.items():
        for f in fields:
            for v in bad[f]:
                try:
                    mk[cls](**{f: v})
                except MarshallingError:
                    continue
                except Exception as e:
                    return '%s with %s=%r raised %s instead of MarshallingError' % (cls, f, v, type(e).__name__)
                return '%s with the invalid %s %r was constructed' % (cls, f, v)
    # the verdict on a name depends on the FIELD it is used in, not on what was accepted or refused before: a string that is valid in
    # one field is used there first, then tried where it is not valid (and the other way round: refused first, then used validly)
    cross = {':1.42': ('destination',), 'com.example.my-service': ('destination',), 'a.b': ('interface', 'destination', 'error_name'),
             'Member': ('member',), '/a/b': ('path',), 'a.b-c': ('destination',), '/': ('path',), 'a._1': ('interface', 'destination', 'error_name')}
    for order in ('valid-first', 'invalid-first'):
        for v, valid_in in cross.items():
            for cls, fields in takes.items():
                good = [f for f in fields if f in valid_in]
                for f in fields:
                    if f in valid_in:
                        continue
                    steps = ([(g, True) for g in good] + [(f, False)]) if order == 'valid-first' else ([(f, False)] + [(g, True) for g in good])
                    for fld, ok in steps:
                        try:
                            mk[cls](**{fld: v})
                            made = True
                        except MarshallingError:
                            made = False
                        except Exception as e:
                            return '%s with %s=%r raised %s instead of MarshallingError' % (cls, fld, v, type(e).__name__)
                        if made != ok:
                            return ('%s with %s=%r %s (order %s: the same string was %s as %s just before)'
                                    % (cls, fld, v, 'was constructed although the name is not valid there' if made else 'was refused although the name is valid there',
                                       order, 'accepted' if order == 'valid-first' else 'refused', ', '.join(x for x, _ in steps if x != fld) or 'nothing'))
    return None


FIELD_TYPES = {1: 'o', 2: 's', 3: 's', 4: 's', 5: 'u', 6: 's', 7: 's', 8: 'g', 9: 'u'}          # DBus specification, table of header fields


def header_field_types(raw):
    """{field code: signature of the variant carrying it} read from the wire bytes of a message"""
    import struct
    le = raw[:1] == b'l'
    n = struct.unpack_from(('<' if le else '>') + 'I', raw, 12)[0]
    pos, end, out = 16, 16 + n, {}
    while pos < end:
        pos += len(W.pad(pos, 8))
        code = raw[pos]
        sg, p2 = W.dec1('g', raw, pos + 1, le)
        p2 += len(W.pad(p2, W.ALIGN[sg[0]]))
        _v, pos = W.dec1(sg, raw, p2, le)
        out[code] = sg
    return out


def header_types_ok(raw, what):
    for code, sg in header_field_types(raw).items():
        if code in FIELD_TYPES and sg != FIELD_TYPES[code]:
            return '%s: header field %d is written as a variant of type %r, the specification prescribes %r' % (what, code, sg, FIELD_TYPES[code])
    return None


def descriptor_header_cases():
    """the unix_fds header appears exactly once in a message that carries descriptors - however many such messages were built
    before - and never in one that carries none"""
    from txdbus import message
    for round_ in range(3):
        fds = []
        m = message.MethodCallMessage('/p', 'M', interface='a.b', signature='hs', body=[5, 'x'], oobFDs=fds)
        vals, _ = W.decode(HDR, m.rawMessage, 0, True)
        codes = [c for c, _v in vals[6]]
        if codes.count(9) != 1 or len(set(codes)) != len(codes):
            return 'descriptor-carrying call #%d has header field codes %r' % (round_ + 1, codes)
        f = header_types_ok(m.rawMessage, 'descriptor-carrying call #%d' % (round_ + 1))
        if f:
            return f
        # several descriptors, nested in an array (only method calls are built with descriptors by the library)
        mm = message.MethodCallMessage('/p', 'M', destination='a.b', signature='ahs', body=[[3, 4, 5], 'x'], oobFDs=[])
        f = header_types_ok(mm.rawMessage, 'a call carrying three descriptors')
        if f:
            return f
        plain = message.MethodCallMessage('/p', 'M', interface='a.b', signature='s', body=['x'])
        vals, _ = W.decode(HDR, plain.rawMessage, 0, True)
        codes = [c for c, _v in vals[6]]
        if 9 in codes or len(set(codes)) != len(codes):
            return 'a call without descriptors built after %d descriptor-carrying ones has header field codes %r' % (round_ + 1, codes)
    return None


def bounded(tier, seed):
    rnd = random.Random(seed * 613 + 3)
    n = 0
    pool = H.signature_pool('quick')
    rnd.shuffle(pool)
    bodies = [(None, None), ('s', ['hello']), ('a{sv}', [{'a': W.Variant('i', 1), 'b': W.Variant('s', 'x')}]), ('ai', [[1, 2, 3]]), ('(ii)as', [[1, 2], ['a', 'b']]),
              ('axy', [[], 7]), ('v', [W.Variant('a{sv}', {})]), ('tdb', [2**64 - 1, -0.5, True])]
    for ct in pool[:400 if tier == 'thorough' else 14]:
        bodies.append((ct, [W.gen_value(ct, rnd)]))
    optsets = []
    for r in range(0, 4):
        for keys in itertools.combinations(['interface', 'destination', 'sender'], r):
            o = {}
            if 'interface' in keys: o['interface'] = 'org.x.I'
            if 'destination' in keys: o['destination'] = rnd.choice(['org.x.Dest', ':1.42'])
            if 'sender' in keys: o['sender'] = ':1.7'
            optsets.append(o)
    last = None
    for kind in (1, 2, 3, 4):
        for opts in optsets:
            for flags in ((0, 1, 2, 3) if kind == 1 else (0,)):
                for body_sig, body_vals in (bodies if (len(opts) in (0, 3) or tier == 'thorough') else bodies[:3]):
                    o = dict(opts)
                    if kind in (2, 3):
                        o['reply_serial'] = rnd.choice([1, 5, 2**32 - 1])
                    n += 1
                    f, last = wellformed_case(kind, o, body_sig, body_vals, flags, last)
                    if f:
                        return n, f, {'kind': kind, 'opts': o, 'flags': flags, 'body_sig': body_sig, 'body': repr(body_vals)}
    # foreign bytes
    for kind in (1, 2, 3, 4):
        for _ in range(8000 if tier == 'thorough' else 30):
            opts = dict(rnd.choice(optsets))
            if kind in (2, 3):
                opts['reply_serial'] = rnd.choice([1, 9, 2**32 - 1])
            body_sig, body_vals = rnd.choice(bodies)
            fields = expected_fields(kind, opts, body_sig)
            if kind != 3:
                opts.pop('sender', None)
            if rnd.random() < 0.5:
                fields['sender'] = ':1.99'            # a bus daemon adds the sender to every message
            if rnd.random() < 0.3:
                fields['unix_fds'] = rnd.choice([1, 2, 3])     # a message carrying descriptors declares how many (parsed here without them)
            flags = rnd.choice([0, 1, 2, 3])
            serial = rnd.choice([1, 77, 2**32 - 1])
            le = rnd.random() < 0.5
            n += 1
            f, raw = foreign_case(rnd, kind, fields, flags, serial, body_sig, body_vals, le)
            if f:
                return n, f, {'raw': raw.hex()}
    for case in (invalid_name_cases, descriptor_header_cases, signature_limit_cases, long_value_cases, nonstring_signature_cases):
        n += 1
        f = case()
        if f:
            return n, f, {'case': case.__name__}
    for f in size_limit_cases():
        return n + 1, f, {'case': 'size limit'}
    n += 4
    return n, None, None
