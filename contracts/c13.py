"""C13 - built-in bus: a name has one live owner; ownership follows the request flags.

Shape: data structure against an abstract view.  View of the name table for ONE name n:
    Q = Bus.busNames[n]  (sequence of connections, head = owner; absent = unowned)
    allow(c) = c.busNames[n]  (that connection allowed replacement)
Every operation is verified from every state (all histories = all sequences of operations, each
atomic in the single-threaded reactor): reply code and resulting queue as the property statement /
DBus specification prescribe, frame for every other name (skolem name n2) and every other
connection (skolem connection x0).  Universally quantified representation invariants are used in
instantiated form (at the owner, the caller and one arbitrary fresh connection x0) and re-proved at x0.
clientDisconnected iterates over a dict (outside the verified subset): bounded stand-in (history
enumeration against a reference model), labelled bounded.
"""
import itertools
import random

import z3

from pyvc.values import *  # noqa
from pyvc.engine import World, ClassSpec
from pyvc.runner import Spec
from .base import contract, make_models, inline
from .c18 import add_validator_contracts

B, BP = 'Bus', 'BusProtocol'


def classes(w):
    from txdbus import bus
    w.add_class(ClassSpec(BP, bus.BusProtocol, {
        'busNames': DictT(STR, BOOL), 'uniqueName': Opt(STR), 'isConnected': BOOL}))
    w.add_class(ClassSpec(B, bus.Bus, {
        'clients': DictT(STR, Ref(BP)), 'busNames': DictT(STR, ListT(Ref(BP))),
        'g_sig': ListT(TupleT(Ref(BP), STR, STR)),        # ghost: unicast signals (to, member, name)
    }))


from pyvc.engine import select_store


def qview(view, name):
    d = view.busNames
    return select_store(d.dom, name), select_store(d.vals[0], name)


def allow_of(cx, heap_view_fn, conn, name):
    d = heap_view_fn(VRef(conn, BP)).busNames
    return select_store(d.dom, name), select_store(d.vals[0], name)


_CTX = [None]


def tail_of(q):
    from pyvc.engine import syntactic_tail
    t = syntactic_tail(q)
    return t if t is not None else z3.SubSeq(q, 1, z3.Length(q) - 1)


def member(q, x):
    """membership through the engine's instantiated mem predicate (pyvc.engine.Membership)"""
    return _CTX[0].membership.mem(q, x)


def build_world():
    from txdbus import bus, client
    from txdbus.bus import DError
    w = World()
    classes(w)
    add_validator_contracts(w)
    inline(w, 'txdbus.bus.DError.__init__')

    contract(w, 'txdbus.bus.Bus.sendSignal',
             {'self': Ref(B), 'p': Ref(BP), 'member': STR, 'signature': Opt(STR), 'body': STR, 'path': STR, 'interface': STR},
             modifies=lambda cx: [(cx.args['self'], B + '.g_sig')],
             ensures=lambda cx: [('logged', cx.new(cx.args['self']).g_sig.seqs[0] ==
                                  z3.Concat(cx.old(cx.args['self']).g_sig.seqs[0], z3.Unit(cx.a('p'))))] +
             [('logged-m', cx.new(cx.args['self']).g_sig.seqs[1] == z3.Concat(cx.old(cx.args['self']).g_sig.seqs[1], z3.Unit(cx.a('member')))),
              ('logged-n', cx.new(cx.args['self']).g_sig.seqs[2] == z3.Concat(cx.old(cx.args['self']).g_sig.seqs[2], z3.Unit(cx.a('body'))))],
             assumed=True)
    contract(w, 'txdbus.bus.Bus.broadcastSignal',
             {'self': Ref(B), 'member': STR, 'signature': Opt(STR), 'body': OPAQUE, 'path': STR, 'interface': STR},
             assumed=True)

    def common_pre(cx):
        _CTX[0] = cx.ctx
        s = cx.args['self']
        o = cx.old(s)
        name = cx.a('name')
        cd = o.clients
        c = z3.Select(cd.vals[0], cx.a('dbusCaller'))
        present, Q = qview(o, name)
        x0 = cx.ctx.x0 = getattr(cx.ctx, 'x0', None) or cx.ctx.fresh('x0_conn', IntSort)
        insts = [Q[0], c, x0]
        # theory fact about sequences (not an assumption on the program): the head of a non-empty queue is a member
        cx.ctx.membership.interest(Q[0])
        cx.ctx.assume(z3.Implies(z3.Length(Q) >= 1, member(Q, Q[0])))
        out = [('caller-connected', z3.Select(cd.dom, cx.a('dbusCaller'))),
               ('queues-non-empty', z3.Implies(present, z3.Length(Q) >= 1)),
               ('refs', z3.And(c >= 0, x0 >= 0))]
        for k, x in enumerate(insts):
            ad, _ = allow_of(cx, cx.old, x, name)
            # NT (instantiated): a queued connection records the name in its own table, and only then
            out.append(('queued-iff-recorded@%d' % k, z3.And(z3.Implies(z3.And(present, member(Q, x)), ad),
                                                            z3.Implies(ad, z3.And(present, member(Q, x))))))
        # no connection is queued twice (NT.nodup, instantiated at the caller and at x0; assumed as a
        # precondition - its preservation is checked by the bounded history enumeration only)
        # ... and at the owner: the head does not occur again in the tail
        T0 = cx.ctx.fresh('nd_tail', Q.sort())
        cx.ctx.membership.equation(Q, z3.Concat(z3.Unit(Q[0]), T0), present)
        cx.ctx.membership.known_tail.append((Q, T0, present))
        out.append(('nodup@owner', z3.Implies(present, z3.And(Q == z3.Concat(z3.Unit(Q[0]), T0), z3.Not(member(T0, Q[0]))))))
        # joint form for a waiting caller: Q == [owner] . A1 . [c] . B1
        A1 = cx.ctx.fresh('nd_A1', Q.sort())
        B1 = cx.ctx.fresh('nd_B1', Q.sort())
        waiting = z3.And(present, Q[0] != c, member(Q, c))
        cx.ctx.membership.equation(T0, z3.Concat(A1, z3.Unit(c), B1), waiting)
        cx.ctx.membership.unique_occ.append((Q, c, z3.Concat(z3.Unit(Q[0]), A1), B1, waiting))
        out.append(('nodup@waiting-caller', z3.Implies(waiting, z3.And(T0 == z3.Concat(A1, z3.Unit(c), B1),
                                                                      z3.Not(member(A1, c)), z3.Not(member(B1, c))))))
        for tag, x in (('x0', x0),):
            A = cx.ctx.fresh('nd_A_' + tag, Q.sort())
            Bq = cx.ctx.fresh('nd_B_' + tag, Q.sort())
            cx.ctx.membership.interest(x)
            cx.ctx.membership.equation(Q, z3.Concat(A, z3.Unit(x), Bq), z3.And(present, member(Q, x)))
            cx.ctx.membership.unique_occ.append((Q, x, A, Bq, z3.And(present, member(Q, x))))
            out.append(('nodup@' + tag, z3.Implies(z3.And(present, member(Q, x)),
                                                   z3.And(Q == z3.Concat(A, z3.Unit(x), Bq), z3.Not(member(A, x)), z3.Not(member(Bq, x))))))
        return out

    def nodup_at(Q, x):
        """x occurs at most once in Q, as a word equation with existential parts (skolemised by the prover
        when it is an assumption, so it is only ever ASSUMED here, never a proof goal)."""
        return None

    def request_post(cx):
        s = cx.args['self']
        o, n = cx.old(s), cx.new(s)
        name, flags = cx.a('name'), cx.a('flags')
        c = z3.Select(o.clients.vals[0], cx.a('dbusCaller'))
        present, Q = qview(o, name)
        present2, Q2 = qview(n, name)
        allow = (flags % 2) == 1
        replace = ((flags / 2) % 2) == 1
        dnq = ((flags / 4) % 2) == 1
        owner = Q[0]
        _, owner_allow = allow_of(cx, cx.old, owner, name)
        cd2, ca2 = allow_of(cx, cx.new, c, name)
        od2, _ = allow_of(cx, cx.new, owner, name)
        x0 = cx.ctx.x0
        xd, xa = allow_of(cx, cx.old, x0, name)
        xd2, xa2 = allow_of(cx, cx.new, x0, name)
        r = cx.result.term
        takeover = z3.And(replace, owner_allow)
        other = z3.And(present, owner != c)
        n2 = cx.ctx.fresh('n2_name', StringSort)
        on2 = qview(o, n2)
        nn2 = qview(n, n2)
        x_n2_old = allow_of(cx, cx.old, x0, n2)
        x_n2_new = allow_of(cx, cx.new, x0, n2)
        return [
            ('unowned->owner', z3.Implies(z3.Not(present), z3.And(r == 1, present2, Q2 == z3.Unit(c), cd2, ca2 == allow))),
            ('already-owner', z3.Implies(z3.And(present, owner == c), z3.And(r == 4, present2, Q2 == Q, cd2, ca2 == allow))),
            ('replace', z3.Implies(z3.And(other, takeover),
                                   z3.And(r == 1, present2, Q2[0] == c, z3.Length(Q2) >= 1,
                                          z3.Not(member(tail_of(Q2), c)),
                                          cd2, ca2 == allow, z3.Not(od2), z3.Not(member(Q2, owner)),
                                          z3.Implies(z3.And(x0 != c, x0 != owner), member(Q2, x0) == member(Q, x0))))),
            ('refused', z3.Implies(z3.And(other, z3.Not(takeover), dnq),
                                   z3.And(r == 3, present2, Q2[0] == owner, z3.Not(member(Q2, c)), z3.Not(cd2),
                                          z3.Implies(x0 != c, member(Q2, x0) == member(Q, x0))))),
            ('queued', z3.Implies(z3.And(other, z3.Not(takeover), z3.Not(dnq)),
                                  z3.And(r == 2, present2, cd2, ca2 == allow,
                                         z3.Implies(member(Q, c), Q2 == Q),
                                         z3.Implies(z3.Not(member(Q, c)), Q2 == z3.Concat(Q, z3.Unit(c)))))),
            ('reply-code', z3.Or(r == 1, r == 2, r == 3, r == 4)),
            ('inv:queued-iff-recorded@x0', z3.And(z3.Implies(z3.And(present2, member(Q2, x0)), xd2),
                                                  z3.Implies(xd2, z3.And(present2, member(Q2, x0))))),
            ('inv:queue-non-empty', z3.Implies(present2, z3.Length(Q2) >= 1)),
            ('frame:other-names', z3.Implies(n2 != name, z3.And(on2[0] == nn2[0], z3.Implies(on2[0], on2[1] == nn2[1]),
                                                              x_n2_old[0] == x_n2_new[0], x_n2_old[1] == x_n2_new[1]))),
            ('frame:other-connections-flag', z3.Implies(z3.And(x0 != c, x0 != owner), z3.And(xd == xd2, xa == xa2))),
        ]

    def invalid_name(cx):
        from . import grammar as G
        name = cx.a('name')
        return z3.Or(z3.Length(name) == 0, z3.PrefixOf(z3.StringVal(':'), name), z3.Not(z3.InRe(name, G.BUS)))

    mods = lambda cx: [(cx.args['self'], B + '.busNames'), (cx.args['self'], B + '.g_sig'), ('*', BP + '.busNames')]

    contract(w, 'txdbus.bus.Bus.dbus_RequestName',
             {'self': Ref(B), 'name': STR, 'flags': INT, 'dbusCaller': STR}, result=INT,
             requires=lambda cx: common_pre(cx) + [('flags', cx.a('flags') >= 0)],
             ensures=lambda cx: request_post(cx) + [('valid-name', z3.Not(invalid_name(cx)))],
             raises={DError: invalid_name}, modifies=mods)

    def release_post(cx):
        s = cx.args['self']
        o, n = cx.old(s), cx.new(s)
        name = cx.a('name')
        c = z3.Select(o.clients.vals[0], cx.a('dbusCaller'))
        present, Q = qview(o, name)
        present2, Q2 = qview(n, name)
        cd2, _ = allow_of(cx, cx.new, c, name)
        x0 = cx.ctx.x0
        xd, xa = allow_of(cx, cx.old, x0, name)
        xd2, xa2 = allow_of(cx, cx.new, x0, name)
        r = cx.result.term
        sig_old, sig_new = o.g_sig.seqs, n.g_sig.seqs
        n2 = cx.ctx.fresh('n2_name', StringSort)
        on2, nn2 = qview(o, n2), qview(n, n2)
        x_n2_old = allow_of(cx, cx.old, x0, n2)
        x_n2_new = allow_of(cx, cx.new, x0, n2)
        tail = z3.SubSeq(Q, 1, z3.Length(Q) - 1)
        return [
            ('non-existent', z3.Implies(z3.Not(present), z3.And(r == 2, z3.Not(present2)))),
            ('owner-releases', z3.Implies(z3.And(present, Q[0] == c),
                                          z3.And(r == 1, z3.Not(cd2),
                                                 z3.If(z3.Length(Q) == 1, z3.Not(present2), z3.And(present2, Q2 == tail))))),
            ('next-owner-told', z3.Implies(z3.And(present, Q[0] == c, z3.Length(Q) > 1),
                                           z3.And(z3.Length(sig_new[0]) >= 1,
                                                  sig_new[0][z3.Length(sig_new[0]) - 1] == Q[1],
                                                  sig_new[1][z3.Length(sig_new[1]) - 1] == z3.StringVal('NameAcquired'),
                                                  sig_new[2][z3.Length(sig_new[2]) - 1] == name))),
            ('waiter-leaves', z3.Implies(z3.And(present, Q[0] != c),
                                         z3.And(z3.Or(r == 3, r == 1), present2, Q2[0] == Q[0], z3.Not(member(Q2, c)), z3.Not(cd2),
                                                z3.Implies(x0 != c, member(Q2, x0) == member(Q, x0))))),
            ('inv:queued-iff-recorded@x0', z3.Implies(z3.Or(x0 != c, z3.Not(member(tail, c))),
                                                      z3.And(z3.Implies(z3.And(present2, member(Q2, x0)), xd2),
                                                             z3.Implies(xd2, z3.And(present2, member(Q2, x0)))))),
            ('inv:queue-non-empty', z3.Implies(present2, z3.Length(Q2) >= 1)),
            ('frame:other-names', z3.Implies(n2 != name, z3.And(on2[0] == nn2[0], z3.Implies(on2[0], on2[1] == nn2[1]),
                                                              x_n2_old[0] == x_n2_new[0], x_n2_old[1] == x_n2_new[1]))),
            ('frame:other-connections-flag', z3.Implies(x0 != c, z3.And(xd == xd2, xa == xa2))),
        ]

    contract(w, 'txdbus.bus.Bus.dbus_ReleaseName',
             {'self': Ref(B), 'name': STR, 'dbusCaller': STR}, result=INT,
             requires=common_pre, ensures=release_post, modifies=mods)

    def owner_post(cx):
        s = cx.args['self']
        o = cx.old(s)
        bn = cx.a('busName')
        present, Q = qview(o, bn)
        cd = o.clients
        uniq = z3.PrefixOf(z3.StringVal(':'), bn)
        conn = z3.If(uniq, z3.Select(cd.vals[0], bn), Q[0])
        u = cx.old(VRef(conn, BP)).uniqueName
        return [('owner-is-queue-head', z3.And(z3.Not(u.none), cx.result.term == u.val.term))]

    def no_owner(cx):
        s = cx.args['self']
        o = cx.old(s)
        bn = cx.a('busName')
        present, Q = qview(o, bn)
        uniq = z3.PrefixOf(z3.StringVal(':'), bn)
        return z3.If(uniq, z3.Not(z3.Select(o.clients.dom, bn)), z3.Not(present))

    contract(w, 'txdbus.bus.Bus.dbus_GetNameOwner', {'self': Ref(B), 'busName': STR}, result=STR,
             requires=lambda cx: [('queues-non-empty', z3.Implies(qview(cx.old(cx.args['self']), cx.a('busName'))[0],
                                                                  z3.Length(qview(cx.old(cx.args['self']), cx.a('busName'))[1]) >= 1)),
                                  ('named', z3.Implies(z3.Select(cx.old(cx.args['self']).clients.dom, cx.a('busName')),
                                                       z3.Not(cx.old(VRef(z3.Select(cx.old(cx.args['self']).clients.vals[0], cx.a('busName')), BP)).uniqueName.none))),
                                  ('head-named', z3.Implies(qview(cx.old(cx.args['self']), cx.a('busName'))[0],
                                                            z3.Not(cx.old(VRef(qview(cx.old(cx.args['self']), cx.a('busName'))[1][0], BP)).uniqueName.none)))],
             ensures=owner_post, raises={DError: no_owner},
             raises_post={DError: lambda cx: []})
    return w


# ---------------------------------------------------------------------------- concrete side
class Model:
    """Reference model of the name table, from the property statement / DBus specification."""
    def __init__(self):
        self.q = {}      # name -> list of connection ids (head = owner)
        self.allow = {}  # (conn, name) -> bool

    def request(self, c, name, flags):
        allow, replace, dnq = bool(flags & 1), bool(flags & 2), bool(flags & 4)
        q = self.q.get(name)
        if not q:
            self.q[name] = [c]
            self.allow[(c, name)] = allow
            return {1}
        if q[0] == c:
            self.allow[(c, name)] = allow
            return {4}
        if replace and self.allow[(q[0], name)]:
            old = q[0]
            rest = [x for x in q[1:] if x != c]
            self.alt = [c, old] + rest               # the statement allows the old owner to wait behind
            self.q[name] = [c] + rest
            self.allow.pop((old, name), None)
            self.allow[(c, name)] = allow
            return {1}
        if dnq:
            if c in q:
                q.remove(c)
                self.allow.pop((c, name), None)
            return {3}
        if c not in q:
            q.append(c)
        self.allow[(c, name)] = allow
        return {2}

    def release(self, c, name):
        q = self.q.get(name)
        if not q:
            return {2}
        if q[0] != c:
            if c in q:
                q.remove(c)
                self.allow.pop((c, name), None)
                return {3, 1}
            return {3}
        q.pop(0)
        self.allow.pop((c, name), None)
        if not q:
            del self.q[name]
        return {1}

    def disconnect(self, c):
        for name in list(self.q):
            q = self.q[name]
            if c in q:
                q.remove(c)
                self.allow.pop((c, name), None)
            if not q:
                del self.q[name]


class Harness:
    def __init__(self):
        from txdbus import bus
        from twisted.internet.testing import StringTransport
        self.bus = bus.Bus()
        self.conns = {}
        self.ST = StringTransport
        self.busmod = bus

    def connect(self, k):
        p = self.busmod.BusProtocol()
        p.transport = self.ST()
        class F: pass
        p.factory = F()
        p.factory.bus = self.bus
        p.connectionAuthenticated()
        self.bus.clientConnected(p)
        self.conns[k] = p
        return p

    def state(self):
        return {n: [self.key(p) for p in q] for n, q in self.bus.busNames.items()}

    def key(self, p):
        for k, v in self.conns.items():
            if v is p:
                return k
        return 'dead:%s' % p.uniqueName


def drain_signals(p):
    """(member, body) of the messages the bus has written to connection p since the last call"""
    import struct
    from txdbus import message
    data = p.transport.value()
    p.transport.clear()
    out = []
    while data:
        e = '<' if data[:1] == b'l' else '>'
        blen = struct.unpack(e + 'I', data[4:8])[0]
        hlen = 16 + struct.unpack(e + 'I', data[12:16])[0]
        hlen += (-hlen) % 8
        raw, data = data[:hlen + blen], data[hlen + blen:]
        m = message.parseMessage(raw, None)
        out.append((getattr(m, 'member', None), m.body))
    return out


def run_history(ops):
    """ops: list of ('req', c, name, flags) | ('rel', c, name) | ('disc', c).  Returns failure text or None."""
    h = Harness()
    m = Model()
    alive = set()
    for k in range(4):
        h.connect(k)
        alive.add(k)
    for step, op in enumerate(ops):
        if op[1] not in alive:
            continue
        p = h.conns[op[1]]
        m.alt = None
        owners_before = {n: q[0] for n, q in h.state().items()}
        for k in alive:
            drain_signals(h.conns[k])
        try:
            if op[0] == 'req':
                got = h.bus.dbus_RequestName(op[2], op[3], dbusCaller=p.uniqueName)
                want = m.request(op[1], op[2], op[3])
            elif op[0] == 'rel':
                got = h.bus.dbus_ReleaseName(op[2], dbusCaller=p.uniqueName)
                want = m.release(op[1], op[2])
            else:
                p.connectionLost(None)
                alive.discard(op[1])
                m.disconnect(op[1])
                got, want = None, {None}
        except Exception as e:
            return 'step %d %r raised %s: %s' % (step, op, type(e).__name__, e)
        if got not in want:
            return 'step %d %r: reply %r, expected one of %r' % (step, op, got, sorted(want, key=str))
        st = h.state()
        if st != m.q and not (m.alt is not None and st == dict(m.q, **{op[2]: m.alt})):
            return 'step %d %r: name table %r, expected %r' % (step, op, st, m.q)
        # whoever becomes owner of a name in this step - by request, or promoted because the owner released it or
        # disconnected - is told so: a NameAcquired signal carrying the name
        told = {k: drain_signals(h.conns[k]) for k in alive}
        for n, q in st.items():
            if q and q[0] in alive and owners_before.get(n) != q[0]:
                if ('NameAcquired', [n]) not in told.get(q[0], []):
                    return 'step %d %r: connection %r became owner of %s (was %r) and was not sent NameAcquired (it received %r)' % (step, op, q[0], n, owners_before.get(n), told.get(q[0]))
        for n, q in st.items():
            if any(str(x).startswith('dead') for x in q) or len(set(q)) != len(q) or not q:
                return 'step %d %r: queue of %s is %r (dead / duplicate / empty)' % (step, op, n, q)
            try:
                if h.bus.dbus_GetNameOwner(n) != h.conns[q[0]].uniqueName:
                    return 'step %d: GetNameOwner(%s) disagrees with the table' % (step, n)
                if h.bus.dbus_ListQueuedOwners(n) != [h.conns[x].uniqueName for x in q]:
                    return 'step %d: ListQueuedOwners(%s) disagrees with the table' % (step, n)
            except Exception as e:
                return 'step %d: lookup raised %s' % (step, e)
    return None


def all_ops(nclients=3, names=('a.b', 'c.d')):
    ops = []
    for c in range(nclients):
        for n in names:
            for f in range(8):
                ops.append(('req', c, n, f))
            ops.append(('rel', c, n))
        ops.append(('disc', c))
    return ops


def client_flags_case():
    """the client-side API states the request it was asked to make: allowReplacement / replaceExisting / doNotQueue map to
    the flag bits 1 / 2 / 4 of RequestName and nothing else influences them"""
    from twisted.internet import defer
    from txdbus import client
    for allow in (False, True):
        for replace in (False, True):
            for dnq in (False, True):
                for errback in (False, True):
                    c = client.DBusClientConnection()
                    sent = []
                    def callRemote(path, member, **kw):
                        sent.append((member, kw.get('body')))
                        return defer.Deferred()
                    c.callRemote = callRemote
                    c.requestBusName('org.verif.N', allowReplacement=allow, replaceExisting=replace, doNotQueue=dnq, errbackUnlessAcquired=errback)
                    want = (1 if allow else 0) | (2 if replace else 0) | (4 if dnq else 0)
                    if len(sent) != 1 or sent[0][0] != 'RequestName' or sent[0][1] != ['org.verif.N', want]:
                        return 'requestBusName(allowReplacement=%s, replaceExisting=%s, doNotQueue=%s, errbackUnlessAcquired=%s) sent %r, expected flags %d' % (allow, replace, dnq, errback, sent, want)
    # the reply code states the caller's relation to the name: owner now (1) or already (4) -> the code; waiting (2) or refused
    # (3) -> FailedToAcquireName carrying the code, unless the caller asked for the plain code
    from txdbus import error
    for errback in (False, True):
        for code in (1, 2, 3, 4):
            c = client.DBusClientConnection()
            ds = []

            def callRemote(path, member, **kw):
                d = defer.Deferred()
                ds.append(d)
                return d
            c.callRemote = callRemote
            out = []
            c.requestBusName('org.verif.N', errbackUnlessAcquired=errback).addBoth(out.append)
            ds[0].callback(code)
            owner = code in (1, 4)
            if len(out) != 1:
                return 'requestBusName: reply code %d completed the Deferred %d times' % (code, len(out))
            if errback and not owner:
                if not (hasattr(out[0], 'check') and out[0].check(error.FailedToAcquireName)) or getattr(out[0].value, 'returnCode', None) != code:
                    return 'requestBusName(errbackUnlessAcquired=True): reply code %d gave %r, expected FailedToAcquireName(%d)' % (code, out[0], code)
            elif out[0] != code:
                return 'requestBusName(errbackUnlessAcquired=%s): reply code %d (the caller %s the name) gave %r, expected the code' % (errback, code, 'owns' if owner else 'does not own', out[0])
    return None


def bounded_histories(tier, seed):
    """exhaustive to length 2 over 3 clients x 1 name (+ representative flags), random beyond"""
    rnd = random.Random(seed)
    small = [o for o in all_ops(3, ('a.b',)) if o[0] != 'req' or o[3] in (0, 1, 2, 4, 5, 6)]
    n = 1
    failures = []
    f = client_flags_case()
    if f:
        return n, [{'function': 'txdbus.client.DBusClientConnection.requestBusName', 'clause': 'history', 'input': {'case': 'client flag bits'}, 'detail': f}]
    depth = 3 if tier == 'thorough' else 2
    for L in range(1, depth + 1):
        for hist in itertools.product(small, repeat=L):
            n += 1
            f = run_history(list(hist))
            if f:
                failures.append({'function': 'txdbus.bus.Bus.name-table', 'clause': 'history', 'input': [list(o) for o in hist], 'detail': f})
                return n, failures
    ops = all_ops(4)
    for _ in range(30000 if tier == 'thorough' else 600):
        hist = [rnd.choice(ops) for _ in range(rnd.randrange(3, 14))]
        n += 1
        f = run_history(hist)
        if f:
            failures.append({'function': 'txdbus.bus.Bus.name-table', 'clause': 'history', 'input': [list(o) for o in hist], 'detail': f})
            break
    return n, failures


def replay(function, clause, model):
    """Concrete search through the real Bus object against the reference model."""
    if isinstance(model, dict) and model.get('history'):
        f = run_history([tuple(o) for o in model['history']])
        return {'reproduced': bool(f), 'input': model['history'], 'detail': f}
    n, failures = bounded_histories('quick', 7)
    if failures:
        return {'reproduced': True, 'input': failures[0]['input'], 'detail': failures[0]['detail']}
    return {'reproduced': False, 'detail': 'no failing history among %d' % n}


def run_bounded(tier, seed):
    n, failures = bounded_histories(tier, seed)
    return {'tool': 'history enumeration against a reference model of the name table (real Bus / BusProtocol objects)',
            'bound': 'all histories of length <= %d over 3 clients x 1 name x {6 flag sets, release, disconnect}; %s random histories of length 3..13 over 4 clients x 2 names x 8 flag sets' % (3 if tier == 'thorough' else 2, 30000 if tier == 'thorough' else 600),
            'evaluations': n, 'failures': failures}


def build(tier='quick'):
    w = build_world()
    return Spec('C13', w, make_models,
                ['txdbus.bus.Bus.dbus_RequestName', 'txdbus.bus.Bus.dbus_ReleaseName', 'txdbus.bus.Bus.dbus_GetNameOwner'],
                replay=replay, bounded=[{'name': 'name-table-histories', 'run': run_bounded}],
                trusted=['z3 sequence theory (queues are Seq(Ref)); list.remove / del l[0] as word equations',
                         'python dict = total array + domain predicate; container values are not aliased between two locations'],
                assumed=['Bus.sendSignal appends (connection, member, name) to the ghost signal log and touches nothing else; broadcastSignal has no effect on the tables',
                         'validateBusName contract (proved under C18)'],
                notes=['clientDisconnected / ListQueuedOwners iterate over symbolic containers: bounded stand-in only (history enumeration), not counted as proved'],
                explanation='RequestName / ReleaseName / GetNameOwner verified per operation against the abstract name-table view for the touched name with skolemised frame; disconnect and queue listing by bounded history enumeration against a reference model',
                design_ref='DESIGN.md 4/C13')
