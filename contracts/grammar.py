"""DBus name grammars, written from the DBus specification (section "Valid Names", "Valid Object
Paths"), independently of txdbus.marshal - once as z3 regular expressions, once as python `re`
patterns for the concrete replay oracle."""
import re
import z3

from pyvc import strings as S

_al = z3.Union(z3.Range('A', 'Z'), z3.Range('a', 'z'), S.lit('_'))
_alnum = z3.Union(_al, z3.Range('0', '9'))
_al_h = z3.Union(_al, S.lit('-'))
_alnum_h = z3.Union(_alnum, S.lit('-'))
_dot = S.lit('.')

_elem = z3.Concat(_al, z3.Star(_alnum))                       # interface / error / member element
_welem = z3.Concat(_al_h, z3.Star(_alnum_h))                  # well-known bus name element
_uelem = z3.Plus(_alnum_h)                                    # unique connection name element
_max255 = z3.Loop(S.CH, 0, 255)

INTERFACE0 = z3.Concat(_elem, z3.Plus(z3.Concat(_dot, _elem)))
MEMBER0 = _elem
BUS0 = z3.Union(z3.Concat(S.lit(':'), _uelem, z3.Plus(z3.Concat(_dot, _uelem))),
                z3.Concat(_welem, z3.Plus(z3.Concat(_dot, _welem))))
INTERFACE = z3.Intersect(INTERFACE0, _max255)
ERROR = INTERFACE
MEMBER = z3.Intersect(MEMBER0, _max255)
BUS = z3.Intersect(BUS0, _max255)


def in_grammar(t, base, bounded=True):
    """t in L(base) and (if bounded) at most 255 characters.  For a string VARIABLE in regular mode the
    length test is the shared opaque atom of pyvc.strings.len_le_atom (see there)."""
    if not bounded:
        return z3.InRe(t, base)
    if S.REGULAR_MODE and S.regular_var(t):
        return z3.And(z3.InRe(t, base), S.len_le_atom(t, 255))
    return z3.InRe(t, z3.Intersect(base, _max255))
OBJECT_PATH = z3.Union(S.lit('/'), z3.Plus(z3.Concat(S.lit('/'), z3.Plus(_alnum))))

PY = {
    'interface': re.compile(r'(?=.{0,255}\Z)[A-Za-z_][A-Za-z0-9_]*(\.[A-Za-z_][A-Za-z0-9_]*)+\Z', re.S),
    'member': re.compile(r'(?=.{0,255}\Z)[A-Za-z_][A-Za-z0-9_]*\Z', re.S),
    'bus': re.compile(r'(?=.{0,255}\Z)(:[A-Za-z0-9_-]+(\.[A-Za-z0-9_-]+)+|[A-Za-z_-][A-Za-z0-9_-]*(\.[A-Za-z_-][A-Za-z0-9_-]*)+)\Z', re.S),
    'path': re.compile(r'(/|(/[A-Za-z0-9_]+)+)\Z', re.S),
}
PY['error'] = PY['interface']


def py_ok(kind, s):
    return isinstance(s, str) and PY[kind].match(s) is not None
