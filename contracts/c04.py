"""C04 - message framing is independent of how the byte stream is split into reads.

Shape: representation invariant + per-call contract over ghost state (contracts/protocol_common.py).
  stream equation (post):  g_in(auth) . g_flat . _buffer  grows by exactly the bytes received
  framing (call-site pre): every delivered message m has len(m) >= 16 and len(m) == msglen(m)
  rest (post):             no complete message is left in the buffer
  boundary:                when a line completes the handshake, everything after that line's
                           delimiter - whatever its content - goes to the binary framer in order
msglen is written from the DBus specification.  Because a frame's length is a function of its first
16 bytes, the decomposition of a stream into frames is unique (lemma below), so any two splittings of
the same stream deliver the same message sequence: after every read the state (delivered, buffer) is
a function of the bytes received so far, not of how they were cut.
"""
import z3

from pyvc.values import *  # noqa
from pyvc.engine import World
from pyvc.runner import Spec
from .base import make_models
from . import protocol_common as PC


def replay(function, clause, model):
    return Fixtures().replay(function, clause, model)


class Fixtures:
    """Concrete side: frames built from the spec, a protocol object with a recording hook, a scripted
    authenticator; differential comparison of delivered messages under many splittings."""
    @staticmethod
    def frame(endian, harr_len, body):
        import struct
        e = '<' if endian == b'l' else '>'
        h = endian + b'\x04\x00\x01' + struct.pack(e + 'I', len(body)) + struct.pack(e + 'I', 1) + struct.pack(e + 'I', harr_len)
        h += b'\x07' * harr_len
        h += b'\0' * ((8 - len(h) % 8) % 8)
        return h + body

    def make(self, authenticated=True):
        from txdbus import protocol
        from twisted.test.proto_helpers import StringTransport
        from zope.interface import implementer

        @implementer(protocol.IDBusAuthenticator)
        class Auth:
            def __init__(self): self.ok = False; self.lines = []
            def beginAuthentication(self, p): pass
            def handleAuthMessage(self, line):
                self.lines.append(line)
                if line == b'BEGIN': self.ok = True
            def authenticationSucceeded(self): return self.ok
            def getGUID(self): return 'guid'

        class Rec(protocol.BasicDBusProtocol):
            authenticator = Auth
            def rawDBusMessageReceived(self, raw):
                self.delivered.append(raw)
        p = Rec()
        p.delivered = []
        p.makeConnection(StringTransport())
        if authenticated:
            p._authenticated = True
        return p

    def feed(self, p, stream, cuts):
        prev = 0
        for c in list(cuts) + [len(stream)]:
            if c > prev:
                p.dataReceived(stream[prev:c])
            prev = c

    def replay(self, function, clause, model):
        import random
        if 'stack' in clause or 'recursion' in clause:
            n = 3000
            msg = self.frame(b'l', 0, b'')
            p = self.make()
            try:
                p.dataReceived(msg * n)
            except RecursionError:
                return {'reproduced': True, 'input': {'messages_in_one_read': n},
                        'detail': '%d minimal messages in one read: RecursionError after %d deliveries' % (n, len(p.delivered))}
            return {'reproduced': len(p.delivered) != n, 'input': {'messages_in_one_read': n},
                    'detail': 'delivered %d of %d' % (len(p.delivered), n)}
        rnd = random.Random(1 + (model or {}).get('seed', 0) if isinstance(model, dict) else 1)
        for trial in range((model or {}).get('trials', 400) if isinstance(model, dict) else 400):
            msgs = [self.frame(rnd.choice([b'l', b'B']), rnd.randrange(0, 12),
                               bytes(rnd.choice([13, 10, 0, 108, 66, rnd.randrange(256)]) for _ in range(rnd.randrange(0, 9))))
                    for _ in range(rnd.randrange(1, 6))]
            handshake = trial % 2 == 1
            stream = (b'AUTH X\r\nBEGIN\r\n' if handshake else b'') + b''.join(msgs)
            cuts = sorted(rnd.sample(range(len(stream) + 1), min(len(stream), rnd.randrange(0, 5))))
            if handshake and trial % 4 == 1:
                cuts = [c for c in cuts if c > 15]          # handshake end and first messages in one read
            p = self.make(authenticated=not handshake)
            try:
                self.feed(p, stream, cuts)
            except Exception as e:
                return {'reproduced': True, 'input': {'stream': stream.hex(), 'cuts': cuts},
                        'detail': 'dataReceived raised %s: %s' % (type(e).__name__, e)}
            if p.delivered != msgs or p._buffer != b'':
                return {'reproduced': True, 'input': {'stream': stream.hex(), 'cuts': cuts},
                        'detail': 'delivered %d messages, expected %d (handshake in stream: %s)' % (len(p.delivered), len(msgs), handshake)}
        return {'reproduced': False, 'detail': 'no concrete framing failure in 400 random streams'}


def big_joined_read_case():
    """the read that ends the handshake may carry any amount of message data: the 16 KiB limit is for handshake LINES only"""
    F = Fixtures()
    msg = F.frame(b'l', 3, b'payload!')
    for n in (1, 40, 700):                       # 700 messages are about 25 KiB after the last CRLF of the read
        p = F.make(authenticated=False)
        try:
            p.dataReceived(b'AUTH X\r\nBEGIN\r\n' + msg * n)
        except Exception as e:
            return 'handshake end joined with %d messages raised %s: %s' % (n, type(e).__name__, e)
        if len(p.delivered) != n or p.transport.disconnecting:
            return 'handshake end joined with %d messages (%d bytes) in one read: %d delivered, connection %s' % (n, len(msg) * n, len(p.delivered), 'closed' if p.transport.disconnecting else 'open')
    # while a handshake LINE longer than the limit does close, however it is split
    for cut in (None, 100, 16390):
        p = F.make(authenticated=False)
        line = b'AUTH ' + b'x' * 17000 + b'\r\n'
        if cut is None:
            p.dataReceived(line)
        else:
            p.dataReceived(line[:cut]); p.dataReceived(line[cut:])
        if not p.transport.disconnecting:
            return 'a 17 KB handshake line (cut at %r) did not close the connection' % (cut,)
    return None


def decoded_stream_case(seed):
    """the messages DELIVERED (decoded) are the messages sent, whatever mix of byte orders the senders used and however the
    stream is cut: streams of reference-encoded calls / signals with numeric arrays, strings, structs in both byte orders"""
    import random
    from twisted.internet.testing import StringTransport
    from txdbus import protocol
    from .message_harness import ref_message
    rnd = random.Random(seed * 17 + 3)
    bodies = [('ai', [[1, -2, 70000]]), ('au', [[0, 2**32 - 1]]), ('aq', [[1, 65535, 258]]), ('an', [[-2, 513]]), ('ax', [[-1, 2**40]]), ('at', [[2**63]]),
              ('ad', [[1.5, -2.25]]), ('sas', ['x', ['a', 'bc']]), ('a(iq)y', [[[1, 2], [-3, 515]], 7]), ('a{su}', [{'k': 4660}]), ('v', [__import__('contracts.wire_ref', fromlist=['Variant']).Variant('ai', [258, 3])]),
              ('ab', [[True, False, True]]), ('ay', [[1, 2, 3]]), ('u', [305419896]),
              # EMPTY arrays of 8-aligned elements followed by further arguments (the padding after the length word is still there)
              ('susssasa{sv}i', ['app', 0, 'icon', 'summary', 'body', [], {}, -1]), ('sa{sv}as', ['org.e.I', {}, ['Name', 'Other']]), ('a(ii)s', [[], 'after']),
              ('yaxu', [7, [], 9]), ('adas', [[], ['x']]), ('ata{ss}q', [[], {}, 515])]

    class R(protocol.BasicDBusProtocol):
        def __init__(self): self.got = []
        def methodCallReceived(self, m): self.got.append(m)
        signalReceived = methodCallReceived
    from . import wire_ref as W
    for trial in range(12 + len(bodies)):
        sent, stream = [], b''
        for k in range(rnd.randrange(2, 6)):
            # (after the random trials: every body in turn, first in its stream)
            sig, vals = bodies[trial - 12] if (trial >= 12 and k == 0) else rnd.choice(bodies)
            le = rnd.random() < 0.5
            stream += ref_message(rnd.choice([1, 4]), 0, k + 1, [(1, '/o'), (2, 'org.e.I'), (3, 'M'), (8, sig)], sig, vals, le)
            sent.append((sig, [W.canon(ct, v) for ct, v in zip(W.split(sig), vals)], le))
        for cuts in ([], sorted(rnd.sample(range(1, len(stream)), 3)), list(range(1, len(stream)))):
            r = R()
            r.transport = StringTransport()
            r._receivedFDs = []
            r._authenticated = True
            prev = 0
            try:
                for c in cuts + [len(stream)]:
                    r.dataReceived(stream[prev:c])
                    prev = c
            except Exception as e:
                return 'a stream of %d reference-encoded messages (byte orders %r) cut at %s raised %s: %s' % (len(sent), [x[2] for x in sent], cuts if len(cuts) < 5 else 'every byte', type(e).__name__, e)
            got = [m.body for m in r.got]
            if len(got) != len(sent) or any(not W.same(g, w_[1]) for g, w_ in zip(got, sent)):
                return 'a stream of messages with the bodies %r (little-endian: %r) was delivered as %r' % ([x[1] for x in sent], [x[2] for x in sent], got)
    return None


def run_bounded(tier, seed):
    import random
    f = big_joined_read_case()
    n = 6
    if not f:
        n += 36
        f = decoded_stream_case(seed)
        if f:
            return {'tool': 'decoded streams in mixed byte orders', 'bound': '12 streams x 3 cuttings', 'evaluations': n,
                    'failures': [{'function': 'txdbus.protocol.BasicDBusProtocol.dataReceived', 'clause': 'split-independence', 'input': {'case': 'decoded stream'}, 'detail': f}]}
    if not f:
        r = Fixtures().replay('dataReceived', 'split-independence', {'seed': seed, 'trials': 20000 if tier == 'thorough' else 400})
        n += 20000 if tier == 'thorough' else 400
        f = r['detail'] if r['reproduced'] else None
        inp = r.get('input')
    else:
        inp = {'case': 'handshake end joined with binary data'}
    return {'tool': 'split-independence on the real protocol object: the same stream under random cuts delivers the same messages; joined handshake / large reads',
            'bound': '%d random streams of 1-5 frames (both byte orders, CR/LF bytes in bodies, with and without a handshake in front) under up to 4 random cuts; handshake end joined with 1 / 40 / 700 messages; 17 KB handshake lines; 12 streams of reference-encoded messages in mixed byte orders decoded under 3 cuttings' % (20000 if tier == 'thorough' else 400),
            'evaluations': n, 'failures': [] if not f else [{'function': 'txdbus.protocol.BasicDBusProtocol.dataReceived', 'clause': 'split-independence', 'input': inp, 'detail': f}]}


def build(tier='quick'):
    w = World()
    PC.add(w)
    return Spec('C04', w, make_models, ['txdbus.protocol.BasicDBusProtocol.dataReceived'], replay=replay,
                bounded=[{'name': 'split-independence', 'run': run_bounded}],
                trusted=['struct.unpack "<I"/">I" modelled as an uninterpreted function of (byte order, 4 bytes) with range [0, 2^32)',
                         'bytes.split / bytes.join facts of pyvc.models.SplitFacts',
                         'z3 sequence theory; python slices encoded as word equations'],
                assumed=['rawDBusMessageReceived / connectionAuthenticated (and overrides) and the authenticator leave the framing state (_buffer, _nextMsgLen, _endian, _authenticated) untouched and do not re-enter dataReceived',
                         'transport.loseConnection sets disconnecting'],
                explanation='binary-mode framing loop invariant (stream equation, header invariant, rest) + variant + stack-depth obligation, and the handshake/binary boundary through the split/join facts, on the real dataReceived',
                design_ref='DESIGN.md 4/C04')
