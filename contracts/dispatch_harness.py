"""Bounded harness for DBusObjectHandler.handleMethodCallMessage against a reference dispatcher (C10)."""
import random

from . import wire_ref as W

SIGS_IN = {'': [], 'i': [7], 's': ['txt'], 'ii': [1, 2], 'as': [['a', 'b']], '(is)': [[3, 'x']], 'a{sv}': [{}]}
SIGS_OUT = ['', 'i', 's', 'is', 'ai', '(ii)', 'as', '(s)', 'a(is)']       # the last three: ONE container-typed return value holding one element
OUT_VALUE = {'': None, 'i': 5, 's': 'res', 'is': (4, 'four'), 'ai': [1, 2, 3], '(ii)': (1, 2), 'as': ['only'], '(s)': ('one',), 'a(is)': [(1, 'x')]}
OUT_CANON = {'': None, 'i': [5], 's': ['res'], 'is': [4, 'four'], 'ai': [[1, 2, 3]], '(ii)': [[1, 2]], 'as': [['only']], '(s)': [['one']], 'a(is)': [[[1, 'x']]]}
OUTCOMES = ['value', 'deferred', 'deferred_fail', 'raise_named', 'raise_plain', 'raise_badname', 'raise_nul', 'raise_oddclass', 'unencodable',
            'raise_notimpl', 'raise_typeerror', 'deferred_fail_notimpl', 'raise_empty', 'raise_unnamed_base', 'deferred_fail_unnamed_base', 'raise_nulname', 'raise_surrogatename', 'raise_tuplename', 'raise_localclass']


class Conn:
    def __init__(self):
        self.sent = []

    def sendMessage(self, m):
        self.sent.append(m)


class NamedError(Exception):
    dbusErrorName = 'org.verif.Error.Named'


class BadNameError(Exception):
    dbusErrorName = 'not a valid name'


class NulNameError(Exception):
    dbusErrorName = 'bad\0name'


class SurrogateNameError(Exception):
    dbusErrorName = 'bad\ud800.name'


class TupleNameError(Exception):
    dbusErrorName = ('org.verif', 'Pair')            # not a string at all: not a valid DBus error name


class AppError(Exception):
    """base class of an application's exceptions: subclasses may give themselves a DBus name, this one has none"""
    dbusErrorName = None


# a Python class name that is not a valid DBus name element (identifiers may be non-ASCII)
OddClassError = type('Ошибка', (Exception,), {})


def build_scenario(rnd):
    """random interface declarations over a two-level class hierarchy; returns (handler, conn, obj, ref, log, pending)
    ref[(iface_name, member)] = (impl id, sigIn, sigOut, wants_caller, outcome); ref_order = interface names in lookup order"""
    from twisted.internet import defer
    from txdbus import objects, interface
    log, pending = [], []
    n_if = rnd.choice([1, 2, 3])
    members = ['Foo', 'Bar', 'Baz']
    decl = {}
    for k in range(n_if):
        name = 'org.verif.I%d' % k
        ms = {}
        for mname in rnd.sample(members, rnd.choice([1, 2, 3])):
            ms[mname] = (rnd.choice(list(SIGS_IN)), rnd.choice(SIGS_OUT))
        decl[name] = ms
    ifaces = {n: interface.DBusInterface(n, *[interface.Method(m, arguments=si, returns=so) for m, (si, so) in ms.items()], noRegister=True)
              for n, ms in decl.items()}
    names = list(decl)
    base_ifaces = names[:1]
    derived_ifaces = names[1:]
    ref = {}

    def make_impl(impl_id, sig_out, wants_caller, outcome):
        def body(args, caller):
            log.append((impl_id, list(args), caller))
            if outcome == 'value':
                return OUT_VALUE[sig_out]
            if outcome == 'deferred':
                d = defer.Deferred()
                pending.append((d, 'ok', OUT_VALUE[sig_out]))
                return d
            if outcome == 'deferred_fail':
                d = defer.Deferred()
                pending.append((d, 'fail', NamedError('later')))
                return d
            if outcome == 'raise_named':
                raise NamedError('boom')
            if outcome == 'raise_plain':
                raise KeyError('plain')
            if outcome == 'raise_badname':
                raise BadNameError('bad')
            if outcome == 'raise_nul':
                raise ValueError('text with a \0 byte')
            if outcome == 'raise_oddclass':
                raise OddClassError('odd')
            # exception classes the dispatcher itself uses for its own decisions: raised BY THE IMPLEMENTATION they are ordinary
            # failures of the call, named after their class, with their text
            if outcome == 'raise_notimpl':
                raise NotImplementedError('subclass hook of impl %d' % impl_id)
            if outcome == 'raise_nulname':
                raise NulNameError('the name has a NUL, impl %d' % impl_id)
            if outcome == 'raise_surrogatename':
                raise SurrogateNameError('the name has a lone surrogate, impl %d' % impl_id)
            if outcome == 'raise_localclass':
                class LocalError(Exception):          # defined inside a function: its name is still LocalError
                    pass
                raise LocalError('local class, impl %d' % impl_id)
            if outcome == 'raise_tuplename':
                raise TupleNameError('the name is a pair, impl %d' % impl_id)
            if outcome == 'raise_unnamed_base':
                raise AppError('no name of its own, impl %d' % impl_id)
            if outcome == 'deferred_fail_unnamed_base':
                d = defer.Deferred()
                pending.append((d, 'fail', AppError('later and unnamed, impl %d' % impl_id)))
                return d
            if outcome == 'raise_empty':
                raise RuntimeError()                       # an exception without text: the message is that (empty) text
            if outcome == 'raise_typeerror':
                raise TypeError('bad operand in impl %d' % impl_id)
            if outcome == 'deferred_fail_notimpl':
                d = defer.Deferred()
                pending.append((d, 'fail', NotImplementedError('later, impl %d' % impl_id)))
                return d
            if outcome == 'unencodable':
                return object()
        if wants_caller:
            def impl(self, *args, dbusCaller=None):
                return body(args, dbusCaller)
            # inspect.getfullargspec(...)[0][-1] must be 'dbusCaller': give it a positional form
            def impl2(self, *args, **kw):
                return body(args, kw.get('dbusCaller'))
            def impl3(self, a0=None, a1=None, dbusCaller=None):
                args = [a for a in (a0, a1) if a is not None]
                return body(args, dbusCaller)
            # the caller's name is asked for by the LAST POSITIONAL parameter being called dbusCaller - whatever follows it
            # (keyword-only parameters, **options) does not change that
            def impl4(self, a0=None, a1=None, dbusCaller=None, **options):
                args = [a for a in (a0, a1) if a is not None]
                return body(args, dbusCaller)
            def impl5(self, a0=None, a1=None, dbusCaller=None, *, sep='@'):
                args = [a for a in (a0, a1) if a is not None]
                return body(args, dbusCaller)
            return rnd.choice([impl3, impl3, impl4, impl5])
        def impl(self, *args):
            return body(args, None)
        return impl

    base_ns, derived_ns = {'dbusInterfaces': [ifaces[n] for n in base_ifaces]}, {'dbusInterfaces': [ifaces[n] for n in derived_ifaces]}
    used_dbus_names = set()
    counter = [0]
    for iname in names:
        for mname, (si, so) in decl[iname].items():
            nargs = len(W.split(si))
            wants_caller = nargs <= 2 and rnd.random() < 0.4
            outcome = rnd.choice(OUTCOMES)
            if outcome == 'unencodable' and so == '':
                outcome = 'value'
            counter[0] += 1
            impl_id = counter[0]
            where = base_ns if (iname in base_ifaces or rnd.random() < 0.3) else derived_ns
            same_member_elsewhere = sum(1 for n in names if mname in decl[n]) > 1
            if not same_member_elsewhere and mname not in used_dbus_names and rnd.random() < 0.4:
                where['dbus_' + mname] = make_impl(impl_id, so, wants_caller, outcome)      # bound by name
                used_dbus_names.add(mname)
            else:
                f = make_impl(impl_id, so, wants_caller, outcome)
                f.__name__ = 'impl_%d' % impl_id
                where[f.__name__] = objects.dbusMethod(iname, mname)(f)
            ref[(iname, mname)] = (impl_id, si, so, wants_caller, outcome)
    # the derived class re-binds one base-interface method, so the derived class's cache mentions that interface too
    b0 = base_ifaces[0]
    rebind = None
    if len(decl[b0]) >= 2 and rnd.random() < 0.7:
        cands = [m for m in decl[b0] if ('dbus_' + m) not in base_ns]
        if cands:
            mname = rnd.choice(cands)
            impl_id0, si, so, _, _ = ref[(b0, mname)]
            counter[0] += 1
            f = make_impl(counter[0], so, False, 'value')
            f.__name__ = 'impl_%d' % counter[0]
            derived_ns[f.__name__] = objects.dbusMethod(b0, mname)(f)
            ref[(b0, mname)] = (counter[0], si, so, False, 'value')
            rebind = mname
    Base = type('Base', (objects.DBusObject,), base_ns)
    Derived = type('Derived', (Base,), derived_ns)
    conn = Conn()
    handler = objects.DBusObjectHandler(conn)
    if rnd.random() < 0.5:
        # an object of the BASE class is exported and used first: the derived class still has its own interfaces afterwards
        early = Base('/org/verif/Early')
        handler.exportObject(early)
        early.getInterfaces()
        del conn.sent[:]
    obj = Derived('/org/verif/Obj')
    handler.exportObject(obj)
    order = derived_ifaces + base_ifaces          # getInterfaces(): MRO order
    return handler, conn, obj, decl, ref, order, log, pending


def expected(decl, ref, order, path, iface, member, sig, expect_reply):
    """('error', name) | ('run', key)"""
    if path != '/org/verif/Obj':
        return ('error', 'org.freedesktop.DBus.Error.UnknownObject')
    chosen = None
    for n in order:
        if iface:
            if n == iface:
                chosen = n
                break
        elif member in decl[n]:
            chosen = n
            break
    if chosen is None or member not in decl[chosen]:
        return ('error', 'org.freedesktop.DBus.Error.UnknownMethod')
    if decl[chosen][member][0] != (sig or ''):
        return ('error', 'org.freedesktop.DBus.Error.InvalidArgs')
    return ('run', (chosen, member))


def one_call(rnd, sc, serial):
    from txdbus import message
    handler, conn, obj, decl, ref, order, log, pending = sc
    names = list(decl)
    iface = rnd.choice(names + [None, None, 'org.verif.Nope'])
    pool = sorted({m for n in names for m in decl[n]}) + ['Missing']
    member = rnd.choice(pool)
    path = rnd.choice(['/org/verif/Obj'] * 5 + ['/org/verif/Other'])
    # signature: the right one for a matching declaration most of the time
    sig = rnd.choice(list(SIGS_IN))
    for n in ([iface] if iface in decl else order):
        if member in decl.get(n, {}):
            if rnd.random() < 0.8:
                sig = decl[n][member][0]
            break
    expect_reply = rnd.random() < 0.7
    body = SIGS_IN[sig]
    call = message.MethodCallMessage(path, member, interface=iface, signature=sig or None, body=list(body) if sig else None, expectReply=expect_reply,
                                     autoStart=rnd.random() < 0.6)
    raw = call.rawMessage
    if rnd.random() < 0.3:
        # a further flag a caller may legitimately set (ALLOW_INTERACTIVE_AUTHORIZATION, 0x4): the no-reply bit is still the no-reply bit
        raw = raw[:2] + bytes([raw[2] | 0x4]) + raw[3:]
    parsed = message.parseMessage(raw, [])
    parsed.sender = ':1.42'
    what = 'call path=%s interface=%s member=%s signature=%r expectReply=%s on declarations %r (lookup order %r)' % (path, iface, member, sig, expect_reply, decl, order)
    del log[:]
    del conn.sent[:]
    del pending[:]
    try:
        handler.handleMethodCallMessage(parsed)
    except Exception as e:
        return '%s: handleMethodCallMessage raised %s: %s' % (what, type(e).__name__, e)
    exp = expected(decl, ref, order, path, iface, member, sig, expect_reply)
    # let pending Deferreds fire later
    for d, how, val in list(pending):
        if conn.sent:
            return '%s: a reply was sent before the implementation\'s Deferred fired' % what
        if how == 'ok':
            d.callback(val)
        else:
            d.errback(val)
    replies = list(conn.sent)
    for r in replies:
        if getattr(r, 'reply_serial', None) != parsed.serial or r.destination != ':1.42':
            return '%s: reply addressed to %r with reply_serial %r (call serial %r from :1.42)' % (what, r.destination, getattr(r, 'reply_serial', None), parsed.serial)
    if exp[0] == 'error':
        if log:
            return '%s: user code ran (%r) although the call must be refused with %s' % (what, log, exp[1])
        if len(replies) != 1 or getattr(replies[0], 'error_name', None) != exp[1]:
            return '%s: expected one %s reply, got %r' % (what, exp[1], [(type(r).__name__, getattr(r, 'error_name', None)) for r in replies])
        return None
    impl_id, si, so, wants_caller, outcome = ref[exp[1]]
    want_args = [W.canon(ct, v) for ct, v in zip(W.split(si), SIGS_IN[si])] if si else []
    if len(log) != 1 or log[0][0] != impl_id:
        return '%s: expected implementation #%d of %r to run exactly once, ran %r' % (what, impl_id, exp[1], [l[0] for l in log])
    if not W.same(log[0][1], want_args):
        return '%s: implementation received %r, sent %r' % (what, log[0][1], want_args)
    if log[0][2] != (':1.42' if wants_caller else None):
        return '%s: dbusCaller = %r (implementation %s it)' % (what, log[0][2], 'asks for' if wants_caller else 'does not ask for')
    if not expect_reply:
        if replies:
            return '%s: %d replies to a call flagged as expecting none' % (what, len(replies))
        return None
    if len(replies) != 1:
        return '%s (outcome %s): %d replies, expected exactly one' % (what, outcome, len(replies))
    r = replies[0]
    if outcome in ('value', 'deferred'):
        if type(r).__name__ != 'MethodReturnMessage':
            return '%s (outcome %s): reply is %s %r' % (what, outcome, type(r).__name__, getattr(r, 'error_name', None))
        back = message.parseMessage(r.rawMessage, [])
        if (back.signature or '') != so or (so and not W.same(back.body, OUT_CANON[so])):
            return '%s (outcome %s): reply carries %r %r, the method returned %r under %r' % (what, outcome, back.signature, back.body, OUT_VALUE[so], so)
        return None
    want_err = {'deferred_fail': 'org.verif.Error.Named', 'raise_named': 'org.verif.Error.Named', 'raise_plain': 'org.txdbus.PythonException.KeyError',
                'raise_badname': 'org.txdbus.InvalidErrorName', 'raise_nul': 'org.txdbus.PythonException.ValueError',
                'raise_oddclass': 'org.txdbus.InvalidErrorName', 'raise_notimpl': 'org.txdbus.PythonException.NotImplementedError',
                'raise_typeerror': 'org.txdbus.PythonException.TypeError', 'deferred_fail_notimpl': 'org.txdbus.PythonException.NotImplementedError',
                'raise_empty': 'org.txdbus.PythonException.RuntimeError', 'raise_unnamed_base': 'org.txdbus.PythonException.AppError',
                'deferred_fail_unnamed_base': 'org.txdbus.PythonException.AppError', 'raise_nulname': 'org.txdbus.InvalidErrorName',
                'raise_surrogatename': 'org.txdbus.InvalidErrorName', 'raise_tuplename': 'org.txdbus.InvalidErrorName', 'raise_localclass': 'org.txdbus.PythonException.LocalError'}.get(outcome)
    if type(r).__name__ != 'ErrorMessage':
        return '%s (outcome %s): reply is %s, expected an error' % (what, outcome, type(r).__name__)
    if want_err and r.error_name != want_err:
        return '%s (outcome %s): error reply named %r, expected %r' % (what, outcome, r.error_name, want_err)
    if outcome == 'raise_empty' and r.body and r.body[0] != '':
        return '%s (outcome %s): the exception has no text, the error reply carries the message %r' % (what, outcome, r.body[0])
    if outcome in ('raise_notimpl', 'raise_typeerror', 'deferred_fail_notimpl', 'raise_unnamed_base', 'deferred_fail_unnamed_base', 'raise_nulname', 'raise_surrogatename', 'raise_tuplename', 'raise_localclass') and not (r.body and 'impl' in str(r.body[0])):
        return '%s (outcome %s): the error reply carries %r, not the text of the exception' % (what, outcome, r.body)
    return None


def builtin_cases():
    """Ping / Introspect answered by the handler itself; exactly one addressed reply"""
    from txdbus import message
    import random as _r
    sc = build_scenario(_r.Random(5))
    handler, conn = sc[0], sc[1]
    for path, iface, member in (('/org/verif/Obj', 'org.freedesktop.DBus.Peer', 'Ping'), ('/nowhere', 'org.freedesktop.DBus.Peer', 'Ping'),
                                ('/org/verif/Obj', 'org.freedesktop.DBus.Introspectable', 'Introspect'), ('/org/verif', 'org.freedesktop.DBus.Introspectable', 'Introspect')):
        call = message.MethodCallMessage(path, member, interface=iface)
        p = message.parseMessage(call.rawMessage, [])
        p.sender = ':1.9'
        del conn.sent[:]
        handler.handleMethodCallMessage(p)
        if len(conn.sent) != 1 or conn.sent[0].reply_serial != p.serial or conn.sent[0].destination != ':1.9' or type(conn.sent[0]).__name__ != 'MethodReturnMessage':
            return '%s.%s on %s: replies %r' % (iface, member, path, [(type(r).__name__, getattr(r, 'error_name', None), r.destination) for r in conn.sent])
    # Introspect where there is nothing - no object, nothing beneath: exactly one reply, UnknownObject
    for path in ('/nowhere', '/org/verif/Ob', '/org/verif/Obj/below', '/org/verif/Objx'):
        call = message.MethodCallMessage(path, 'Introspect', interface='org.freedesktop.DBus.Introspectable')
        p = message.parseMessage(call.rawMessage, [])
        p.sender = ':1.9'
        del conn.sent[:]
        handler.handleMethodCallMessage(p)
        if len(conn.sent) != 1 or getattr(conn.sent[0], 'error_name', None) != 'org.freedesktop.DBus.Error.UnknownObject' or conn.sent[0].reply_serial != p.serial:
            return 'Introspect on %s (nothing exported at or beneath it): replies %r, expected one UnknownObject error' % (path, [(type(r).__name__, getattr(r, 'error_name', None)) for r in conn.sent])
    return None


def mixin_binding_case():
    """decorator bindings declared on a plain mix-in class (not a DBusObject itself), combined with DBusObject in either base order and
    at a second level of inheritance: correctly addressed calls - with and without naming the interface - run the implementation once"""
    from txdbus import interface, message, objects
    iface = interface.DBusInterface('org.verif.Mix', interface.Method('Mixed', arguments='s', returns='s'), interface.Method('Own', returns='i'), noRegister=True)
    log = []

    class Mixin:
        @objects.dbusMethod('org.verif.Mix', 'Mixed')
        def _impl_mixed(self, arg):
            log.append(('Mixed', arg))
            return 'mixed:' + arg

    class A(objects.DBusObject, Mixin):
        dbusInterfaces = [iface]

        def dbus_Own(self):
            log.append(('Own',))
            return 3

    class B(Mixin, objects.DBusObject):
        dbusInterfaces = [iface]

        def dbus_Own(self):
            log.append(('Own',))
            return 3

    class C(A):
        pass

    class Falsy(A):
        # an exported object may be a container that is currently empty: it is exported all the same
        def __len__(self):
            return 0
    # the same member on two interfaces, one implementation per interface, the first of them under the conventional dbus_ name
    ifa = interface.DBusInterface('org.verif.SameA', interface.Method('Same', returns='s'), noRegister=True)
    ifb = interface.DBusInterface('org.verif.SameB', interface.Method('Same', returns='s'), noRegister=True)

    class Two(objects.DBusObject):
        dbusInterfaces = [ifa, ifb]

        @objects.dbusMethod('org.verif.SameA', 'Same')
        def dbus_Same(self):
            return 'A'

        @objects.dbusMethod('org.verif.SameB', 'Same')
        def _same_b(self):
            return 'B'
    conn = Conn()
    handler = objects.DBusObjectHandler(conn)
    handler.exportObject(Two('/org/verif/Two'))
    for iname, want in (('org.verif.SameA', 'A'), ('org.verif.SameB', 'B'), ('org.verif.SameA', 'A')):
        del conn.sent[:]
        p = message.parseMessage(message.MethodCallMessage('/org/verif/Two', 'Same', interface=iname).rawMessage, [])
        p.sender = ':1.5'
        handler.handleMethodCallMessage(p)
        if len(conn.sent) != 1 or getattr(conn.sent[0], 'body', None) != [want]:
            return 'a member declared on two interfaces with one implementation each (the first named dbus_Same and decorated for its interface): the call to %s.Same was answered %r, expected [%r]' % (
                iname, [(type(r).__name__, getattr(r, 'error_name', None), r.body) for r in conn.sent], want)
    # a call as another implementation writes it: a header field of an unknown code BEFORE the fields that address the call
    from . import message_harness as MH
    conn = Conn()
    handler = objects.DBusObjectHandler(conn)
    handler.exportObject(A('/org/verif/M'))
    for le in (True, False):
        del log[:]
        del conn.sent[:]
        raw = MH.ref_message(1, 0, 31, [(1, '/org/verif/M'), (2, 'org.verif.Mix'), (3, 'Mixed'), (6, 'org.verif.Dest'), (7, ':1.5'), (8, 's')], 's', ['y'], le,
                             extra_fields=[(77, 's', 'ignore me')], extras_first=True)
        try:
            handler.handleMethodCallMessage(message.parseMessage(raw, []))
        except Exception as e:
            return 'a %s-endian call with an unknown header field before the known ones raised %s: %s' % ('little' if le else 'big', type(e).__name__, e)
        if log != [('Mixed', 'y')] or len(conn.sent) != 1 or conn.sent[0].body != ['mixed:y'] or conn.sent[0].destination != ':1.5':
            return 'a %s-endian call with an unknown header field before the known ones: implementation runs %r, replies %r' % (
                'little' if le else 'big', log, [(type(r).__name__, getattr(r, 'error_name', None), r.destination, r.body) for r in conn.sent])
    for cls in (A, B, C, Falsy):
        conn = Conn()
        handler = objects.DBusObjectHandler(conn)
        handler.exportObject(cls('/org/verif/M'))
        for named in (True, False):
            del log[:]
            del conn.sent[:]
            call = message.MethodCallMessage('/org/verif/M', 'Mixed', interface='org.verif.Mix' if named else None, signature='s', body=['x'])
            p = message.parseMessage(call.rawMessage, [])
            p.sender = ':1.5'
            try:
                handler.handleMethodCallMessage(p)
            except Exception as e:
                return 'a call to a member bound by a decorator on a mix-in class (%s, interface %s) raised %s: %s' % (cls.__name__, 'named' if named else 'not named', type(e).__name__, e)
            if log != [('Mixed', 'x')] or len(conn.sent) != 1 or type(conn.sent[0]).__name__ != 'MethodReturnMessage' or conn.sent[0].body != ['mixed:x']:
                return ('a call to a member bound by a decorator on a mix-in class (bases of %s: %s; interface %s): implementation runs %r, replies %r'
                        % (cls.__name__, ', '.join(b.__name__ for b in cls.__mro__[1:-1]), 'named' if named else 'not named', log,
                           [(type(r).__name__, getattr(r, 'error_name', None), r.body) for r in conn.sent]))
    return None


def bounded(tier, seed):
    # failing implementations of calls that expect no reply leave unhandled Deferred failures behind, which Twisted reports
    # when they are collected (even at interpreter exit): silence that report in this harness process
    from twisted.internet import defer
    defer.DebugInfo.__del__ = lambda self: None
    rnd = random.Random(seed * 977 + 11)
    n = 1
    f = builtin_cases()
    if f:
        return n, f, {'case': 'builtin'}
    n += 1
    f = history_cases()
    if f:
        return n, f, {'case': 'history'}
    n += 1
    f = mixin_binding_case()
    if f:
        return n, f, {'case': 'mix-in bindings'}
    for s in range(6000 if tier == 'thorough' else 40):
        sc = build_scenario(rnd)
        for k in range(25):
            n += 1
            f = one_call(rnd, sc, k + 1)
            if f:
                return n, f, {'scenario': s, 'call': k}
    return n, None, None


def history_cases():
    """the decision is taken from the exports and the interface declarations AS THEY ARE when the call arrives: members removed
    from or re-declared on a live interface, an object replaced at its path, unexport followed by export"""
    from txdbus import interface, message, objects

    def mk(iface, tag, log):
        class O(objects.DBusObject):
            dbusInterfaces = [iface]

            def dbus_M(self, arg):
                log.append((tag, 'M', arg))
                return arg

            def dbus_N(self, arg):
                log.append((tag, 'N', arg))
                return arg
        return O('/org/verif/H')

    def call(handler, conn, member, sig, body, iface_name='org.verif.H', path='/org/verif/H', serial=[100]):
        serial[0] += 1
        m = message.MethodCallMessage(path, member, interface=iface_name, signature=sig, body=body)
        p = message.parseMessage(m.rawMessage, [])
        p.sender = ':1.5'
        del conn.sent[:]
        handler.handleMethodCallMessage(p)
        replies = [r for r in conn.sent if getattr(r, 'reply_serial', None) is not None]      # (signals announcing exports are not replies)
        if len(replies) != 1 or replies[0].reply_serial != p.serial or replies[0].destination != ':1.5':
            return 'replies %r' % [(type(r).__name__, getattr(r, 'reply_serial', None), r.destination) for r in conn.sent]
        r = replies[0]
        return (type(r).__name__, getattr(r, 'error_name', None), r.body)

    for with_iface in (True, False):
        name = 'org.verif.H' if with_iface else None
        log = []
        conn = Conn()
        handler = objects.DBusObjectHandler(conn)
        ifA = interface.DBusInterface('org.verif.H', interface.Method('M', arguments='s', returns='s'), interface.Method('N', arguments='i', returns='i'), noRegister=True)
        a = mk(ifA, 'A', log)
        handler.exportObject(a)
        steps = []

        def expect(what, got, want_kind, want_err=None, want_body=None, ran=None):
            if not isinstance(got, tuple):
                return '%s: %s' % (what, got)
            kind, err, body = got
            if kind != want_kind or (want_err and err != want_err) or (want_body is not None and body != want_body):
                return '%s: answered %r, expected %r' % (what, got, (want_kind, want_err, want_body))
            if log != ([ran] if ran else []):
                return '%s: user code that ran: %r, expected %r' % (what, log, [ran] if ran else [])
            del log[:]
            return None
        seq = [
            ('first call M(s)', lambda: call(handler, conn, 'M', 's', ['x'], name), 'MethodReturnMessage', None, ['x'], ('A', 'M', 'x')),
            ('second call M(s)', lambda: call(handler, conn, 'M', 's', ['y'], name), 'MethodReturnMessage', None, ['y'], ('A', 'M', 'y')),
        ]
        for what, fn, k, e, b, ran in seq:
            f = expect(what, fn(), k, e, b, ran)
            if f:
                return '[interface %s] %s' % ('named' if with_iface else 'omitted', f)
        # the member is removed from the live interface
        ifA.delMethod('M')
        f = expect('M after delMethod', call(handler, conn, 'M', 's', ['x'], name), 'ErrorMessage', 'org.freedesktop.DBus.Error.UnknownMethod')
        if f:
            return '[interface %s] %s' % ('named' if with_iface else 'omitted', f)
        # ... and declared again with another argument signature
        ifA.addMethod(interface.Method('M', arguments='i', returns='i'))
        f = expect('re-declared M called with the old signature', call(handler, conn, 'M', 's', ['x'], name), 'ErrorMessage', 'org.freedesktop.DBus.Error.InvalidArgs') or \
            expect('re-declared M called with the new signature', call(handler, conn, 'M', 'i', [4], name), 'MethodReturnMessage', None, [4], ('A', 'M', 4))
        if f:
            return '[interface %s] %s' % ('named' if with_iface else 'omitted', f)
        # another object takes the path (export over an exported path): its declarations and its implementations count
        ifB = interface.DBusInterface('org.verif.H', interface.Method('M', arguments='s', returns='s'), noRegister=True)
        b = mk(ifB, 'B', log)
        handler.exportObject(b)
        f = expect('N after the object was replaced by one without N', call(handler, conn, 'N', 'i', [1], name), 'ErrorMessage', 'org.freedesktop.DBus.Error.UnknownMethod') or \
            expect('M(s) after the object was replaced', call(handler, conn, 'M', 's', ['z'], name), 'MethodReturnMessage', None, ['z'], ('B', 'M', 'z')) or \
            expect('M(i) after the object was replaced', call(handler, conn, 'M', 'i', [4], name), 'ErrorMessage', 'org.freedesktop.DBus.Error.InvalidArgs')
        if f:
            return '[interface %s] %s' % ('named' if with_iface else 'omitted', f)
        handler.unexportObject('/org/verif/H')
        f = expect('M after unexport', call(handler, conn, 'M', 's', ['z'], name), 'ErrorMessage', 'org.freedesktop.DBus.Error.UnknownObject')
        if f:
            return '[interface %s] %s' % ('named' if with_iface else 'omitted', f)
        handler.exportObject(a)
        f = expect('M(i) after the first object was exported again', call(handler, conn, 'M', 'i', [9], name), 'MethodReturnMessage', None, [9], ('A', 'M', 9)) or \
            expect('N(i) after the first object was exported again', call(handler, conn, 'N', 'i', [2], name), 'MethodReturnMessage', None, [2], ('A', 'N', 2))
        if f:
            return '[interface %s] %s' % ('named' if with_iface else 'omitted', f)
    # the reply to a call is owed to the caller whatever becomes of the object meanwhile: an implementation that unexports its own
    # object before returning / raising, a Deferred that fires after the object was unexported or replaced
    from twisted.internet import defer as _defer
    for mode in ('return', 'raise', 'deferred', 'deferred_replaced'):
        log = []
        conn = Conn()
        handler = objects.DBusObjectHandler(conn)
        ifc = interface.DBusInterface('org.verif.C', interface.Method('Close', arguments='', returns='s'), noRegister=True)
        pend = []

        class Cl(objects.DBusObject):
            dbusInterfaces = [ifc]

            def dbus_Close(self, _mode=mode):
                if _mode in ('return', 'raise'):
                    handler.unexportObject('/org/verif/H')
                    if _mode == 'raise':
                        raise NamedError('closing failed')
                    return 'bye'
                d = _defer.Deferred()
                pend.append(d)
                return d
        handler.exportObject(Cl('/org/verif/H'))
        got = call(handler, conn, 'Close', None, None, 'org.verif.C')
        if mode.startswith('deferred'):
            if conn.sent:
                return 'a reply was sent before the Deferred of the implementation fired'
            handler.unexportObject('/org/verif/H')
            if mode == 'deferred_replaced':
                handler.exportObject(Cl('/org/verif/H'))
            del conn.sent[:]
            pend[0].callback('bye')
            replies = [r for r in conn.sent if getattr(r, 'reply_serial', None) is not None]
            got = (type(replies[0]).__name__, getattr(replies[0], 'error_name', None), replies[0].body) if len(replies) == 1 else 'replies %r' % (replies,)
        want = ('ErrorMessage', 'org.verif.Error.Named') if mode == 'raise' else ('MethodReturnMessage', None)
        if not isinstance(got, tuple) or got[:2] != want or (mode != 'raise' and got[2] != ['bye']):
            return 'implementation that %s: the caller got %r, expected %r' % (
                {'return': 'unexports its object and returns', 'raise': 'unexports its object and raises', 'deferred': 'answers later, its object unexported meanwhile',
                 'deferred_replaced': 'answers later, its object replaced at the path meanwhile'}[mode], got, want)
    # a derived class re-declares an interface of its base class under the same name, extended: the derived declaration counts
    log = []
    conn = Conn()
    handler = objects.DBusObjectHandler(conn)
    v1 = interface.DBusInterface('org.verif.V', interface.Method('M', arguments='s', returns='s'), noRegister=True)
    v2 = interface.DBusInterface('org.verif.V', interface.Method('M', arguments='i', returns='i'), interface.Method('Extra', arguments='s', returns='s'), noRegister=True)

    class VB(objects.DBusObject):
        dbusInterfaces = [v1]

        def dbus_M(self, a):
            log.append(('M', a))
            return a

    class VD(VB):
        dbusInterfaces = [v2]

        def dbus_Extra(self, a):
            log.append(('Extra', a))
            return a
    VB('/org/verif/Base')                      # the base class was used first
    handler.exportObject(VD('/org/verif/H'))
    for name in ('org.verif.V', None):
        del log[:]
        got = call(handler, conn, 'Extra', 's', ['x'], name)
        if got != ('MethodReturnMessage', None, ['x']) or log != [('Extra', 'x')]:
            return 'a member added by the derived class\' re-declaration of an inherited interface (interface %s): answered %r, ran %r' % ('named' if name else 'omitted', got, log)
        del log[:]
        got = call(handler, conn, 'M', 'i', [5], name)
        if got != ('MethodReturnMessage', None, [5]) or log != [('M', 5)]:
            return 'a member re-declared by the derived class with another signature (interface %s): answered %r, ran %r' % ('named' if name else 'omitted', got, log)
    # an exported object's own member called Ping / Introspect, called without naming an interface, is the object's
    for member in ('Ping', 'Introspect'):
        log = []
        conn = Conn()
        handler = objects.DBusObjectHandler(conn)
        ifc = interface.DBusInterface('org.verif.Own', interface.Method(member, arguments='s', returns='s'), noRegister=True)

        class P(objects.DBusObject):
            dbusInterfaces = [ifc]
        setattr(P, 'dbus_' + member, lambda self, arg, _m=member: (log.append(('P', _m, arg)), 'own:' + arg)[1])
        handler.exportObject(P('/org/verif/H'))
        got = call(handler, conn, member, 's', ['q'], None)
        if got != ('MethodReturnMessage', None, ['own:q']) or log != [('P', member, 'q')]:
            return 'interface-less call of the object\'s own member %s: answered %r, user code %r' % (member, got, log)
    return None
