"""C17 - remote property access honours declared type and access mode.

Deductive part (every declaration, value and table state):
  * DBusProperty.__set__ : the value is stored under the property's key (the pair interface, name) and nothing else in the store
    changes; exactly one PropertiesChanged(interface, {name: value typed by the declared signature}, []) is emitted when the
    declaration says emits == 'true', none otherwise
  * DBusProperty.__get__ : the value stored under the key (None when never assigned)
  * DBusObject._dbus_PropertyGet : raises for an unknown property or one whose access is 'write'; otherwise returns the
    stored value, wrapped in the class of the declared signature when that is a basic type
  * getAllProperties' inner function addp : a readable property is listed under its name with its current value (typed by
    the declaration when basic), a write-only one is not, nothing else in the result changes
  * DBusObject._dbus_PropertySet : raises for an unknown property or one that is not 'write' / 'readwrite' (and then
    changes nothing); otherwise the value is stored through the descriptor (with its emission rule)
The attribute access getattr(self, p.attr_name) / setattr(self, p.attr_name, v) is the descriptor protocol: modelled as the
call of p.__get__ / p.__set__ by contract (the class attribute named p.attr_name IS p: registry invariant of
_cacheInterfaces, assumed).  The lookup _getProperty (MRO cache reflection) is an interface stub.
Bounded part (labelled): histories of local assignment and remote Get / Set / GetAll with right and wrong names on generated
declarations (same name on several interfaces, inherited classes) through the real dispatcher against a reference store;
this also decides GetAll and the reflection.
"""
import z3

from pyvc.values import *  # noqa
from pyvc.engine import World, ClassSpec, select_store
from pyvc.runner import Spec
from pyvc.models import ufun
from pyvc import strings as S
from .base import contract, TxModels
from . import property_harness as PH

sv = z3.StringVal
O, DP, IP = 'DBusObject', 'DBusProperty', 'IProperty'
CODES = 'ybnqiuxtdsgo'          # every basic type of the DBus grammar that a variant can carry by value (the statement's 'basic'; 'h' travels out of band)


def _getProperty(self, interfaceName, propertyName): pass
def _iterIFaceCaches(self): pass
def emitSignal(self, signalName, *args, interface=''): pass


def typed(sig, v):
    """the value as an instance of the wrapper class of a basic type code"""
    return ufun('typed_as', StringSort, IntSort, IntSort)(sig, v)


class Models17(TxModels):
    """wrapper classes applied to an opaque value: the value tagged with the class's type code;
    getattr / setattr with the attribute name of a descriptor: the descriptor protocol, by the descriptor's contracts"""
    def __init__(self, world):
        super().__init__(world)
        from txdbus import marshal
        for code, cls in marshal.variantClassMap.items():
            self.instantiators[cls] = (lambda I, a, k, code=code: VOpaque('typed', typed(sv(code), I.ctx.store_terms(a[0], OPAQUE)[0])))

    def descriptor_of(self, I, obj, name):
        return VRef(ufun('descriptor_of', IntSort, StringSort, IntSort)(obj.term, name.term), DP)

    def getattr_symbolic(self, I, obj, name, default):
        if isinstance(obj, VRef) and obj.cls == O:
            c = I.world.by_name['txdbus.objects.DBusProperty.__get__']
            return I.call_by_contract(c, [self.descriptor_of(I, obj, name), obj, VNone()], {})
        return super().getattr_symbolic(I, obj, name, default)

    def m_setattr(self, I, a, k):
        obj, name, v = a
        if isinstance(obj, VRef) and obj.cls == O and isinstance(name, VStr) and not S.is_const(name.term):
            c = I.world.by_name['txdbus.objects.DBusProperty.__set__']
            I.call_by_contract(c, [self.descriptor_of(I, obj, name), obj, v], {})
            return VNone()
        return super().m_setattr(I, a, k)

    def dict_display(self, I, pairs):
        if len(pairs) == 1:
            k, v = pairs[0]
            d = I.ctx.empty_dict(DictT(STR, OPAQUE))
            I.ctx.dict_store(d, k, v)
            return d
        return super().dict_display(I, pairs)


def replay(function, clause, model):
    n, f, inp = PH.bounded('quick', 1)
    return {'reproduced': bool(f), 'input': inp, 'detail': f or 'the reference property store agreed on all %d steps' % n}


def run_bounded(tier, seed):
    n, f, inp = PH.bounded(tier, seed)
    return {'tool': 'reference property store vs the real objects through handleMethodCallMessage (Get / Set / GetAll) and local assignment',
            'bound': '%d generated declaration sets (1-3 interfaces over a two-level class hierarchy, the same property name on several interfaces, 11 signatures x 3 access modes x 3 notification modes) x 30 steps of assignment / Get / Set / GetAll with right and wrong names' % (12000 if tier == 'thorough' else 50),
            'evaluations': n, 'failures': [] if not f else [{'function': 'txdbus.objects (properties)', 'clause': 'property-history', 'input': inp, 'detail': f}]}


def build_world():
    from txdbus import objects
    w = World()
    w.add_class(ClassSpec(IP, None, {'access': STR, 'sig': STR, 'emits': STR, 'name': STR}))
    w.add_class(ClassSpec(DP, objects.DBusProperty, {'pname': STR, 'interface': Opt(STR), 'key': Opt(KEY2), 'attr_name': Opt(STR), 'iprop': Opt(Ref(IP))}))
    w.add_class(ClassSpec(O, objects.DBusObject, {'_dbusProperties': DictT(STR, OPAQUE), '_dbusProperties?set': BOOL,
                                                  'g_emitted': INT, 'g_sig_name': STR, 'g_sig_iface': STR, 'g_sig_key': STR, 'g_sig_val': OPAQUE, 'g_sig_inval': INT, 'g_sig_on': STR},
                          methods={'_getProperty': _getProperty, '_iterIFaceCaches': _iterIFaceCaches, 'emitSignal': emitSignal}))

    def resolved(pv):
        # a descriptor whose interface binding is known (after the caches were built): interface, declaration, consistent key
        return z3.And(z3.Not(pv.interface.none), z3.Not(pv.iprop.none),
                      z3.Or(pv.key.none, pv.key.val.term == key_of(pv)))

    def gp_post(cx):
        r = cx.result
        if isinstance(r, VNone):
            return []
        pv = cx.new(r)
        me = cx.args['self']
        desc = ufun('descriptor_of', IntSort, StringSort, IntSort)
        return [('a found descriptor is bound: it is the class attribute named by its attr_name, with its declaration',
                 z3.And(resolved(pv), z3.Not(pv.attr_name.none), desc(me.term, pv.attr_name.val.term) == r.term, r.term >= 0))]

    contract(w, 'iface.DBusObject._getProperty', {'self': Ref(O), 'interfaceName': STR, 'propertyName': STR}, fn=_getProperty,
             result=Opt(Ref(DP)), ensures=gp_post, assumed=True)
    contract(w, 'iface.DBusObject._iterIFaceCaches', {'self': Ref(O)}, fn=_iterIFaceCaches, result=ListT(OPAQUE), assumed=True)
    contract(w, 'iface.DBusObject.emitSignal', {'self': Ref(O), 'signalName': STR, 'args': TupleT(STR, DictT(STR, OPAQUE), ListT(OPAQUE)), 'interface': STR}, fn=emitSignal,
             modifies=lambda cx: [(cx.args['self'], O + '.' + f) for f in ('g_emitted', 'g_sig_name', 'g_sig_iface', 'g_sig_key', 'g_sig_val', 'g_sig_inval', 'g_sig_on')],
             ensures=lambda cx: [('emitted', z3.And(cx.new(cx.args['self']).g_emitted == cx.old(cx.args['self']).g_emitted + 1,
                                                   cx.new(cx.args['self']).g_sig_name == cx.a('signalName'),
                                                   # the interface the signal goes out on: the one named by the keyword ('' = the first that declares such a signal)
                                                   cx.new(cx.args['self']).g_sig_on == cx.a('interface'),
                                                   cx.new(cx.args['self']).g_sig_iface == cx.args['args'].items[0].term,
                                                   cx.new(cx.args['self']).g_sig_inval == z3.Length(cx.args['args'].items[2].seqs[0]),
                                                   z3.Select(cx.args['args'].items[1].dom, cx.new(cx.args['self']).g_sig_key),
                                                   cx.new(cx.args['self']).g_sig_val == z3.Select(cx.args['args'].items[1].vals[0], cx.new(cx.args['self']).g_sig_key)))],
             assumed=True)

    def key_of(pv):
        # the slot of a property: the PAIR (interface name, property name) - two properties share a slot only if both agree
        from pyvc.values import key2
        return key2(pv.interface.val.term, pv.pname)

    def other_slot(cx, pv):
        """the slot of an arbitrary OTHER property (skolem interface / name, differing in at least one of the two)"""
        from pyvc.values import key2, key2_inverse_facts
        i2, n2 = cx.ctx.skolem('other_iface', StringSort), cx.ctx.skolem('other_pname', StringSort)
        k2 = key2(i2, n2)
        k = key_of(pv)
        cx.ctx.assume(key2_inverse_facts(k2, i2, n2))          # Python tuple equality: (a, b) == (c, d) iff a == c and b == d
        cx.ctx.assume(key2_inverse_facts(k, pv.interface.val.term, pv.pname))
        return z3.Or(i2 != pv.interface.val.term, n2 != pv.pname), k2

    def desc_pre(cx):
        pv = cx.old(cx.args['self'])
        return [('the descriptor is bound to its interface and declaration (the caches were built)', resolved(pv))]

    def set_post(cx):
        p, inst = cx.args['self'], cx.args['instance']
        pv, ipv = cx.old(p), cx.old(VRef(cx.old(p).iprop.val.term, IP))
        o, n = cx.old(inst), cx.new(inst)
        k = key_of(pv)
        val = cx.args['value'].term
        had = o.__getattr__('_dbusProperties?set')
        base_dom = z3.If(had, o._dbusProperties.dom, z3.K(StringSort, False))
        emits = ipv.emits == sv('true')
        basic = z3.Or([ipv.sig == sv(c) for c in CODES])
        return [('stored under the pair (interface, name)', z3.And(z3.Select(n._dbusProperties.dom, k), z3.Select(n._dbusProperties.vals[0], k) == val,
                                                         n.__getattr__('_dbusProperties?set'))),
                ('no other property changes', z3.And(n._dbusProperties.dom == z3.Store(base_dom, k, True),
                                                     z3.Implies(had, n._dbusProperties.vals[0] == z3.Store(o._dbusProperties.vals[0], k, val)))),
                ('a property of another interface or of another name keeps its value',
                 (lambda differs, k2: z3.Implies(differs, z3.And(z3.Select(n._dbusProperties.dom, k2) == z3.Select(base_dom, k2),
                                                                 z3.Implies(z3.And(had, z3.Select(o._dbusProperties.dom, k2)),
                                                                            z3.Select(n._dbusProperties.vals[0], k2) == z3.Select(o._dbusProperties.vals[0], k2)))))(*other_slot(cx, pv))),
                ('exactly one PropertiesChanged naming interface, property and the value typed by the declaration - iff the declaration emits changes',
                 z3.If(emits, z3.And(n.g_emitted == o.g_emitted + 1, n.g_sig_name == sv('PropertiesChanged'), n.g_sig_on == sv('org.freedesktop.DBus.Properties'), n.g_sig_key == pv.pname, n.g_sig_inval == 0, n.g_sig_iface == pv.interface.val.term,
                                     n.g_sig_val == z3.If(basic, typed(ipv.sig, val), val)),
                       n.g_emitted == o.g_emitted))]

    contract(w, 'txdbus.objects.DBusProperty.__set__', {'self': Ref(DP), 'instance': Ref(O), 'value': OPAQUE},
             requires=desc_pre, ensures=set_post,
             modifies=lambda cx: [(cx.args['instance'], O + '.' + f) for f in ('_dbusProperties', '_dbusProperties?set', 'g_emitted', 'g_sig_name', 'g_sig_iface', 'g_sig_key', 'g_sig_val', 'g_sig_inval', 'g_sig_on')]
             + [(cx.args['self'], DP + '.key')],
             locals_types={})

    def get_post(cx):
        p, inst = cx.args['self'], cx.args['instance']
        pv = cx.old(p)
        o = cx.old(inst)
        k = key_of(pv)
        r = cx.result
        stored = z3.And(o.__getattr__('_dbusProperties?set'), z3.Select(o._dbusProperties.dom, k))
        if isinstance(r, VNone):
            return [('never assigned', z3.Not(stored))]
        return [('the stored value', z3.And(stored, r.term == z3.Select(o._dbusProperties.vals[0], k)))]

    contract(w, 'txdbus.objects.DBusProperty.__get__', {'self': Ref(DP), 'instance': Ref(O), 'owner': OPAQUE},
             requires=desc_pre, ensures=get_post, result=Opt(OPAQUE),
             modifies=lambda cx: [(cx.args['instance'], O + '._dbusProperties'), (cx.args['instance'], O + '._dbusProperties?set'), (cx.args['self'], DP + '.key')])

    # ---- remote accessors
    def found(cx):
        r = cx.ctx.call_results.get('iface.DBusObject._getProperty')
        return r[-1] if isinstance(r, list) and r else r

    def pget_post(cx):
        me = cx.old(cx.args['self'])
        pr = found(cx)
        if pr is None or isinstance(pr, VNone):
            return [('unknown property must not answer', z3.BoolVal(False))]
        pv = cx.old(pr)
        ipv = cx.old(VRef(pv.iprop.val.term, IP))
        k = key_of(pv)
        basic = z3.Or([ipv.sig == sv(c) for c in CODES])
        r = cx.result
        stored = z3.And(me.__getattr__('_dbusProperties?set'), z3.Select(me._dbusProperties.dom, k))
        val = z3.Select(me._dbusProperties.vals[0], k)
        out = [('only readable properties are revealed', ipv.access != sv('write'))]
        if isinstance(r, VNone):
            out.append(('no value was ever assigned', z3.Not(stored)))
        else:
            out.append(('the most recently stored value, as a variant of exactly the declared type when that is basic',
                        z3.Implies(stored, r.term == z3.If(basic, typed(ipv.sig, val), val))))
        return out

    def pget_raises(cx):
        pr = found(cx)
        if pr is None or isinstance(pr, VNone):
            return z3.BoolVal(True)
        ipv = cx.old(VRef(cx.old(pr).iprop.val.term, IP))
        return ipv.access == sv('write')

    contract(w, 'txdbus.objects.DBusObject._dbus_PropertyGet', {'self': Ref(O), 'interfaceName': STR, 'propertyName': STR},
             ensures=pget_post, result=Opt(OPAQUE), raises={Exception: pget_raises},
             modifies=lambda cx: [(cx.args['self'], O + '._dbusProperties'), (cx.args['self'], O + '._dbusProperties?set'), ('*', DP + '.key')])

    def pset_post(cx):
        me, new = cx.old(cx.args['self']), cx.new(cx.args['self'])
        pr = found(cx)
        if pr is None or isinstance(pr, VNone):
            return [('unknown property must not be set', z3.BoolVal(False))]
        pv = cx.old(pr)
        ipv = cx.old(VRef(pv.iprop.val.term, IP))
        k = key_of(pv)
        val = cx.args['value'].term
        return [('only writable properties change', z3.Or(ipv.access == sv('write'), ipv.access == sv('readwrite'))),
                ('the value is stored under the property key', z3.And(z3.Select(new._dbusProperties.dom, k), z3.Select(new._dbusProperties.vals[0], k) == val)),
                ('change notification per declaration', z3.If(ipv.emits == sv('true'), new.g_emitted == me.g_emitted + 1, new.g_emitted == me.g_emitted))]

    def pset_raises(cx):
        pr = found(cx)
        if pr is None or isinstance(pr, VNone):
            return z3.BoolVal(True)
        ipv = cx.old(VRef(cx.old(pr).iprop.val.term, IP))
        return z3.Not(z3.Or(ipv.access == sv('write'), ipv.access == sv('readwrite')))

    smods = lambda cx: [(cx.args['self'], O + '.' + f) for f in ('_dbusProperties', '_dbusProperties?set', 'g_emitted', 'g_sig_name', 'g_sig_iface', 'g_sig_key', 'g_sig_val', 'g_sig_inval', 'g_sig_on')] + [('*', DP + '.key')]
    contract(w, 'txdbus.objects.DBusObject._dbus_PropertySet', {'self': Ref(O), 'interfaceName': STR, 'propertyName': STR, 'value': OPAQUE},
             ensures=pset_post, raises={Exception: pset_raises},
             raises_post={Exception: lambda cx: [('a refused Set changes nothing', cx.unchanged(O + '._dbusProperties', O + '.g_emitted'))]},
             modifies=smods)
    # ---- getAllProperties' inner function addp: one property of the interface being listed
    def addp_pre(cx):
        pv = cx.old(cx.args['p'])
        desc = ufun('descriptor_of', IntSort, StringSort, IntSort)
        return [('the descriptor is bound and registered under its attribute name (what the interface caches hold)',
                 z3.And(resolved(pv), z3.Not(pv.attr_name.none), desc(cx.args['self'].term, pv.attr_name.val.term) == cx.args['p'].term))]

    def addp_post(cx):
        pv = cx.old(cx.args['p'])
        ipv = cx.old(VRef(pv.iprop.val.term, IP))
        me = cx.old(cx.args['self'])
        k = key_of(pv)
        r0 = cx.arg0['r'] if getattr(cx, 'arg0', None) and 'r' in cx.arg0 else None
        rd = cx.args['r']
        old_dom, old_val = (r0[0], r0[1]) if r0 is not None else (rd.dom, rd.vals[0])
        basic = z3.Or([ipv.sig == sv(c) for c in CODES])
        stored = z3.And(me.__getattr__('_dbusProperties?set'), z3.Select(me._dbusProperties.dom, k))
        val = z3.Select(me._dbusProperties.vals[0], k)
        return [('a write-only property is not revealed', z3.Implies(ipv.access == sv('write'), z3.And(rd.dom == old_dom, rd.vals[0] == old_val))),
                ('a readable property is listed under its name with its current value, typed by the declaration when basic; nothing else changes',
                 z3.Implies(z3.And(ipv.access != sv('write'), stored),
                            z3.And(rd.dom == z3.Store(old_dom, pv.pname, True),
                                   rd.vals[0] == z3.Store(old_val, pv.pname, z3.If(basic, typed(ipv.sig, val), val)))))]

    contract(w, 'nested:DBusObject.getAllProperties.addp', {'p': Ref(DP), 'self': Ref(O), 'r': DictT(STR, OPAQUE)},
             fn=objects.DBusObject.getAllProperties, nested='addp', mutates=('r',),
             requires=addp_pre, ensures=addp_post,
             modifies=lambda cx: [(cx.args['self'], O + '._dbusProperties'), (cx.args['self'], O + '._dbusProperties?set'), ('*', DP + '.key')])
    return w


def build(tier='quick'):
    w = build_world()
    targets = ['nested:DBusObject.getAllProperties.addp', 'txdbus.objects.DBusProperty.__set__', 'txdbus.objects.DBusProperty.__get__',
               'txdbus.objects.DBusObject._dbus_PropertyGet', 'txdbus.objects.DBusObject._dbus_PropertySet']
    sp = Spec('C17', w, lambda world: Models17(world), targets, replay=replay,
              bounded=[{'name': 'property-history', 'run': run_bounded}],
              trusted=['the descriptor protocol: obj.<attr> / setattr(obj, attr, v) on a class attribute that is a DBusProperty calls its __get__ / __set__ (Python data model)'],
              assumed=['_getProperty (reflection over the per-class interface caches) returns None or a bound descriptor: its interface and declaration are set, its key - once set - is the pair (interface, name), and it is the class attribute named by its attr_name (registry invariant of _cacheInterfaces); WHICH descriptor it returns for a name is decided by the bounded part',
                       'emitSignal records the emitted signal in ghost fields; its own lookup of the PropertiesChanged signal and the message construction are C10 / C03 matters',
                       'getAllProperties / GetAll: the inner function addp (one property) is verified; the loops over the reflection caches that feed it are bounded-only',
                       'values are opaque; "typed by the declaration" is the wrapper class of the basic type code applied to the value (variantClassMap, pinned by the C19 lemmas)'],
              notes=['unassigned properties read as None: such an object cannot be exported (encoding fails); the harness assigns every property before export as user code must'],
              explanation='the property descriptor and the remote Get / Set accessors verified for every declaration, value and store state (access modes, storage under interface + name, typed variants, change-notification rule); histories against a reference store through the real dispatcher on top',
              design_ref='DESIGN.md 4/C17')
    return sp
