"""C19 - signatures split into complete types; inferred variant types always encode.

What decides: a BOUNDED stand-in (labelled bounded, level 'exploration', never counted as proved), which is also the
quantifier the property itself states: exhaustive enumeration of the type grammar up to a length, random deep signatures
up to 255 bytes, generated Python values.
  * list(genCompleteTypes(sig)) == the decomposition of the DBus type grammar (reference: contracts/wire_ref.split), the
    pieces concatenate to the input and each is one complete type; argument counting in txdbus.interface agrees
  * sigFromPy(v) is one complete type; wrapper classes select exactly their type; when every container's elements share one
    DBus type or differ in Python type, v encodes under the inferred signature inside a variant and decodes to an equal value
Deductive part, proved on every run for EVERY string (contracts/splitter_contracts.py): genCompleteTypes (generator, eager
reading) and its inner bracket matcher find_end terminate; every piece is non-empty and no longer than the input; the first
piece is a prefix of the input; the pieces concatenate to the input.  The wrapper classes and variantClassMap carry exactly
the specification's type codes (lemmas over the live objects).
Why the bounded part still decides: 'each piece is ONE COMPLETE TYPE of the grammar' needs induction over the type grammar
(bracket matching vs the grammar's recursion), and sigFromPy dispatches on Python run-time types of arbitrary objects -
neither is derivable by the VC generator.
"""
import itertools
import random

import z3

from pyvc.engine import World
from pyvc.runner import Spec
from . import marshal_contracts as MC
from . import marshal_harness as H
from . import wire_ref as W

WRAPPERS = {'Byte': 'y', 'Boolean': 'b', 'Int16': 'n', 'UInt16': 'q', 'Int32': 'i', 'UInt32': 'u', 'Int64': 'x', 'UInt64': 't',
            'Signature': 'g', 'ObjectPath': 'o', 'Double': 'd', 'String': 's'}


def all_signatures(maxlen):
    """every valid signature (sequence of complete types, dict entries only inside arrays) of total length <= maxlen"""
    by_len = W.gen_signatures(maxlen, alphabet='ybnqiuxtdsogvh')
    singles = {n: [t for t in ts] for n, ts in by_len.items()}
    memo = {0: ['']}
    for n in range(1, maxlen + 1):
        cur = []
        for k in range(1, n + 1):
            for head in singles.get(k, []):
                for tail in memo[n - k]:
                    cur.append(head + tail)
        memo[n] = cur
    for n in range(1, maxlen + 1):
        for s in memo[n]:
            yield s


def random_deep(rnd, maxlen=255):
    def one(budget, depth):
        r = rnd.random()
        if budget < 3 or depth > 30 or r < 0.35:
            return rnd.choice('ybnqiuxtdsogvh')
        if r < 0.6:
            return 'a' + one(budget - 1, depth + 1)
        if r < 0.85:
            n = rnd.randint(1, 4)
            parts, b = [], budget - 2
            for _ in range(n):
                p = one(max(1, b // n), depth + 1)
                parts.append(p)
            return '(' + ''.join(parts) + ')'
        return 'a{' + rnd.choice('sqiuyo') + one(budget - 4, depth + 1) + '}'
    sig = ''
    target = rnd.randint(1, maxlen)
    while len(sig) < target:
        p = one(target - len(sig), 0)
        if len(sig) + len(p) > maxlen:
            break
        sig += p
    return sig or 'i'


def split_case(sig):
    from txdbus import marshal
    want = W.split(sig)
    try:
        got = H.with_alarm(10, lambda: list(marshal.genCompleteTypes(sig)))
    except H.Timeout:
        return 'genCompleteTypes(%r) did not return within 10 s' % (sig,)
    except Exception as e:
        return 'genCompleteTypes(%r) raised %s: %s' % (sig, type(e).__name__, e)
    if got != want:
        return 'genCompleteTypes(%r) = %r, the type grammar gives %r' % (sig, got, want)
    return None


def count_case(sig_in, sig_out):
    from txdbus import interface
    m = interface.Method('M', arguments=sig_in, returns=sig_out)
    s = interface.Signal('S', sig_in)
    interface.DBusInterface('org.verif.C19', m, s, noRegister=True)
    if m.nargs != len(W.split(sig_in)) or m.nret != len(W.split(sig_out)) or s.nargs != len(W.split(sig_in)):
        return 'interface argument counts for (%r -> %r): method %d/%d signal %d, the grammar gives %d/%d' % (
            sig_in, sig_out, m.nargs, m.nret, s.nargs, len(W.split(sig_in)), len(W.split(sig_out)))
    return None


# ---- values for sigFromPy
def gen_py(rnd, depth=0):
    """(value, within_claim): Python values from the property's domain; within_claim False when some container's elements
    share a Python class but not a DBus type (documented first-element inference, outside the claim)"""
    from txdbus import marshal
    r = rnd.random()
    if depth > 2 or r < 0.45:
        k = rnd.randrange(9)
        if k == 0: return rnd.random() < 0.5, True
        if k == 1: return rnd.choice([0, 1, -1, 2**31 - 1, -2**31, rnd.randint(-1000, 1000)]), True
        if k == 2: return rnd.choice([0.0, 1.5, -2.25, 1e100]), True
        if k == 3: return rnd.choice(['', 'a', 'héllo', 'x y']), True
        if k == 4: return bytearray(rnd.randrange(256) for _ in range(rnd.randrange(4))), True
        if k == 5:
            name = rnd.choice(list(WRAPPERS))
            code = WRAPPERS[name]
            cls = getattr(marshal, name)
            if code == 'g': return cls(rnd.choice(['', 'i', 'a{sv}'])), True
            if code == 'o': return cls(rnd.choice(['/', '/a/b'])), True
            if code == 'b': return cls(rnd.random() < 0.5), True
            if code == 'd': return cls(rnd.choice([0, 3, 1.5, -2.25])), True
            if code == 's': return cls(rnd.choice(['', 'text', 'héllo'])), True
            lo, hi = W.BOUNDS[code]
            return cls(rnd.choice([lo, hi, 0 if lo <= 0 else lo])), True
        if k == 6: return rnd.choice([2**31, -2**31 - 1, 2**40]), False      # plain ints outside int32: inferred 'i' cannot hold them
        if k == 7: return (), False                                           # the empty tuple has no DBus type
        return rnd.choice(['s', 'text']), True
    if r < 0.65:
        n = rnd.choice([0, 1, 2, 3])
        items = [gen_py(rnd, depth + 1) for _ in range(n)]
        if n >= 2 and rnd.random() < 0.3:
            items[1] = items[0]             # the same Python object twice in one value (a finite value, not a cycle)
        vals = [v for v, _ in items]
        ok = all(o for _, o in items)
        ok = ok and claim_covers(vals)
        return vals, ok
    if r < 0.8:
        n = rnd.choice([1, 2, 3])
        items = [gen_py(rnd, depth + 1) for _ in range(n)]
        if n >= 2 and rnd.random() < 0.3:
            items[-1] = items[0]
        return tuple(v for v, _ in items), all(o for _, o in items)
    n = rnd.choice([0, 1, 2])
    d, ok = {}, True
    for i in range(n):
        v, o = gen_py(rnd, depth + 1)
        d['k%d' % i] = v
        ok = ok and o
    ok = ok and claim_covers(list(d.values()))
    return d, ok


def ref_sig(v):
    """DBus type of a generated value per the documented rules, independent of sigFromPy (None: no type)"""
    from txdbus import marshal
    t = getattr(v, 'dbusSignature', None)
    if t is not None: return t
    if isinstance(v, bool): return 'b'
    if isinstance(v, int): return 'i'
    if isinstance(v, float): return 'd'
    if isinstance(v, str): return 's'
    if isinstance(v, bytearray): return 'ay'
    if isinstance(v, list):
        if not v: return 'av'
        if all(type(x) is type(v[0]) for x in v): return 'a' + (ref_sig(v[0]) or '?')
        return 'av'
    if isinstance(v, tuple): return '(' + ''.join(ref_sig(x) or '?' for x in v) + ')'
    if isinstance(v, dict):
        vals = list(v.values())
        if not vals or not all(type(x) is type(vals[0]) for x in vals): return 'a{sv}'
        return 'a{s' + (ref_sig(vals[0]) or '?') + '}'
    return None


def claim_covers(vals):
    """the property's side condition for one container: the elements all share one DBus type, or differ in Python type;
    elements of one and the same Python class with different DBus types (e.g. [[1], ['a']]) are outside the claim"""
    if not vals:
        return True
    if all(type(v) is type(vals[0]) for v in vals[1:]):
        return len({ref_sig(v) for v in vals}) == 1
    return True


def plain(v):
    """what decoding returns: tuples and bytearrays as lists, wrappers as their plain value"""
    if isinstance(v, bool):
        return bool(v)
    if isinstance(v, (list, tuple, bytearray)):
        return [plain(x) for x in v]
    if isinstance(v, dict):
        return {plain(k): plain(x) for k, x in v.items()}
    if isinstance(v, int):
        from txdbus import marshal
        return bool(v) if isinstance(v, marshal.Boolean) else int(v)
    if isinstance(v, str):
        return str(v)
    return v


def infer_case(v, within):
    from txdbus import marshal
    try:
        sg = marshal.sigFromPy(v)
    except Exception as e:
        if within:
            return 'sigFromPy(%r) raised %s: %s' % (v, type(e).__name__, e)
        return None
    if within or True:
        if not isinstance(sg, str) or W.ctlen(sg) != len(sg):
            if within:
                return 'sigFromPy(%r) = %r is not a single complete type' % (v, sg)
            return None
    if not within:
        return None
    for off in (0, 3):
        for le in (True, False):
            try:
                n, chunks = marshal.marshal('v', [v], off, le)
                raw = b''.join(chunks)
                m, out = marshal.unmarshal('v', b'\x00' * off + raw, off, le)
            except Exception as e:
                return 'variant round trip of %r (inferred %r) raised %s: %s' % (v, sg, type(e).__name__, e)
            if out != [plain(v)] or m != n:
                return 'variant round trip of %r (inferred %r) at offset %d gives %r, %d/%d bytes' % (v, sg, off, out, m, n)
    return None


def bounded(tier, seed):
    from txdbus import marshal
    rnd = random.Random(seed * 101 + 19)
    n = 0
    L = 6 if tier == 'thorough' else 5
    for sig in all_signatures(L):
        n += 1
        f = split_case(sig)
        if f:
            return n, f, {'signature': sig}
    # the result for a signature does not depend on what was split before: an array signature first (its splitting recurses on
    # the rest), then that rest on its own; and everything once more in the reverse order
    tails = ['(ii)s', 'iu', 'a{sv}(ss)i', 'sas', '(i(ss))yy', 'aiai', 'vvv', '{ss}', 'i']
    for t_ in tails:
        for sig in ('a' + t_, 'aa' + t_, t_, 'a' + t_, t_):
            n += 1
            f = split_case(sig)
            if f:
                return n, f + ' (after related signatures were split)', {'signature': sig}
    for sig in reversed(list(all_signatures(4))):
        n += 1
        f = split_case(sig)
        if f:
            return n, f + ' (second pass, reverse order)', {'signature': sig}
    # the limits of the grammar: 32 levels of struct / array / dict-entry nesting, signatures of 255 characters
    limits = ['(' * 32 + 'i' + ')' * 32, 'a' * 32 + 'i', 'a{s' * 32 + 'v' + '}' * 32, '(' * 31 + 'i' + ')' * 31, 'a(' * 16 + 'y' + ')' * 16,
              '(' * 32 + 'ii' + ')' * 32 + 'i', 'i' * 255, 'ai' * 127 + 'y', '(' + 'i' * 253 + ')', 'a{s(' + 'i' * 248 + ')}', '(i)' * 85, 'v' * 255]
    for sig in limits:
        n += 1
        f = split_case(sig)
        if f:
            return n, f, {'signature': sig}
    for _ in range(20000 if tier == 'thorough' else 800):
        sig = random_deep(rnd)
        if not W.valid(sig):
            continue
        n += 1
        f = split_case(sig)
        if f:
            return n, f, {'signature': sig}
    pool = [s for s in itertools.islice(all_signatures(4), 0, None, 7)]
    for _ in range(300 if tier == 'thorough' else 80):
        a, b = rnd.choice(pool), rnd.choice(pool)
        n += 1
        f = count_case(a, b)
        if f:
            return n, f, {'sig_in': a, 'sig_out': b}
    for name, code in WRAPPERS.items():
        n += 1
        cls = getattr(marshal, name)
        v = cls('/a') if code == 'o' else cls('i') if code == 'g' else cls('text') if code == 's' else cls(1)
        if marshal.sigFromPy(v) != code:
            return n, 'sigFromPy(%s(...)) = %r, the wrapper declares %r' % (name, marshal.sigFromPy(v), code), {'wrapper': name}
    # regression cases of the repaired inference defects (and their mirror images), checked on every run
    fixed_cases = [[1, marshal.Int64(2**40)], {'a': 1, 'b': marshal.UInt64(2**64 - 1)}, {'k0': -1, 'k1': True}, [marshal.Byte(1), 300],
                   {'a': 'x', 'b': marshal.ObjectPath('/p')}, [5, True], [True, 5], ['a', marshal.ObjectPath('/b')], {'k0': 2**31 - 1, 'k1': marshal.Int64(-2**63)},
                   {marshal.ObjectPath('/a'): 1}, {marshal.Signature('i'): 's'}, {marshal.Byte(1): 'x'}, {marshal.UInt32(7): [1, 2]}, [{marshal.ObjectPath('/a'): 'v'}], (1, 'a'), (1, 2), ((1, 'a'), (1, 2))]
    # values whose inferred signature is long (128 .. 255 characters) or nests to the limit
    wide = tuple(range(130))
    deep = 7
    for _ in range(31):
        deep = (deep,)
    fixed_cases += [wide, tuple(['s'] * 253), [tuple([1, 's', 2.5, True] * 40)], {'k': tuple(range(200))}, deep]
    # numbers of different Python types in one container: whatever they travel as, every one of them comes back EQUAL (a 64-bit integer
    # beyond 2^53 has no double)
    fixed_cases += [[marshal.Int64(2**53 + 1), 0.5], [0.5, marshal.UInt64(2**64 - 1), 7], {'big': marshal.Int64(-2**63 + 1), 'ratio': 0.25}, [1, 2.5], [2.5, 1],
                    [marshal.UInt32(4000000000), 1.5, marshal.Int64(2**62 + 1)]]
    # one container object reachable twice inside a value is an ordinary finite value
    row, pair, ent = [1, 2, 3], (1, 'a'), {'k': [1]}
    fixed_cases += [(row, row), [row, row], {'a': row, 'b': row}, (pair, pair), [pair, pair], [ent, ent], (row, [row, row]), {'x': (row, row)}]
    for v in fixed_cases:
        n += 1
        f = infer_case(v, True)
        if f:
            return n, f, {'value': repr(v)}
    for _ in range(40000 if tier == 'thorough' else 1500):
        v, within = gen_py(rnd)
        n += 1
        f = infer_case(v, within)
        if f:
            return n, f, {'value': repr(v)}
    return n, None, None


def replay(function, clause, model):
    n, f, inp = bounded('quick', 1)
    return {'reproduced': bool(f), 'input': inp, 'detail': f or 'no difference among %d cases' % n}


def run_bounded(tier, seed):
    n, f, inp = bounded(tier, seed)
    return {'tool': 'enumeration against the reference type grammar (contracts/wire_ref.py) and variant round trips on the real code',
            'bound': 'every valid signature of total length <= %d over all 14 type codes + containers; %d random nested signatures up to 255 bytes; interface argument counts on sampled pairs; %d generated Python values (bool/int/float/str/bytearray/wrappers, homogeneous and heterogeneous lists, tuples, dicts, depth <= 3) through sigFromPy and a variant round trip at 2 offsets x 2 byte orders' % (6 if tier == 'thorough' else 5, 20000 if tier == 'thorough' else 800, 40000 if tier == 'thorough' else 1500),
            'evaluations': n, 'failures': [] if not f else [{'function': 'txdbus.marshal.genCompleteTypes / sigFromPy', 'clause': 'grammar', 'input': inp, 'detail': f}]}


def build(tier='quick'):
    from txdbus import marshal
    w = World()
    lemmas = []
    for name, code in WRAPPERS.items():
        cls = getattr(marshal, name, None)
        lemmas.append(('wrapper %s declares type %s' % (name, code), z3.BoolVal(cls is not None and getattr(cls, 'dbusSignature', None) == code)))
        lemmas.append(('variantClassMap[%s] is %s' % (code, name), z3.BoolVal(marshal.variantClassMap.get(code) is cls)))
    lemmas.append(('variantClassMap maps exactly the basic value types to the wrapper selecting them',
                   z3.BoolVal(sorted(marshal.variantClassMap) == sorted('ybnqiuxtdsgo') == sorted(WRAPPERS.values())
                              and all(getattr(c, 'dbusSignature', None) == k for k, c in marshal.variantClassMap.items()))))
    from . import splitter_contracts as SC
    targets = []
    SC.add_splitter_contracts(w, targets)
    sp = Spec('C19', w, lambda world: MC.MarshalModels(world), targets, replay=replay,
              bounded=[{'name': 'grammar-enumeration', 'run': run_bounded}],
              trusted=['the reference grammar contracts/wire_ref.py (ctlen / split), written from the DBus specification'],
              assumed=['genCompleteTypes is verified in its eager reading; nothing about sigFromPy is proved for all inputs'],
              notes=['level exploration: the bounded enumeration decides the grammar part; termination / non-empty pieces / concatenation are proved'],
              explanation='exhaustive enumeration of the type grammar up to a length plus random deep signatures and generated values on the real code; wrapper tables pinned by lemmas',
              design_ref='DESIGN.md 4/C19')
    sp.lemmas = lemmas
    sp.level = 'exploration'
    return sp
