"""C16 - the exported-object tree seen remotely is exactly what was exported.

Abstract view: exports : Path -> Obj.  Spec predicate (by path COMPONENTS, from the statement):
    desc(p, q)  =  p is strictly beneath q  =  (q == '/' and p != '/')  or  p starts with q + '/'
Deductive part (all export maps, all query paths; skolem path p0 stands for "every path"):
    getManagedObjects(q):  p0 in keys(result)  <=>  p0 in exports and desc(p0, q)
    exportObject(o):       exports' == exports[path(o) -> o], one InterfacesAdded signal for that path
    unexportObject(p):     exports' == exports - p, one InterfacesRemoved signal for that path
Bounded part (labelled): introspection children, UnknownObject answers and the interface/property
content of GetManagedObjects, by history enumeration against a reference model through the real
handler (string building over XML and the reflection in DBusObject are outside the verified subset).
"""
import gc
import itertools
import random

import z3

from pyvc.values import *  # noqa
from pyvc.engine import World, ClassSpec, LoopSpec
from pyvc.runner import Spec
from .base import contract, make_models, TxModels
from . import grammar as G
from .classes import message_classes
from .c18 import add_validator_contracts, add_constructor_contracts

H = 'DBusObjectHandler'


def getInterfaces(self): pass
def getAllProperties(self, interfaceName): pass
def getObjectPath(self): pass
def setObjectHandler(self, objectHandler): pass
def sendMessage(self, msg): pass


def desc(p, q):
    return z3.Or(z3.And(q == z3.StringVal('/'), p != z3.StringVal('/')), z3.PrefixOf(z3.Concat(q, z3.StringVal('/')), p))


class Models16(TxModels):
    def __init__(self, world):
        super().__init__(world)
        from txdbus import objects
        self.register(objects.IDBusObject, lambda I, a, k: a[0])      # zope adaptation of a provider: identity


def build_world():
    from txdbus import objects
    w = World()
    message_classes(w)
    add_validator_contracts(w)
    add_constructor_contracts(w)
    w.add_class(ClassSpec('Iface', None, {'name': STR}))
    w.add_class(ClassSpec('IObj', None, {'g_path': STR},
                          methods={'getInterfaces': getInterfaces, 'getAllProperties': getAllProperties,
                                   'getObjectPath': getObjectPath, 'setObjectHandler': setObjectHandler}))
    w.add_class(ClassSpec('Conn', None, {'g_nsent': INT, 'g_last': Ref('DBusMessage')}, methods={'sendMessage': sendMessage}))
    w.add_class(ClassSpec(H, objects.DBusObjectHandler, {'exports': DictT(STR, Ref('IObj')), 'conn': Ref('Conn')}))

    contract(w, 'iface.IObj.getInterfaces', {'self': Ref('IObj')}, fn=getInterfaces, result=ListT(Ref('Iface')), assumed=True)
    contract(w, 'iface.IObj.getAllProperties', {'self': Ref('IObj'), 'interfaceName': STR}, fn=getAllProperties, result=OPAQUE, assumed=True)
    contract(w, 'iface.IObj.getObjectPath', {'self': Ref('IObj')}, fn=getObjectPath, result=STR,
             ensures=lambda cx: [('is-path', z3.And(cx.result.term == cx.old(cx.args['self']).g_path,
                                                    z3.InRe(cx.result.term, G.OBJECT_PATH)))], assumed=True)
    contract(w, 'iface.IObj.setObjectHandler', {'self': Ref('IObj'), 'objectHandler': Ref(H)}, fn=setObjectHandler, assumed=True)
    contract(w, 'iface.Conn.sendMessage', {'self': Ref('Conn'), 'msg': Ref('DBusMessage')}, fn=sendMessage,
             modifies=lambda cx: [(cx.args['self'], 'Conn.g_nsent'), (cx.args['self'], 'Conn.g_last')],
             ensures=lambda cx: [('sent', z3.And(cx.new(cx.args['self']).g_nsent == cx.old(cx.args['self']).g_nsent + 1,
                                                 cx.new(cx.args['self']).g_last == cx.a('msg')))], assumed=True)

    def valid_key(cx, y):
        """quantified precondition 'every exported key is a valid object path', instantiated at y"""
        ex = cx.old(cx.args['self']).exports
        return z3.Implies(z3.Select(ex.dom, y), z3.And(z3.InRe(y, G.OBJECT_PATH), z3.PrefixOf(z3.StringVal('/'), y)))

    def gmo_pre(cx):
        p0 = cx.ctx.p0 = cx.ctx.fresh('p0_path', StringSort)
        cx.ctx.membership.interest(p0)
        return [('query-path-valid', z3.InRe(cx.a('objectPath'), G.OBJECT_PATH)),
                ('exported-keys-valid@p0', valid_key(cx, p0))]

    def gmo_post(cx):
        ex = cx.old(cx.args['self']).exports
        p0 = cx.ctx.p0
        r = cx.result
        return [('keys-are-the-strict-descendants',
                 z3.Select(r.dom, p0) == z3.And(z3.Select(ex.dom, p0), desc(p0, cx.a('objectPath'))))]

    def gmo_outer_inv(cx):
        ex = cx.old(cx.args['self']).exports
        p0 = cx.ctx.p0
        ks = cx.L['_seq1'].seqs[0]
        k = cx.l('_k1')
        pre, suf = cx.ctx.prefix_of(ks, k)
        cx.ctx.prefix_of(ks, k + 1)
        M = cx.ctx.membership
        # instance of the quantified precondition at the element about to be visited
        cx.ctx.assume(z3.Implies(z3.And(k >= 0, k < z3.Length(ks)),
                                 z3.And(z3.InRe(ks[k], G.OBJECT_PATH), z3.PrefixOf(z3.StringVal('/'), ks[k]))))    # lemma path-starts-with-slash
        d = cx.L['d']
        q = cx.a('objectPath')
        out = [('result-so-far', z3.Select(d.dom, p0) == z3.And(M.mem(pre, p0), desc(p0, q))),
               ('exports-unchanged', cx.unchanged(H + '.exports'))]
        if 'prefix' in cx.L:      # helper local of the current implementation (loop-carried constant)
            out.append(('prefix-computed', cx.l('prefix') == z3.If(q == z3.StringVal('/'), q, z3.Concat(q, z3.StringVal('/')))))
        return out

    def gmo_inner_inv(cx):
        return gmo_outer_inv_frozen(cx)

    def gmo_outer_inv_frozen(cx):
        # inside the interface loop of one object: the outer facts with the outer index already advanced
        ex = cx.old(cx.args['self']).exports
        p0 = cx.ctx.p0
        ks = cx.L['_seq1'].seqs[0]
        k = cx.l('_k1')
        pre, suf = cx.ctx.prefix_of(ks, k)
        M = cx.ctx.membership
        d = cx.L['d']
        q = cx.a('objectPath')
        out = [('result-so-far', z3.Select(d.dom, p0) == z3.And(M.mem(pre, p0), desc(p0, q))),
               ('k', z3.And(k >= 1, k <= z3.Length(ks))),
               ('exports-unchanged', cx.unchanged(H + '.exports'))]
        if 'prefix' in cx.L:
            out.append(('prefix-computed', cx.l('prefix') == z3.If(q == z3.StringVal('/'), q, z3.Concat(q, z3.StringVal('/')))))
        return out

    contract(w, 'txdbus.objects.DBusObjectHandler.getManagedObjects', {'self': Ref(H), 'objectPath': STR},
             result=DictT(STR, OPAQUE), requires=gmo_pre, ensures=gmo_post,
             locals_types={'d': DictT(STR, OPAQUE), 'i': DictT(STR, OPAQUE)},
             loops={1: LoopSpec(invariant=gmo_outer_inv, ghost_index='_k1'),
                    2: LoopSpec(invariant=gmo_inner_inv, ghost_index='_k2')})

    def export_post(cx):
        s = cx.args['self']
        o, n = cx.old(s), cx.new(s)
        obj = cx.a('dbusObject')
        path = cx.old(cx.args['dbusObject']).g_path
        conn = VRef(o.conn, 'Conn')
        m = VRef(cx.new(conn).g_last, 'DBusMessage')
        mv = cx.new(m)
        return [('map-updated', z3.And(n.exports.dom == z3.Store(o.exports.dom, path, True),
                                       n.exports.vals[0] == z3.Store(o.exports.vals[0], path, obj))),
                ('one-signal', cx.new(conn).g_nsent == cx.old(conn).g_nsent + 1),
                ('signal-names-the-object', z3.And(z3.Not(mv.path.none), mv.path.val.term == path,
                                                   z3.Not(mv.member.none), mv.member.val.term == z3.StringVal('InterfacesAdded'),
                                                   z3.Not(mv.interface.none),
                                                   mv.interface.val.term == z3.StringVal('org.freedesktop.DBus.ObjectManager')))]

    msg_fields = ['expectReply', 'autoStart', 'signature', 'body', 'bodyLength', 'serial', 'headers', 'rawMessage', 'rawHeader',
                  'rawPadding', 'rawBody', 'interface', 'path', 'sender', 'destination', 'member', 'error_name', 'reply_serial',
                  'unix_fds', 'unix_fds?set', 'oobFDs']
    exp_mods = lambda cx: [(cx.args['self'], H + '.exports'), ('*', 'Conn.g_nsent'), ('*', 'Conn.g_last')] + [('*', 'DBusMessage.' + f) for f in msg_fields]

    contract(w, 'txdbus.objects.DBusObjectHandler.exportObject', {'self': Ref(H), 'dbusObject': Ref('IObj')},
             ensures=export_post, modifies=exp_mods, raises={Exception: lambda cx: z3.BoolVal(True)}, may_raise_any=True,
             locals_types={'i': DictT(STR, OPAQUE)},
             loops={1: LoopSpec(invariant=lambda cx: [('exports-set', z3.And(
                 cx.new(cx.args['self']).exports.dom == z3.Store(cx.old(cx.args['self']).exports.dom, cx.old(cx.args['dbusObject']).g_path, True),
                 cx.new(cx.args['self']).exports.vals[0] == z3.Store(cx.old(cx.args['self']).exports.vals[0], cx.old(cx.args['dbusObject']).g_path, cx.a('dbusObject')))),
                 ('nothing-sent', cx.unchanged('Conn.g_nsent', 'Conn.g_last')), ('o', cx.l('o') == cx.a('dbusObject'))], ghost_index='_k1')})

    def unexport_post(cx):
        s = cx.args['self']
        o, n = cx.old(s), cx.new(s)
        p = cx.a('objectPath')
        obj = VRef(z3.Select(o.exports.vals[0], p), 'IObj')
        conn = VRef(o.conn, 'Conn')
        m = VRef(cx.new(conn).g_last, 'DBusMessage')
        mv = cx.new(m)
        return [('map-updated', z3.And(n.exports.dom == z3.Store(o.exports.dom, p, False), n.exports.vals[0] == o.exports.vals[0])),
                ('one-signal', cx.new(conn).g_nsent == cx.old(conn).g_nsent + 1),
                ('signal-names-the-object', z3.And(z3.Not(mv.path.none), mv.path.val.term == cx.old(obj).g_path,
                                                   z3.Not(mv.member.none), mv.member.val.term == z3.StringVal('InterfacesRemoved')))]

    contract(w, 'txdbus.objects.DBusObjectHandler.unexportObject', {'self': Ref(H), 'objectPath': STR},
             requires=lambda cx: [('exported', z3.Select(cx.old(cx.args['self']).exports.dom, cx.a('objectPath')))],
             ensures=unexport_post, modifies=exp_mods, raises={Exception: lambda cx: z3.BoolVal(True)}, may_raise_any=True)
    return w


# --------------------------------------------------------------------------- concrete side
PATHS = ['/', '/a', '/a/b', '/a/bc', '/a/b/c', '/a/b/cd', '/a/bc/d', '/x']


def py_desc(p, q):
    return (q == '/' and p != '/') or p.startswith(q + '/')


def make_handler():
    from txdbus import objects, interface, message

    class Conn:
        def __init__(self): self.sent = []
        def sendMessage(self, m): self.sent.append(m)

    class Obj(objects.DBusObject):
        iface = interface.DBusInterface('org.example.T', interface.Method('M'), interface.Property('P', 's'),
                                        interface.Property('W', 's', readable=False, writeable=True),
                                        interface.Property('Count', 'u', writeable=True), interface.Property('Enabled', 'b'),
                                        interface.Property('Label', 's'), interface.Property('Tags', 'as'),
                                        # declared here, bound only by the derived class below
                                        interface.Property('Extra', 's'))
        # (the second interface has a property called P as well: the same NAME on two interfaces, two values)
        iface2 = interface.DBusInterface('org.example.U', interface.Method('N'), interface.Property('Q', 'i'), interface.Property('P', 's'))
        dbusInterfaces = [iface, iface2]
        P = objects.DBusProperty('P')
        W = objects.DBusProperty('W')
        # readable properties whose current values are 0, False, '' and an empty array are properties all the same
        Count = objects.DBusProperty('Count')
        Enabled = objects.DBusProperty('Enabled')
        Label = objects.DBusProperty('Label')
        Tags = objects.DBusProperty('Tags')
        Q = objects.DBusProperty('Q', 'org.example.U')
        PU = objects.DBusProperty('P', 'org.example.U')

        def dbus_M(self):
            return None

        def __init__(self, path):
            objects.DBusObject.__init__(self, path)
            self.P = 'value'
            self.PU = 'value on U'
            self.W = 'secret'
            self.Count = 0
            self.Enabled = False
            self.Label = ''
            self.Tags = []
            self.Q = -1

    class Derived(Obj):
        # a subclass adding an interface of its own: its objects have the base interfaces and this one
        iface3 = interface.DBusInterface('org.example.V', interface.Method('K'), interface.Property('R', 's'))
        dbusInterfaces = [iface3]
        R = objects.DBusProperty('R', 'org.example.V')
        # one more property of the BASE class's interface bound here: the object has it besides the ones its base class binds
        Extra = objects.DBusProperty('Extra', 'org.example.T')

        def __init__(self, path):
            Obj.__init__(self, path)
            self.R = 'derived'
            self.Extra = 'extra'

        def __len__(self):
            return 0            # an exported object may be an empty container: it is exported all the same

    c = Conn()
    return objects.DBusObjectHandler(c), c, (Obj, Derived)


def want_ifs_of(o):
    w = {'org.example.T': {'P': 'value', 'Count': 0, 'Enabled': False, 'Label': '', 'Tags': []}, 'org.example.U': {'Q': -1, 'P': 'value on U'}}
    if (o if isinstance(o, str) else type(o).__name__) == 'Derived':
        w['org.example.V'] = {'R': 'derived'}
        w['org.example.T']['Extra'] = 'extra'
    return w


def query_all(h, conn, exported):
    """compare every remotely visible answer with the reference model; returns failure text or None"""
    import re
    from txdbus import message
    for q in PATHS + ['/a/bcd', '/nope']:
        # GetManagedObjects / UnknownObject
        conn.sent.clear()
        call = message.MethodCallMessage(q, 'GetManagedObjects', interface='org.freedesktop.DBus.ObjectManager')
        call.sender = ':1.7'
        h.handleMethodCallMessage(call)
        if len(conn.sent) != 1:
            return 'GetManagedObjects(%s): %d replies' % (q, len(conn.sent))
        r = conn.sent[0]
        if q not in exported:
            if getattr(r, 'error_name', None) != 'org.freedesktop.DBus.Error.UnknownObject':
                return 'call to unexported %s not answered UnknownObject' % q
        else:
            want = sorted(p for p in exported if py_desc(p, q))
            got = sorted(r.body[0].keys())
            if got != want:
                return 'GetManagedObjects(%s) lists %r, expected %r' % (q, got, want)
            for p, ifs in r.body[0].items():
                want_ifs = want_ifs_of(exported[p])
                got_ifs = {k: v for k, v in ifs.items() if k.startswith('org.example.')}
                if got_ifs != want_ifs:
                    return 'GetManagedObjects(%s): object %s reported with %r, its interfaces and readable properties are %r' % (q, p, ifs, want_ifs)
        # an ordinary method call: answered by the object exported there NOW, UnknownObject otherwise (also when the same call was
        # answered a moment ago, before an unexport)
        conn.sent.clear()
        call = message.MethodCallMessage(q, 'M', interface='org.example.T')
        call.sender = ':1.7'
        h.handleMethodCallMessage(call)
        if len(conn.sent) != 1:
            return 'org.example.T.M on %s: %d replies' % (q, len(conn.sent))
        unknown = getattr(conn.sent[0], 'error_name', None) == 'org.freedesktop.DBus.Error.UnknownObject'
        if (q in exported) == unknown:
            return 'org.example.T.M on %s (%s): answered %s' % (q, 'exported' if q in exported else 'not exported', getattr(conn.sent[0], 'error_name', None) or 'with a method return')
        # Introspect
        conn.sent.clear()
        call = message.MethodCallMessage(q, 'Introspect', interface='org.freedesktop.DBus.Introspectable')
        call.sender = ':1.7'
        h.handleMethodCallMessage(call)
        r = conn.sent[0]
        children = sorted({p[len(q.rstrip('/')) + 1:].split('/')[0] for p in exported if py_desc(p, q)})
        if q not in exported and not children:
            if getattr(r, 'error_name', None) != 'org.freedesktop.DBus.Error.UnknownObject':
                return 'Introspect(%s) should fail (no object, no descendants)' % q
        else:
            if getattr(r, 'error_name', None):
                return 'Introspect(%s) failed: %s' % (q, r.error_name)
            got = sorted(re.findall(r'<node name="([^"]*)"/>', r.body[0]))
            if got != children:
                return 'Introspect(%s) children %r, expected %r' % (q, got, children)
    return None


def run_history(ops):
    h, conn, classes_ = make_handler()
    exported = {}            # path -> the object exported there
    instances = {}           # the same Python object is exported again after an unexport (every second time), as applications do
    for step, (op, p) in enumerate(ops):
        conn.sent.clear()
        try:
            if op == 'export':
                if p in instances and step % 2 == 0:
                    o = instances[p]
                else:
                    # objects of the base class and of a derived class adding an interface, in either order
                    o = instances[p] = classes_[(len(p) + step + len(ops)) % 2](p)
                h.exportObject(o)
                exported[p] = type(o).__name__
                if (len(p) + step) % 3 == 0:
                    # the application keeps no reference of its own (conn.exportObject(Obj(path))): the export is what keeps the
                    # object visible until it is unexported
                    instances.pop(p, None)
                    del o
                    gc.collect()
                    o = exported[p]
                kind = 'InterfacesAdded'
            else:
                if p not in exported:
                    continue
                o = exported.pop(p)
                h.unexportObject(p)
                kind = 'InterfacesRemoved'
        except Exception as e:
            return 'step %d %s(%s) raised %s: %s' % (step, op, p, type(e).__name__, e)
        if len(conn.sent) != 1 or conn.sent[0].member != kind or conn.sent[0].path != p or conn.sent[0].body[0] != p:
            return 'step %d %s(%s): announcement %r' % (step, op, p, [(m.member, m.path) for m in conn.sent])
        named = set(conn.sent[0].body[1].keys() if kind == 'InterfacesAdded' else conn.sent[0].body[1])
        if {n for n in named if n.startswith('org.example.')} != set(want_ifs_of(o)):
            return 'step %d %s(%s) of a %s object: the announcement names the interfaces %r, the object has %r' % (
                step, op, p, o if isinstance(o, str) else type(o).__name__, sorted(named), sorted(want_ifs_of(o)))
        f = query_all(h, conn, exported)
        if f:
            return 'after step %d %s(%s) with exports %r: %s' % (step, op, p, sorted(exported), f)
    return None


def changed_property_case():
    """GetManagedObjects reports the readable properties as they are when it is asked: values assigned locally or Set remotely after
    the export are the ones reported"""
    from txdbus import message
    h, conn, (Obj, Derived) = make_handler()
    h.exportObject(Obj('/a'))
    child = Derived('/a/b')
    h.exportObject(child)
    child.P = 'changed'
    child.Tags = ['t']
    child.R = 'derived, later'
    call = message.MethodCallMessage('/a/b', 'Set', interface='org.freedesktop.DBus.Properties', signature='ssv', body=['org.example.T', 'Count', 5])
    p = message.parseMessage(call.rawMessage, [])
    p.sender = ':1.7'
    conn.sent.clear()
    h.handleMethodCallMessage(p)
    replies = [m for m in conn.sent if getattr(m, 'reply_serial', None) == p.serial]          # (a PropertiesChanged signal goes out as well)
    if len(replies) != 1 or getattr(replies[0], 'error_name', None):
        return 'remote Set of a writable property failed: %r' % [getattr(m, 'error_name', None) for m in conn.sent]
    conn.sent.clear()
    call = message.MethodCallMessage('/a', 'GetManagedObjects', interface='org.freedesktop.DBus.ObjectManager')
    call.sender = ':1.7'
    h.handleMethodCallMessage(call)
    if len(conn.sent) != 1 or getattr(conn.sent[0], 'error_name', None):
        return 'GetManagedObjects(/a) after property changes: %r' % [getattr(m, 'error_name', None) for m in conn.sent]
    got = conn.sent[0].body[0].get('/a/b', {})
    want = {'org.example.T': {'P': 'changed', 'Count': 5, 'Enabled': False, 'Label': '', 'Tags': ['t'], 'Extra': 'extra'}, 'org.example.U': {'Q': -1, 'P': 'value on U'}, 'org.example.V': {'R': 'derived, later'}}
    got = {k: v for k, v in got.items() if k.startswith('org.example.')}
    if got != want:
        return 'GetManagedObjects(/a) after /a/b had P, Tags, R assigned and Count Set remotely reports %r, the current readable properties are %r' % (got, want)
    return None


def adapted_object_case():
    """an application object exported through a registered adapter to IDBusObject: what is visible remotely is the adapter"""
    from twisted.python import components
    from txdbus import interface, message, objects
    h, conn, _classes = make_handler()

    class Thermostat:
        def __init__(self): self.target = 21

    class ThermostatOnDBus(objects.DBusObject):
        dbusInterfaces = [interface.DBusInterface('org.example.Thermostat', interface.Method('Target', returns='i'), noRegister=True)]

        def __init__(self, original):
            objects.DBusObject.__init__(self, '/thermostat')
            self.original = original

        def dbus_Target(self):
            return self.original.target
    try:
        components.registerAdapter(ThermostatOnDBus, Thermostat, objects.IDBusObject)
    except ValueError:
        pass
    try:
        h.exportObject(Thermostat())
    except Exception as e:
        return 'exporting an object through its registered adapter raised %s: %s' % (type(e).__name__, e)
    conn.sent.clear()
    call = message.MethodCallMessage('/thermostat', 'Target', interface='org.example.Thermostat')
    call.sender = ':1.7'
    try:
        h.handleMethodCallMessage(call)
    except Exception as e:
        return 'a call to an object exported through its adapter raised %s: %s' % (type(e).__name__, e)
    if len(conn.sent) != 1 or getattr(conn.sent[0], 'body', None) != [21]:
        return 'a call to an object exported through its adapter was answered %r' % [(type(m).__name__, getattr(m, 'error_name', None), m.body) for m in conn.sent]
    conn.sent.clear()
    try:
        h.unexportObject('/thermostat')
    except Exception as e:
        return 'unexporting an object exported through its adapter raised %s: %s' % (type(e).__name__, e)
    if len(conn.sent) != 1 or conn.sent[0].member != 'InterfacesRemoved':
        return 'unexporting an object exported through its adapter announced %r' % [getattr(m, 'member', None) for m in conn.sent]
    return None


def bounded(tier, seed):
    f = adapted_object_case()
    if f:
        return 1, [{'function': 'txdbus.objects.DBusObjectHandler', 'clause': 'history', 'input': ['object exported through an adapter'], 'detail': f}]
    f = changed_property_case()
    if f:
        return 1, [{'function': 'txdbus.objects.DBusObjectHandler', 'clause': 'history', 'input': ['property changes after export'], 'detail': f}]
    rnd = random.Random(seed)
    n, failures = 0, []
    ops = [(o, p) for o in ('export', 'unexport') for p in PATHS]
    # every subset of up to 3 exported paths (as an export history), then random add/remove histories
    for r in range(1, 4 if tier == 'thorough' else 3):
        for combo in itertools.combinations(PATHS, r):
            n += 1
            f = run_history([('export', p) for p in combo])
            if f:
                return n, [{'function': 'txdbus.objects.DBusObjectHandler', 'clause': 'history', 'input': [list(x) for x in [('export', p) for p in combo]], 'detail': f}]
    for _ in range(15000 if tier == 'thorough' else 60):
        hist = [rnd.choice(ops) for _ in range(rnd.randrange(2, 10))]
        n += 1
        f = run_history(hist)
        if f:
            return n, [{'function': 'txdbus.objects.DBusObjectHandler', 'clause': 'history', 'input': [list(x) for x in hist], 'detail': f}]
    return n, failures


def replay(function, clause, model):
    if isinstance(model, dict) and model.get('history'):
        f = run_history([tuple(x) for x in model['history']])
        return {'reproduced': bool(f), 'input': model['history'], 'detail': f}
    n, failures = bounded('quick', 3)
    if failures:
        return {'reproduced': True, 'input': failures[0]['input'], 'detail': failures[0]['detail']}
    return {'reproduced': False, 'detail': 'no failing export history among %d' % n}


def run_bounded(tier, seed):
    n, failures = bounded(tier, seed)
    return {'tool': 'export/unexport history enumeration against a reference model (real DBusObjectHandler, fake connection); after every step GetManagedObjects, Introspect and UnknownObject answers at 9 paths incl. prefix-sharing siblings',
            'bound': 'all export sets of size <= %d over 8 paths; %d random add/remove histories of length 2..9' % (3 if tier == 'thorough' else 2, 15000 if tier == 'thorough' else 60),
            'evaluations': n, 'failures': failures}


def build(tier='quick'):
    w = build_world()
    sp = _spec(w)
    x = z3.String('x')
    sp.lemmas = [('object-path-starts-with-slash', z3.Implies(z3.InRe(x, G.OBJECT_PATH), z3.PrefixOf(z3.StringVal('/'), x)))]
    return sp


def _spec(w):
    return Spec('C16', w, lambda world: Models16(world),
                ['txdbus.objects.DBusObjectHandler.getManagedObjects', 'txdbus.objects.DBusObjectHandler.exportObject',
                 'txdbus.objects.DBusObjectHandler.unexportObject'],
                replay=replay, bounded=[{'name': 'export-histories', 'run': run_bounded}],
                trusted=['ghost key sequence of a dict (pyvc.engine.Ctx.key_sequence): mem(keys, y) <=> y in dom, instantiated at the skolem path',
                         'z3 string theory (PrefixOf / regular membership)'],
                assumed=['exported object interface (getInterfaces / getAllProperties / getObjectPath returns its valid path / setObjectHandler)',
                         'connection.sendMessage appends to the ghost log; SignalMessage constructor contract (C18)',
                         'quantified precondition: every exported key is a valid object path (instantiated at the skolem path and the visited element)'],
                notes=['Introspect children, UnknownObject answers and the interface/property content are bounded-only (XML string building / reflection outside the subset)'],
                explanation='getManagedObjects key set == strict descendants (loop invariant over the ghost key sequence, skolem path), export/unexport map update and announcement; remaining clauses by bounded history enumeration',
                design_ref='DESIGN.md 4/C16')
