"""Bounded harness for C09: connect() over an endpoint list, loss of the transport at every point of a connection's history."""
import itertools
import random


class FakeEndpoint:
    """an endpoint that either refuses (errback) or connects the factory's protocol to a transport we drive"""
    def __init__(self, name, reachable, log, dbus_args=None):
        self.name, self.reachable, self.log = name, reachable, log
        self.proto = self.transport = None
        # what getDBusEndpoints attaches to every endpoint it creates: the key=value parameters of the address entry
        self.dbus_args = dict(dbus_args or {})

    def connect(self, factory):
        from twisted.internet import defer, error
        from twisted.python import failure
        from twisted.internet.testing import StringTransport
        self.log.append(self.name)
        self.factory = factory
        if not self.reachable:
            # unreachable in different ways: refused, name does not resolve, connect timed out
            exc = [error.ConnectionRefusedError, error.DNSLookupError, error.TimeoutError][len(self.log) % 3]
            return defer.fail(failure.Failure(exc('unreachable ' + self.name)))
        self.proto = factory.buildProtocol(None)
        self.transport = StringTransport()
        self.proto.makeConnection(self.transport)
        return defer.succeed(self.proto)


def start(reach):
    """client.connect() with endpoints patched; returns (fired list, endpoints, order log, clock)"""
    from twisted.internet import task
    from txdbus import client, endpoints
    clock = task.Clock()
    client.reactor = clock
    log = []
    kinds = [{'path': '/run/bus%d'}, {'host': 'h%d', 'port': '7'}, {'nonce-tcp': True, 'host': 'h%d', 'port': '9', 'noncefile': '/n%d'}, {'abstract': 'a%d'}]
    _name_turn[0] += 1
    eps = [FakeEndpoint('ep%d' % i, r, log, {k: (v % i if isinstance(v, str) and '%d' in v else v) for k, v in kinds[(i + _name_turn[0]) % len(kinds)].items()})
           for i, r in enumerate(reach)]
    orig = endpoints.getDBusEndpoints
    endpoints.getDBusEndpoints = lambda reactor, addr, client=True: list(eps)
    try:
        fired = []
        try:
            client.connect(clock, 'fake:').addBoth(fired.append)
        except Exception as e:
            # connect() returns a Deferred whatever the address list holds; an exception out of it is a failure of the case
            fired.append('connect() raised %s: %s' % (type(e).__name__, e))
    finally:
        endpoints.getDBusEndpoints = orig
    return fired, eps, log, clock


# unique names a bus may hand out: any valid unique connection name, not only the reference daemon's ':<int>.<int>'
UNIQUE_NAMES = [':1.77', ':bus-7.conn_12', ':a.b.c', ':1.42-x', ':_._', ':1.0']
_name_turn = [0]


def drive(ep, upto):
    """server side of the handshake on the connected endpoint, up to a stage:
       0 nothing, 1 after the client's AUTH was answered REJECTED (it retries), 2 after OK (client sends BEGIN + Hello),
       3 Hello answered (established), 'refuse' = every mechanism rejected, 'hello_error' = Hello answered with an error"""
    from txdbus import message
    p, t = ep.proto, ep.transport
    if upto == 0:
        return None
    if upto == 'refuse':
        # a bus that refuses every mechanism, naming what it supports each time (as real daemons do), or naming only one
        line = (b'REJECTED EXTERNAL DBUS_COOKIE_SHA1 ANONYMOUS\r\n', b'REJECTED EXTERNAL\r\n', b'REJECTED ANONYMOUS DBUS_COOKIE_SHA1\r\n')[_name_turn[0] % 3]
        _name_turn[0] += 1
        for _ in range(12):
            p.dataReceived(line)
            if t.disconnecting:
                break
        return None
    if upto == 1:
        p.dataReceived(b'REJECTED EXTERNAL DBUS_COOKIE_SHA1 ANONYMOUS\r\n')
        return None
    t.clear()
    p.dataReceived(b'OK 1234deadbeef\r\n')
    out = t.value()
    # the client may negotiate unix fds first
    if b'NEGOTIATE_UNIX_FD' in out and b'BEGIN' not in out:
        t.clear()
        p.dataReceived(b'ERROR\r\n')
        out = t.value()
    i = out.find(b'BEGIN\r\n')
    if i < 0:
        return 'client did not send BEGIN after OK: %r' % out
    raw = out[i + 7:]
    if not raw:
        return 'client did not send Hello after BEGIN'
    hello = message.parseMessage(raw, [])
    if hello.member != 'Hello':
        return 'first message is %r' % hello.member
    if upto == 2:
        return None
    if upto == 'hello_error':
        p.dataReceived(message.ErrorMessage('org.freedesktop.DBus.Error.Failed', hello.serial, signature='s', body=['no']).rawMessage)
        return None
    _name_turn[0] += 1
    ep.unique_name = UNIQUE_NAMES[_name_turn[0] % len(UNIQUE_NAMES)]
    p.dataReceived(message.MethodReturnMessage(hello.serial, signature='s', body=[ep.unique_name]).rawMessage)
    return None


def lose(ep):
    from twisted.python import failure
    from twisted.internet import error
    reason = failure.Failure(error.ConnectionLost('transport closed'))
    ep.proto.connectionLost(reason)
    return reason


def connect_case(reach, stage):
    """one history: endpoint list with a reachable subset; the first reachable endpoint is driven to `stage`, then the
    transport closes.  The connect Deferred must have fired exactly once by then - with the connection iff established."""
    from twisted.python import failure
    from txdbus import client
    fired, eps, log, clock = start(reach)
    what = 'endpoints reachable=%r, transport closes at stage %r' % (reach, stage)
    first = next((i for i, r in enumerate(reach) if r), None)
    want_order = ['ep%d' % i for i in range(len(reach) if first is None else first + 1)]
    if log != want_order:
        return '%s: endpoints tried %r, expected %r' % (what, log, want_order)
    if fired and isinstance(fired[0], str):
        return '%s: %s' % (what, fired[0])
    if first is None:
        if len(fired) != 1 or not isinstance(fired[0], failure.Failure):
            return '%s: connect Deferred fired %r, expected one failure' % (what, fired)
        return None
    ep = eps[first]
    f = drive(ep, stage)
    if f:
        return what + ': ' + f
    if stage == 3:
        if len(fired) != 1 or not isinstance(fired[0], client.DBusClientConnection) or fired[0].busName != ep.unique_name:
            return '%s: connect Deferred fired %r after the Hello reply' % (what, fired)
    elif stage == 'hello_error':
        if len(fired) != 1 or not isinstance(fired[0], failure.Failure):
            return '%s: connect Deferred fired %r after Hello failed' % (what, fired)
    elif fired:
        return '%s: connect Deferred fired early: %r' % (what, fired)
    if stage == 'refuse' and not ep.transport.disconnecting:
        return '%s: authentication refused but the connection is kept' % what
    try:
        lose(ep)
    except Exception as e:
        return '%s: connectionLost raised %s: %s' % (what, type(e).__name__, e)
    if len(fired) != 1:
        return '%s: connect Deferred fired %d times after the transport closed' % (what, len(fired))
    if stage != 3 and not isinstance(fired[0], failure.Failure):
        return '%s: connect Deferred succeeded with %r' % (what, fired[0])
    clock.advance(1000)
    if len(fired) != 1:
        return '%s: connect Deferred fired again later' % what
    # whoever asks the factory for the connection AFTER the attempt has concluded gets the same conclusion, not a Deferred that never fires
    late = []
    try:
        d_late = ep.factory.getConnection()
        has_fired = d_late.called
        d_late.addBoth(late.append)           # (its value is what the earlier consumer's callback returned: only THAT it fires is checked)
    except Exception as e:
        return '%s: getConnection() after the conclusion raised %s: %s' % (what, type(e).__name__, e)
    if not has_fired or len(late) != 1:
        return '%s: getConnection() asked after the attempt concluded gave a Deferred that has not fired' % what
    return None


def loss_case(rnd, ncalls, timers, explicit, introspected, dup_cb, local=False):
    """an established connection with calls, timers, disconnect callbacks and proxies; then the transport closes"""
    from twisted.python import failure
    from twisted.internet import defer
    from txdbus import interface, message
    fired, eps, log, clock = start([True])
    ep = eps[0]
    f = drive(ep, 3)
    what = 'established connection with %d calls (timers %r), %d explicit and %d introspected proxies' % (ncalls, timers, explicit, introspected)
    if f or len(fired) != 1:
        return '%s: could not establish: %s %r' % (what, f, fired)
    conn = fired[0]
    ran = []
    if rnd.random() < 0.5:
        conn.notifyOnDisconnect(lambda c, r: ran.append(('conn0', r)))
    else:
        # a one-shot callback that deregisters itself while the loss is dispatched: those registered after it still run
        def conn0(c, r):
            ran.append(('conn0', r))
            conn.cancelNotifyOnDisconnect(conn0)
        conn.notifyOnDisconnect(conn0)
    cb1 = lambda c, r: ran.append(('conn1', r))
    conn.notifyOnDisconnect(cb1)
    if dup_cb:
        conn.notifyOnDisconnect(cb1)
    outs = []
    observed = []
    retried = []
    retrying = ncalls >= 2 and rnd.random() < 0.5
    for i in range(ncalls):
        out = []
        d = conn.callRemote('/o', 'M%d' % i, interface='org.e.I', destination='org.e', timeout=(5 + i) if timers[i] else None)
        if retrying and i == 0:
            # a caller that retries a failed call from its errback - also when the failure is the loss of the connection: the
            # other outstanding calls are failed all the same
            def retry(f, observed=observed):
                observed.append(f)
                retried.append(conn.callRemote('/o', 'Again', interface='org.e.I', destination='org.e'))
                return None
            d.addErrback(retry)
        d.addBoth(out.append)
        outs.append(out)
    if retrying:
        what += ', call 0 retried from its errback'
    if ncalls >= 2 and timers[0] and dup_cb:
        # the caller gives one call up (Deferred.cancel()): it is still unanswered when the connection is lost
        outs[0][:] = []
        dcan = conn.callRemote('/o', 'Given_up', interface='org.e.I', destination='org.e', timeout=50)
        dcan.addErrback(lambda f: None)
        dcan.cancel()
    # a call issued through callRemoteMessage whose caller has not attached anything to the Deferred yet (it will, later)
    bare = None
    if rnd.random() < 0.5:
        bare = conn.callRemoteMessage(message.MethodCallMessage('/o', 'Bare', interface='org.e.I', destination='org.e'), 7 if (timers and timers[0]) else None)
        what += ', one call without callbacks attached yet'
    proxies = []
    cbs = {}
    second = []
    iface = interface.DBusInterface('org.verif.P', interface.Method('M'), interface.Signal('Changed', 's'), noRegister=True)
    for k in range(explicit):
        got = []
        conn.getRemoteObject('org.e', '/p', iface).addBoth(got.append)
        proxies.append(('explicit%d' % k, got))
    for k in range(introspected):
        got = []
        before_ = set(conn._pendingCalls)
        d = conn.getRemoteObject('org.e', '/p')
        d.addBoth(got.append)
        # answer the Introspect call (if one was issued: an implementation may remember what it learnt about an object)
        calls = [s for s in conn._pendingCalls if s not in before_]
        xml = '<node><interface name="org.verif.Q"><method name="M"/></interface></node>'
        for s_ in calls:
            conn.dataReceived(message.MethodReturnMessage(s_, signature='s', body=[xml]).rawMessage)
        proxies.append(('introspected%d' % k, got))
    for name, got in proxies:
        if len(got) != 1 or isinstance(got[0], failure.Failure):
            return '%s: proxy %s not obtained: %r' % (what, name, got)
        if rnd.random() < 0.5:
            cbs[name] = lambda o, r, name=name: ran.append((name, r))
            got[0].notifyOnDisconnect(cbs[name])
        else:
            def first(o, r, name=name):
                ran.append((name, r))
                o.cancelNotifyOnDisconnect(cbs[name])           # deregisters itself during the dispatch
            cbs[name] = first
            got[0].notifyOnDisconnect(first)
            got[0].notifyOnDisconnect(lambda o, r, name=name: ran.append((name + '_second', r)))
            second.append(name + '_second')
    # a callback that is the bound method of an observer object nobody else refers to: the registration is what keeps it alive
    observers = []
    for name, got in proxies:
        if rnd.random() < 0.5:
            class Observer:
                def __init__(self, tag): self.tag = tag
                def lost(self, o, r): ran.append((self.tag, r))
            got[0].notifyOnDisconnect(Observer(name + '_observer').lost)
            observers.append(name + '_observer')
    if observers:
        import gc
        gc.collect()
        what += ', %d callbacks that are methods of otherwise unreferenced observers' % len(observers)
    subscribed = 0
    for name, got in proxies:
        if name.startswith('explicit') and rnd.random() < 0.6:
            # the proxy also holds a signal subscription, completed (the bus has answered AddMatch) when the connection is lost
            sub = []
            before = set(conn._pendingCalls)
            got[0].notifyOnSignal('Changed', lambda *a: None).addBoth(sub.append)
            for sr in set(conn._pendingCalls) - before:
                conn.dataReceived(message.MethodReturnMessage(sr).rawMessage)
            if len(sub) != 1 or isinstance(sub[0], failure.Failure):
                return '%s: signal subscription of %s not completed: %r' % (what, name, sub)
            subscribed += 1
    if subscribed:
        what += ', %d proxies with a completed signal subscription' % subscribed
    if len(proxies) >= 2 and rnd.random() < 0.5:
        # a callback that asks for another proxy while the loss is dispatched: the proxies not visited yet are still told
        late = []
        proxies[0][1][0].notifyOnDisconnect(lambda o, r: conn.getRemoteObject('org.e', '/late', iface).addBoth(late.append))
        what += ', a callback of the first proxy requests a new proxy during the dispatch'
    renamed = {}
    if proxies and rnd.random() < 0.5:
        # the only callback of a proxy is withdrawn and another one registered later: the proxy still counts as interested
        name, got = proxies[-1]
        got[0].cancelNotifyOnDisconnect(cbs[name])
        renamed[name] = name + '_again'
        got[0].notifyOnDisconnect(lambda o, r, name=name: ran.append((name + '_again', r)))
        what += ', the callback of %s cancelled and a new one registered' % name
    cancelled = None
    if proxies and rnd.random() < 0.3:
        extra = lambda o, r: ran.append(('cancelled', r))
        proxies[0][1][0].notifyOnDisconnect(extra)
        proxies[0][1][0].cancelNotifyOnDisconnect(extra)
    if local:
        # the application closes the connection itself: disconnect(), then the transport reports the loss
        what += ', closed locally with disconnect()'
        try:
            conn.disconnect()
        except Exception as e:
            return '%s: disconnect() raised %s: %s' % (what, type(e).__name__, e)
        if not ep.transport.disconnecting:
            return '%s: disconnect() did not close the transport' % what
    try:
        reason = lose(ep)
    except Exception as e:
        return '%s: connectionLost raised %s: %s' % (what, type(e).__name__, e)
    want = ['conn0', 'conn1'] + (['conn1'] if dup_cb else []) + [renamed.get(n, n) for n, _ in proxies] + second + observers
    if sorted(n for n, _ in ran) != sorted(want):
        return '%s: disconnect callbacks run %r, expected %r' % (what, sorted(n for n, _ in ran), sorted(want))
    if any(r is not reason for _, r in ran):
        return '%s: a disconnect callback received a different reason' % what
    for i, out in enumerate(outs):
        if retrying and i == 0:
            if observed != [reason]:
                return '%s: the retrying caller saw the failures %r (expected the loss reason once)' % (what, observed)
            continue
        if len(out) != 1 or out[0] is not reason:
            return '%s: outstanding call %d completed with %r (expected one failure with the loss reason)' % (what, i, out)
    if bare is not None:
        seen = []
        bare.addBoth(seen.append)            # attached only now: the outcome is there already
        if len(seen) != 1 or seen[0] is not reason:
            return '%s: the call whose Deferred had no callbacks yet at the loss completed with %r (expected the loss reason)' % (what, seen)
    if clock.getDelayedCalls():
        return '%s: %d timers still armed after the loss' % (what, len(clock.getDelayedCalls()))
    if len(conn._pendingCalls) != len(retried):
        return '%s: calls still recorded as pending' % what
    n_ran, n_out = len(ran), [len(o) for o in outs]
    clock.advance(1000)
    try:
        conn.dataReceived(message.MethodReturnMessage(2, signature='s', body=['late']).rawMessage)
    except Exception:
        pass
    if len(ran) != n_ran or [len(o) for o in outs] != n_out:
        return '%s: something fired after the loss was handled' % what
    return None


def address_case():
    """the real getDBusEndpoints: every entry of a bus address list (unix path / abstract, tcp, nonce-tcp) becomes one endpoint,
    in listed order, carrying its parameters; 'session' / 'system' come from the environment; and connect() tries what the
    address lists - all three kinds - in that order"""
    import os
    from twisted.internet import defer, error
    from twisted.python import failure
    from txdbus import client, endpoints
    table = [('unix:path=/run/a', [('UNIXClientEndpoint', {'_path': '/run/a'})]),
             ('unix:abstract=abc,guid=12', [('UNIXClientEndpoint', {'_path': '\0abc'})]),
             ('tcp:host=example.org,port=1234', [('TCP4ClientEndpoint', {'_host': 'example.org', '_port': 1234})]),
             ('nonce-tcp:host=h,port=99,noncefile=/tmp/n', [('TCP4ClientEndpoint', {'_host': 'h', '_port': 99})]),
             ('unix:path=/x;tcp:host=a,port=1;nonce-tcp:host=b,port=2,noncefile=/n;unix:abstract=q',
              [('UNIXClientEndpoint', {'_path': '/x'}), ('TCP4ClientEndpoint', {'_host': 'a', '_port': 1}), ('TCP4ClientEndpoint', {'_host': 'b', '_port': 2}), ('UNIXClientEndpoint', {'_path': '\0q'})]),
             ('tcp:host=a,port=1;unix:path=/x', [('TCP4ClientEndpoint', {'_host': 'a', '_port': 1}), ('UNIXClientEndpoint', {'_path': '/x'})]),
             # entries that differ in ONE parameter only (same host, other port; same directory, other socket) are different addresses
             ('tcp:host=a,port=4001;tcp:host=a,port=4002;nonce-tcp:host=a,port=4003,noncefile=/n',
              [('TCP4ClientEndpoint', {'_host': 'a', '_port': 4001}), ('TCP4ClientEndpoint', {'_host': 'a', '_port': 4002}), ('TCP4ClientEndpoint', {'_host': 'a', '_port': 4003})]),
             ('unix:path=/run/a;unix:path=/run/b;unix:abstract=/run/a', [('UNIXClientEndpoint', {'_path': '/run/a'}), ('UNIXClientEndpoint', {'_path': '/run/b'}), ('UNIXClientEndpoint', {'_path': '\0/run/a'})]),
             ('tcp:host=a,port=1,family=ipv4;tcp:host=b,port=1', [('TCP4ClientEndpoint', {'_host': 'a', '_port': 1}), ('TCP4ClientEndpoint', {'_host': 'b', '_port': 1})]),
             # unix entries that name their socket by another key of the specification (runtime=yes: $XDG_RUNTIME_DIR/bus; dir= is for
             # listening only): such an entry never stands for the socket of ANOTHER entry, and the entries after it are still there
             ('unix:runtime=yes;tcp:host=a,port=1', [('UNIXClientEndpoint', {'_path': '/run/user/verif/bus'}), ('TCP4ClientEndpoint', {'_host': 'a', '_port': 1})]),
             ('unix:path=/run/a;unix:runtime=yes;unix:path=/run/b', [('UNIXClientEndpoint', {'_path': '/run/a'}), ('UNIXClientEndpoint', {'_path': '/run/user/verif/bus'}), ('UNIXClientEndpoint', {'_path': '/run/b'})]),
             ('unix:path=/run/a;unix:dir=/tmp;tcp:host=a,port=1', [('UNIXClientEndpoint', {'_path': '/run/a'}), ('TCP4ClientEndpoint', {'_host': 'a', '_port': 1})]),
             ('unix:dir=/tmp;unix:path=/run/b', [('UNIXClientEndpoint', {'_path': '/run/b'})])]
    saved = {k: os.environ.get(k) for k in ('DBUS_SESSION_BUS_ADDRESS', 'DBUS_SYSTEM_BUS_ADDRESS', 'XDG_RUNTIME_DIR')}
    try:
        os.environ['XDG_RUNTIME_DIR'] = '/run/user/verif'
        os.environ['DBUS_SESSION_BUS_ADDRESS'] = 'unix:path=/run/session;tcp:host=s,port=5'
        os.environ.pop('DBUS_SYSTEM_BUS_ADDRESS', None)
        table += [('session', [('UNIXClientEndpoint', {'_path': '/run/session'}), ('TCP4ClientEndpoint', {'_host': 's', '_port': 5})]),
                  ('system', [('UNIXClientEndpoint', {'_path': '/var/run/dbus/system_bus_socket'})])]
        for addr, want in table:
            try:
                eps = endpoints.getDBusEndpoints(object(), addr)
            except Exception as e:
                return 'getDBusEndpoints(%r) raised %s: %s' % (addr, type(e).__name__, e)
            got = [(type(e).__name__, {k: getattr(e, k, None) for k in w[1]}) for e, w in zip(eps, want)]
            if len(eps) != len(want) or got != want:
                return 'getDBusEndpoints(%r) = %r, the address lists %r' % (addr, [(type(e).__name__, getattr(e, '_path', None), getattr(e, '_host', None), getattr(e, '_port', None)) for e in eps], want)
            if any(not isinstance(getattr(e, 'dbus_args', None), dict) for e in eps):
                return 'getDBusEndpoints(%r): an endpoint without its address parameters' % addr
        # connect() walks exactly what the address lists: every kind is tried, in listed order, until one connects
        tried = []

        class Recording:
            def __init__(self, ep): self.ep = ep
            def __getattr__(self, n): return getattr(self.ep, n)

            def connect(self, factory):
                tried.append((type(self.ep).__name__, getattr(self.ep, '_path', None) or (self.ep._host, self.ep._port)))
                return defer.fail(failure.Failure(error.ConnectionRefusedError('refused')))
        orig = endpoints.getDBusEndpoints
        endpoints.getDBusEndpoints = lambda reactor, a, client=True: [Recording(e) for e in orig(reactor, a, client)]
        try:
            fired = []
            client.connect(object(), table[4][0]).addBoth(fired.append)
        finally:
            endpoints.getDBusEndpoints = orig
        want_tried = [('UNIXClientEndpoint', '/x'), ('TCP4ClientEndpoint', ('a', 1)), ('TCP4ClientEndpoint', ('b', 2)), ('UNIXClientEndpoint', '\0q')]
        if tried != want_tried:
            return 'connect(%r) tried %r, the address lists %r' % (table[4][0], tried, want_tried)
        if len(fired) != 1 or not isinstance(fired[0], failure.Failure):
            return 'connect() with every listed address refusing: Deferred fired %r' % (fired,)
    finally:
        for k, v in saved.items():
            if v is None:
                os.environ.pop(k, None)
            else:
                os.environ[k] = v
    return None


def bounded(tier, seed):
    rnd = random.Random(seed * 389 + 7)
    n = 1
    f = address_case()
    if f:
        return n, f, {'case': 'bus address lists'}
    stages = [0, 1, 2, 3, 'refuse', 'hello_error']
    for k in (0, 1, 2, 3):
        for reach in itertools.product([False, True], repeat=k):
            for stage in (stages if any(reach) else [0]):
                n += 1
                f = connect_case(list(reach), stage)
                if f:
                    return n, f, {'reachable': list(reach), 'stage': stage}
    for ncalls in (0, 1, 2, 3):
        for timers in itertools.product([False, True], repeat=ncalls):
            for explicit, introspected in ((0, 0), (1, 0), (0, 1), (2, 0), (0, 2), (1, 1)) if tier == 'thorough' or ncalls <= 2 else ((1, 1),):
                for dup in (False, True):
                    local = (n % 3 == 0)
                    n += 1
                    f = loss_case(rnd, ncalls, list(timers), explicit, introspected, dup, local)
                    if f:
                        return n, f, {'calls': ncalls, 'timers': list(timers), 'explicit': explicit, 'introspected': introspected, 'dup_cb': dup, 'local_disconnect': local}
    return n, None, None
