"""Reference DBus wire codec written from the DBus specification ("Marshaling"), independently of
txdbus.marshal: used as the concrete oracle of the replay / bounded harnesses for C01, C02, C03, C05, C19.
Values are plain python: ints, bool, float, str, lists, tuples (structs), dicts, Variant(sig, value)."""
import math
import random
import struct

ALIGN = {'y': 1, 'b': 4, 'n': 2, 'q': 2, 'i': 4, 'u': 4, 'x': 8, 't': 8, 'd': 8, 's': 4, 'o': 4, 'g': 1,
         'a': 4, '(': 8, 'v': 1, '{': 8, 'h': 4}
FIXED = {'y': 'B', 'n': 'h', 'q': 'H', 'i': 'i', 'u': 'I', 'x': 'q', 't': 'Q', 'd': 'd', 'h': 'I'}
BASIC = 'ybnqiuxtdsogh'


class Variant:
    def __init__(self, sig, value):
        self.sig, self.value = sig, value

    def __repr__(self):
        return 'Variant(%r, %r)' % (self.sig, self.value)


def ctlen(s, i=0):
    """length of the single complete type starting at s[i], per the type grammar; -1 if none"""
    if i >= len(s):
        return -1
    c = s[i]
    if c in BASIC or c == 'v':
        return 1
    if c == 'a':
        n = ctlen(s, i + 1)
        return -1 if n < 0 else 1 + n
    if c == '(':
        j = i + 1
        if j < len(s) and s[j] == ')':
            return -1                       # empty structs are not allowed
        while j < len(s) and s[j] != ')':
            n = ctlen(s, j)
            if n < 0:
                return -1
            j += n
        return -1 if j >= len(s) else j - i + 1
    if c == '{':
        j = i + 1
        if j >= len(s) or s[j] not in BASIC:
            return -1
        j += 1
        n = ctlen(s, j)
        if n < 0:
            return -1
        j += n
        return -1 if j >= len(s) or s[j] != '}' else j - i + 1
    return -1


def split(s):
    out, i = [], 0
    while i < len(s):
        n = ctlen(s, i)
        if n < 0:
            return None
        out.append(s[i:i + n])
        i += n
    return out


def valid(s):
    if split(s) is None or len(s) > 255:
        return False
    # dict entries only as array elements
    for i, c in enumerate(s):
        if c == '{' and (i == 0 or s[i - 1] != 'a'):
            return False
    return True


def pad(off, a):
    return b'\0' * ((a - off % a) % a)


def enc1(ct, v, off, le):
    """bytes of value v of single complete type ct, starting at (already aligned) offset off"""
    e = '<' if le else '>'
    c = ct[0]
    if c == 'b':
        return struct.pack(e + 'I', 1 if v else 0)
    if c in FIXED:
        return struct.pack(e + FIXED[c], v)
    if c in 'so':
        u = v.encode('utf-8')
        return struct.pack(e + 'I', len(u)) + u + b'\0'
    if c == 'g':
        u = v.encode('ascii')
        return struct.pack('B', len(u)) + u + b'\0'
    if c == 'a':
        et = ct[1:]
        items = list(v.items()) if isinstance(v, dict) else list(v)
        body = b''
        start = off + 4
        p = pad(start, ALIGN[et[0]])
        pos = start + len(p)
        for it in items:
            q = pad(pos, ALIGN[et[0]])
            body += q
            pos += len(q)
            b = enc1(et, it, pos, le)
            body += b
            pos += len(b)
        return struct.pack(e + 'I', len(body)) + p + body
    if c in '({':
        return enc_items(split(ct[1:-1]), list(v), off, le)
    if c == 'v':
        sg = enc1('g', v.sig, off, le)
        pos = off + len(sg)
        p = pad(pos, ALIGN[v.sig[0]])
        return sg + p + enc1(v.sig, v.value, pos + len(p), le)
    raise ValueError(ct)


def enc_items(cts, vals, off, le):
    out = b''
    pos = off
    for ct, v in zip(cts, vals):
        p = pad(pos, ALIGN[ct[0]])
        out += p
        pos += len(p)
        b = enc1(ct, v, pos, le)
        out += b
        pos += len(b)
    return out


def encode(sig, vals, off=0, le=True):
    return enc_items(split(sig), vals, off, le)


def dec1(ct, data, off, le):
    """(value, new offset); off already aligned"""
    e = '<' if le else '>'
    c = ct[0]
    if c == 'b':
        return struct.unpack_from(e + 'I', data, off)[0] != 0, off + 4
    if c in FIXED:
        f = e + FIXED[c]
        return struct.unpack_from(f, data, off)[0], off + struct.calcsize(f)
    if c in 'so':
        n = struct.unpack_from(e + 'I', data, off)[0]
        return data[off + 4: off + 4 + n].decode('utf-8'), off + 4 + n + 1
    if c == 'g':
        n = data[off]
        return data[off + 1: off + 1 + n].decode('ascii'), off + 1 + n + 1
    if c == 'a':
        et = ct[1:]
        n = struct.unpack_from(e + 'I', data, off)[0]
        pos = off + 4
        pos += len(pad(pos, ALIGN[et[0]]))
        end = pos + n
        vals = []
        while pos < end:
            pos += len(pad(pos, ALIGN[et[0]]))
            v, pos = dec1(et, data, pos, le)
            vals.append(v)
        if et[0] == '{':
            return {k: v for k, v in vals}, pos
        return vals, pos
    if c in '({':
        vals = []
        pos = off
        for t in split(ct[1:-1]):
            pos += len(pad(pos, ALIGN[t[0]]))
            v, pos = dec1(t, data, pos, le)
            vals.append(v)
        return vals, pos
    if c == 'v':
        sg, pos = dec1('g', data, off, le)
        pos += len(pad(pos, ALIGN[sg[0]]))
        v, pos = dec1(sg, data, pos, le)
        return v, pos
    raise ValueError(ct)


def decode(sig, data, off=0, le=True):
    vals, pos = [], off
    for ct in split(sig):
        pos += len(pad(pos, ALIGN[ct[0]]))
        v, pos = dec1(ct, data, pos, le)
        vals.append(v)
    return vals, pos - off


# ------------------------------------------------------------------ value / signature generation
def gen_signatures(maxlen, alphabet='ybnqiuxtdsogv', containers=True):
    """all valid single complete types up to maxlen over the given basic alphabet"""
    by_len = {1: [c for c in alphabet]}
    for n in range(2, maxlen + 1):
        cur = []
        if containers:
            for t in by_len.get(n - 1, []):
                cur.append('a' + t)
            # structs (1..3 fields)
            for parts in _compositions(n - 2, 3):
                for combo in _product([by_len.get(p, []) for p in parts]):
                    cur.append('(' + ''.join(combo) + ')')
            # dict entry arrays a{kv}
            if n >= 5:
                for k in 'sqi':
                    for t in by_len.get(n - 4, []):
                        cur.append('a{' + k + t + '}')
        by_len[n] = [t for t in dict.fromkeys(cur) if not t.startswith('{')]
    return by_len


def _compositions(total, maxparts):
    if total <= 0:
        return
    def rec(rem, k):
        if rem == 0:
            yield ()
            return
        if k == 0:
            return
        for first in range(1, rem + 1):
            for rest in rec(rem - first, k - 1):
                yield (first,) + rest
    yield from rec(total, maxparts)


def _product(lists):
    import itertools
    return itertools.product(*lists)


BOUNDS = {'y': (0, 255), 'n': (-2**15, 2**15 - 1), 'q': (0, 2**16 - 1), 'i': (-2**31, 2**31 - 1), 'u': (0, 2**32 - 1),
          'x': (-2**63, 2**63 - 1), 't': (0, 2**64 - 1), 'h': (0, 3)}


def gen_value(ct, rnd, depth=0):
    """a conforming value for ct in the reference representation (variants as Variant objects)"""
    c = ct[0]
    if c == 'b':
        return rnd.random() < 0.5
    if c in BOUNDS:
        lo, hi = BOUNDS[c]
        return rnd.choice([lo, hi, 0 if lo <= 0 else lo, rnd.randint(lo, hi)])
    if c == 'd':
        return rnd.choice([0.0, -1.5, 1e300, float('inf'), float('-inf'), float('nan'), 5e-324, 3.141592653589793])
    if c == 's':
        return rnd.choice(['', 'a', 'héllo', '世界', '\U0001F600', 'x' * rnd.randrange(0, 9), 'y' * rnd.choice([254, 255, 256, 257]) if depth == 0 and rnd.random() < 0.2 else 'z'])
    if c == 'o':
        return rnd.choice(['/', '/a', '/a/b_c', '/org/freedesktop/DBus', '/_/0/A9'])
    if c == 'g':
        return rnd.choice(['', 'i', 'a{sv}', '(ii)s', 'a' * 31 + 'y', 'i' * 255 if depth == 0 else 'ii', 'h', 'ah', 'a{sh}', 'ybnqiuxtdsogvh'])
    if c == 'a':
        et = ct[1:]
        n = rnd.choice([0, 0, 1, 2, 3, 3, 17 if depth == 0 else 2])
        if et[0] == '{':
            kt, vt = et[1], et[2:-1]
            d = {}
            for _ in range(n):
                k = gen_value(kt, rnd, depth + 1)
                if isinstance(k, float) and k != k:
                    k = 2.5                  # NaN keys cannot be looked up again: not a conforming dict
                d[k] = gen_value(vt, rnd, depth + 1)
            return d
        return [gen_value(et, rnd, depth + 1) for _ in range(n)]
    if c == '(':
        return [gen_value(t, rnd, depth + 1) for t in split(ct[1:-1])]
    if c == 'v':
        sg = rnd.choice(['i', 's', 'y', 'b', 'd', 'as', '(is)', 'a{sv}', 'x', 't', 'ai', 'n', 'q', 'u', 'o', 'g', '(yx)', 'aay', 'a(yv)', 'ad'] if depth < 2 else ['i', 's', 'x'])
        return Variant(sg, gen_value(sg, rnd, depth + 1))
    raise ValueError(ct)


def canon(ct, v):
    """what a decoder is expected to return for v (variants unwrapped, dict arrays as dicts, structs as lists)"""
    c = ct[0]
    if c == 'a':
        et = ct[1:]
        if et[0] == '{':
            kt, vt = et[1], et[2:-1]
            return {canon(kt, k): canon(vt, x) for k, x in (v.items() if isinstance(v, dict) else v)}
        return [canon(et, x) for x in v]
    if c == '(':
        return [canon(t, x) for t, x in zip(split(ct[1:-1]), v)]
    if c == 'v':
        return canon(v.sig, v.value)
    if c == 'b':
        return bool(v)
    return v


def same(a, b):
    if isinstance(a, float) and isinstance(b, float):
        return a == b or (math.isnan(a) and math.isnan(b))
    if isinstance(a, (list, tuple)) and isinstance(b, (list, tuple)):
        return len(a) == len(b) and all(same(x, y) for x, y in zip(a, b))
    if isinstance(a, dict) and isinstance(b, dict):
        return set(a) == set(b) and all(same(a[k], b[k]) for k in a)
    return type(a) is type(b) and a == b or (isinstance(a, (int, bool)) and isinstance(b, (int, bool)) and a == b and isinstance(a, bool) == isinstance(b, bool))
