"""Bounded harness for C17: declared DBus properties against a reference model, through the real dispatcher."""
import random

from . import wire_ref as W

SIG_VALUES = {'s': ['a', 'bb', ''], 'i': [0, -5, 7], 'u': [0, 9], 'b': [True, False], 'y': [1, 200], 'x': [2**40, -1], 'd': [1.5, -2.0, 3],
              'as': [['x'], []], '(is)': [(1, 'a'), (2, 'b')], 'o': ['/a', '/b/c'], 'ai': [[1, 2], []]}
BASIC = set('ybnqiuxtdsog')
PROPS_IFACE = 'org.freedesktop.DBus.Properties'


class Conn:
    def __init__(self):
        self.sent = []

    def sendMessage(self, m):
        self.sent.append(m)


def build(rnd):
    """random property declarations over a two-level class hierarchy; model[(iface, pname)] = dict(sig, access, emits, attr)"""
    from txdbus import objects, interface
    n_if = rnd.choice([1, 2, 3])
    names = ['org.verif.P%d' % k for k in range(n_if)]
    pnames = ['Alpha', 'Beta', 'Gamma']
    if rnd.random() < 0.25:
        # names whose concatenations coincide ('org.verif.A' + 'bbC' == 'org.verif.Ab' + 'bC' == ...): still different properties
        names = ['org.verif.A', 'org.verif.Ab', 'org.verif.Abb'][:n_if]
        pnames = ['bbC', 'bC', 'C']
    decl, model = {}, {}
    for n in names:
        props = {}
        for pn in rnd.sample(pnames, rnd.choice([1, 2, 3])):
            sig = rnd.choice(list(SIG_VALUES))
            r, w = rnd.choice([(True, False), (True, True), (False, True)])
            emits = rnd.choice([True, False, 'invalidates'])
            props[pn] = (sig, r, w, emits)
        decl[n] = props
    # an interface of the object's own may declare a signal that happens to be called PropertiesChanged: the change notification is still
    # the one of org.freedesktop.DBus.Properties
    own_signal = [interface.Signal('PropertiesChanged', 'sa{sv}as')] if rnd.random() < 0.3 else []
    ifaces = {n: interface.DBusInterface(n, *([interface.Property(pn, sig, readable=r, writeable=w, emitsOnChange=e) for pn, (sig, r, w, e) in ps.items()] + (own_signal if n == names[0] else [])), noRegister=True)
              for n, ps in decl.items()}
    base_if, derived_if = names[:1], names[1:]
    base_ns = {'dbusInterfaces': [ifaces[n] for n in base_if]}
    derived_ns = {'dbusInterfaces': [ifaces[n] for n in derived_if]}
    k = 0
    for n in names:
        for pn, (sig, r, w, e) in decl[n].items():
            k += 1
            attr = 'p%d' % k
            # a derived class may bind further properties of an interface it inherits, without declaring interfaces itself
            ns = base_ns if (n in base_if and rnd.random() < 0.7) else derived_ns
            ns[attr] = objects.DBusProperty(pn, interface=n)
            model[(n, pn)] = {'sig': sig, 'access': 'write' if (w and not r) else 'readwrite' if w else 'read',
                              'emits': 'true' if e is True else 'false' if e is False else e, 'attr': attr}
    if not derived_if and rnd.random() < 0.6:
        del derived_ns['dbusInterfaces']
    Base = type('PBase', (objects.DBusObject,), base_ns)
    if derived_if and rnd.random() < 0.35:
        # multiple inheritance: the interfaces (and their bindings) come from TWO base classes, each a DBusObject of its own
        Side = type('PSide', (objects.DBusObject,), derived_ns)
        if rnd.random() < 0.5:
            Side('/org/verif/SideAlone')            # an object of the second base class alone existed before
        Derived = type('PDerived', (Base, Side), {})
    else:
        Derived = type('PDerived', (Base,), derived_ns)
    if rnd.random() < 0.4:
        Derived = type('PLeaf', (Derived,), {})                # a further subclass that declares nothing
    conn = Conn()
    handler = objects.DBusObjectHandler(conn)
    obj = Derived('/org/verif/Props')
    init = {}
    for key, m in model.items():           # as user code does in __init__: every property has a value before the object is exported
        init[key] = rnd.choice(SIG_VALUES[m['sig']])
        setattr(obj, m['attr'], init[key])
    if Derived.__mro__[1] is Base and rnd.random() < 0.5:
        # an object of the BASE class is exported too and asked - in vain, as it must be - for what only the derived class has;
        # that refusal says nothing about objects of the derived class
        bobj = Base('/org/verif/BaseProps')
        bound_in_base = {m_['attr'] for m_ in model.values() if m_['attr'] in base_ns}
        try:
            for key, m_ in model.items():
                if m_['attr'] in bound_in_base:
                    setattr(bobj, m_['attr'], init[key])
            handler.exportObject(bobj)
            for (iname, pname), m_ in model.items():
                if m_['attr'] not in bound_in_base:
                    call(handler, conn, 'Get', 'ss', [iname, pname], path='/org/verif/BaseProps')
                    call(handler, conn, 'Set', 'ssv', [iname, pname, init[(iname, pname)]], path='/org/verif/BaseProps')
        except Exception:
            pass                                 # what the base object itself does with these names is not the subject here
    # values assigned BEFORE DBusObject.__init__ ran (a subclass __init__ that sets its properties first) are values all the same
    if rnd.random() < 0.3:
        early = Derived.__new__(Derived)
        for key, m_ in model.items():
            setattr(early, m_['attr'], init[key])
        objects.DBusObject.__init__(early, '/org/verif/Props')
        obj = early
    handler.exportObject(obj)
    del conn.sent[:]
    return handler, conn, obj, decl, model, init


def call(handler, conn, member, sig, body, path='/org/verif/Props'):
    from txdbus import message
    m = message.MethodCallMessage(path, member, interface=PROPS_IFACE, signature=sig, body=body)
    p = message.parseMessage(m.rawMessage, [])
    p.sender = ':1.8'
    del conn.sent[:]
    handler.handleMethodCallMessage(p)
    out = list(conn.sent)
    del conn.sent[:]
    return p, out


def reply_of(p, out, what):
    """(kind, value | error name, failure text)"""
    from txdbus import message
    reps = [m for m in out if getattr(m, 'reply_serial', None) == p.serial]
    if len(reps) != 1:
        return None, None, '%s: %d replies' % (what, len(reps))
    r = message.parseMessage(reps[0].rawMessage, [])
    if r._messageType == 3:
        return 'error', r.error_name, None
    return 'ok', r, None


def variant_sig_of(raw_reply):
    """signature carried by the variant in a Get reply (body signature 'v'): read from the wire"""
    r = raw_reply
    body = r.rawBody
    n = body[0]
    return body[1:1 + n].decode('ascii')


def changed_variant_sig(sig_msg):
    """type of the variant inside PropertiesChanged (body 'sa{sv}as' with one entry), read from the wire"""
    from . import wire_ref as W2
    vals, _ = decode_keep_variants('sa{sv}as', sig_msg.rawBody)
    d = vals[1]
    return list(d.values())[0]


def decode_keep_variants(sig, data):
    """decode with the reference codec but report, for a{sv}, the signature of each variant instead of its value"""
    import struct
    from . import wire_ref as W2
    # interface string
    n = struct.unpack_from('<I', data, 0)[0]
    pos = 4 + n + 1
    pos += len(W2.pad(pos, 4))
    alen = struct.unpack_from('<I', data, pos)[0]
    pos += 4
    pos += len(W2.pad(pos, 8))
    end = pos + alen
    out = {}
    while pos < end:
        pos += len(W2.pad(pos, 8))
        k, pos = W2.dec1('s', data, pos, True)
        sl = data[pos]
        vsig = data[pos + 1: pos + 1 + sl].decode('ascii')
        out[k] = vsig
        _, pos = W2.dec1('v', data, pos, True)
    return ['', out, []], pos


def on_wire(sig, v):
    """what a remote reader sees of a value held by a property declared `sig`: a DOUBLE property holding an integer reads as that double"""
    if sig == 'd' and isinstance(v, int):
        return float(v)
    if sig == 's' and isinstance(v, str):
        return str(v)
    return plain(v)


def plain(v):
    if isinstance(v, (list, tuple)):
        return [plain(x) for x in v]
    if isinstance(v, dict):
        return {k: plain(x) for k, x in v.items()}
    return v


def history(rnd, steps):
    try:
        handler, conn, obj, decl, model, init = build(rnd)
    except Exception as e:
        return 'declaring, initialising and exporting the object raised %s: %s' % (type(e).__name__, e)
    values = dict(init)
    what0 = 'declarations %r' % decl
    keys = list(model)
    for step in range(steps):
        op = rnd.choice(['assign', 'assign', 'get', 'get', 'set', 'set', 'getall', 'get_wrong', 'set_wrong', 'getall_wrong'])
        if op == 'assign':
            key = rnd.choice(keys)
            m = model[key]
            v = rnd.choice(SIG_VALUES[m['sig']])
            if m['sig'] in 'yiux' and rnd.random() < 0.4:
                # a value that already carries ANOTHER DBus type tag (a wrapper of a different width): the declaration decides
                from txdbus import marshal as _m
                other = rnd.choice([c for c in (_m.Byte, _m.Int32, _m.UInt32, _m.Int64, _m.UInt64, _m.Int16) if c.dbusSignature != m['sig']])
                small = abs(int(v)) % 100
                v = other(small)
            if m['sig'] == 's' and rnd.random() < 0.3:
                # text that carries the tag of another string-like type: a STRING property still reads as a string
                from txdbus import marshal as _m
                v = rnd.choice([_m.ObjectPath('/a/path'), _m.Signature('a{sv}')])
            if m['sig'] == 'd' and rnd.random() < 0.2:
                from txdbus import marshal as _m
                v = rnd.choice([_m.Int32(4), _m.Byte(2), True])
            del conn.sent[:]
            try:
                setattr(obj, m['attr'], v)
            except Exception as e:
                return '%s: local assignment of %r to %r raised %s: %s' % (what0, v, key, type(e).__name__, e)
            values[key] = v
            sigs = [s for s in conn.sent if getattr(s, 'member', None) == 'PropertiesChanged']
            if m['emits'] == 'true':
                if len(sigs) != 1:
                    return '%s: assigning %r (emits changes) produced %d PropertiesChanged signals' % (what0, key, len(sigs))
                from txdbus import message
                s = message.parseMessage(sigs[0].rawMessage, [])
                if s.interface != PROPS_IFACE or s.path != '/org/verif/Props' or s.body[0] != key[0] or list(s.body[1]) != [key[1]] or not W.same(s.body[1][key[1]], on_wire(m['sig'], v)) or s.body[2] != []:
                    return '%s: PropertiesChanged for %r = %r carried %r' % (what0, key, v, s.body)
                if m['sig'] in BASIC:
                    vs = changed_variant_sig(s)
                    if vs != m['sig']:
                        return '%s: PropertiesChanged for %r = %r carries a variant of type %r, declared %r' % (what0, key, v, vs, m['sig'])
            elif sigs:
                return '%s: assigning %r (emits=%s) produced a PropertiesChanged signal' % (what0, key, m['emits'])
        elif op in ('get', 'get_wrong'):
            if op == 'get':
                key = rnd.choice(keys)
            else:
                key = rnd.choice([('org.verif.Nope', 'Alpha'), (rnd.choice(list(decl)), 'Missing')])
                if key in model:
                    continue
            p, out = call(handler, conn, 'Get', 'ss', [key[0], key[1]])
            kind, r, f = reply_of(p, out, '%s: Get%r' % (what0, key))
            if f:
                return f
            m = model.get(key)
            if m is None or m['access'] == 'write':
                if kind != 'error':
                    return '%s: Get%r of an %s property answered with a value' % (what0, key, 'unknown' if m is None else 'unreadable')
            else:
                if kind != 'ok':
                    return '%s: Get%r failed with %s' % (what0, key, r)
                want = values.get(key)
                if not W.same(r.body[0], on_wire(m['sig'], want)):
                    return '%s: Get%r = %r, last assigned %r' % (what0, key, r.body[0], want)
                if want is not None and m['sig'] in BASIC and variant_sig_of(r) != m['sig']:
                    return '%s: Get%r returned a variant of type %r, declared %r' % (what0, key, variant_sig_of(r), m['sig'])
        elif op in ('set', 'set_wrong'):
            if op == 'set':
                key = rnd.choice(keys)
                sig = model[key]['sig']
            else:
                key = rnd.choice([('org.verif.Nope', 'Alpha'), (rnd.choice(list(decl)), 'Missing')])
                if key in model:
                    continue
                sig = 's'
            v = rnd.choice(SIG_VALUES[sig])
            if sig == 'd':
                v = float(v)            # a remote Set sends a DOUBLE; the integer among the values is for LOCAL assignment to a 'd' property
            p, out = call(handler, conn, 'Set', 'ssv', [key[0], key[1], _typed(sig, v)])
            kind, r, f = reply_of(p, out, '%s: Set%r' % (what0, key))
            if f:
                return f
            m = model.get(key)
            if m is None or m['access'] == 'read':
                if kind != 'error':
                    return '%s: Set%r of an %s property succeeded' % (what0, key, 'unknown' if m is None else 'read-only')
            else:
                if kind != 'ok':
                    return '%s: Set%r failed with %s' % (what0, key, r)
                values[key] = v
            # whatever happened, local reads agree with the model
            if m is not None:
                got = getattr(obj, m['attr'])
                if not W.same(plain(got), plain(values.get(key))):
                    return '%s: after Set%r the local value is %r, expected %r' % (what0, key, got, values.get(key))
        else:
            iname = rnd.choice(list(decl)) if op == 'getall' else 'org.verif.Nope'
            p, out = call(handler, conn, 'GetAll', 's', [iname])
            kind, r, f = reply_of(p, out, '%s: GetAll(%s)' % (what0, iname))
            if f:
                return f
            want = {pn: on_wire(m['sig'], values.get((iname, pn))) for (i, pn), m in model.items() if i == iname and m['access'] != 'write'}
            if any(v is None for v in want.values()):
                continue            # an unassigned property has no DBus value (None): encoding fails, outside the claim
            if kind != 'ok':
                return '%s: GetAll(%s) failed with %s' % (what0, iname, r)
            got = r.body[0]
            if set(got) != set(want) or not all(W.same(got[k], want[k]) for k in want):
                return '%s: GetAll(%s) = %r, readable properties are %r' % (what0, iname, got, want)
    return None


def _typed(sig, v):
    """a Python value that travels as a variant of exactly `sig`"""
    from txdbus import marshal
    if sig in marshal.variantClassMap:
        return marshal.variantClassMap[sig](v)
    if sig == 'b':
        return marshal.Boolean(v)
    if sig in ('s', 'd'):
        return v
    base = type(v) if type(v) in (list, tuple, dict) else object
    return type('T_' + str(abs(hash(sig))), (base,), {'dbusSignature': sig})(v)


def own_get_case():
    """an object whose own interface has methods called Get, Set and GetAll - implemented under the conventional dbus_ names and
    decorated for that interface - still answers org.freedesktop.DBus.Properties.Get / Set / GetAll with its properties"""
    from txdbus import interface, objects, message
    own = interface.DBusInterface('org.verif.Store', interface.Method('Get', arguments='s', returns='s'), interface.Method('Set', arguments='ss'),
                                  interface.Method('GetAll', returns='as'), interface.Property('Size', 'u', writeable=True), noRegister=True)

    class Store(objects.DBusObject):
        dbusInterfaces = [own]
        Size = objects.DBusProperty('Size')

        @objects.dbusMethod('org.verif.Store', 'Get')
        def dbus_Get(self, key):
            return 'value of ' + key

        @objects.dbusMethod('org.verif.Store', 'Set')
        def dbus_Set(self, key, value):
            return None

        @objects.dbusMethod('org.verif.Store', 'GetAll')
        def dbus_GetAll(self):
            return ['k']
    conn = Conn()
    handler = objects.DBusObjectHandler(conn)
    o = Store('/org/verif/Props')
    o.Size = 3
    handler.exportObject(o)
    p, out = call(handler, conn, 'Get', 'ss', ['org.verif.Store', 'Size'])
    kind, r, f = reply_of(p, out, 'Properties.Get on an object with a method Get of its own')
    if f or kind != 'ok' or r.body != [3]:
        return 'Properties.Get(org.verif.Store, Size) on an object whose own interface has a method Get: %s %r' % (kind, f or getattr(r, 'body', r))
    p, out = call(handler, conn, 'Set', 'ssv', ['org.verif.Store', 'Size', _typed('u', 9)])
    kind, r, f = reply_of(p, out, 'Properties.Set on an object with a method Set of its own')
    if f or kind != 'ok' or o.Size != 9:
        return 'Properties.Set(org.verif.Store, Size, 9) on an object whose own interface has a method Set: %s, the value is %r' % (kind, o.Size)
    p, out = call(handler, conn, 'GetAll', 's', ['org.verif.Store'])
    kind, r, f = reply_of(p, out, 'Properties.GetAll on an object with a method GetAll of its own')
    if f or kind != 'ok' or r.body != [{'Size': 9}]:
        return 'Properties.GetAll(org.verif.Store) on an object whose own interface has a method GetAll: %s %r' % (kind, f or getattr(r, 'body', r))
    m = message.MethodCallMessage('/org/verif/Props', 'Get', interface='org.verif.Store', signature='s', body=['k'])
    pm = message.parseMessage(m.rawMessage, [])
    pm.sender = ':1.8'
    del conn.sent[:]
    handler.handleMethodCallMessage(pm)
    if len(conn.sent) != 1 or getattr(conn.sent[0], 'body', None) != ['value of k']:
        return 'org.verif.Store.Get(k) answered %r' % [(type(x).__name__, getattr(x, 'error_name', None), x.body) for x in conn.sent]
    return None


def binding_variants_case():
    """(a) a derived class declares a NEWER version of its base's interface under the same name, with one more property, and binds it;
    (b) a property bound to the class after the class statement (a decorator, generated bindings): both are properties like any other"""
    from txdbus import interface, objects
    v1 = interface.DBusInterface('org.verif.Versioned', interface.Property('Alpha', 'i', writeable=True), noRegister=True)
    v2 = interface.DBusInterface('org.verif.Versioned', interface.Property('Alpha', 'i', writeable=True), interface.Property('Beta', 's', writeable=True), noRegister=True)

    class Old(objects.DBusObject):
        dbusInterfaces = [v1]
        alpha = objects.DBusProperty('Alpha')

    class New(Old):
        dbusInterfaces = [v2]
        beta = objects.DBusProperty('Beta', 'org.verif.Versioned')

    class Plain(objects.DBusObject):
        dbusInterfaces = [interface.DBusInterface('org.verif.Late', interface.Property('Late', 'u', writeable=True), noRegister=True)]
    Plain.late = objects.DBusProperty('Late')
    for what, cls, sets, iname in (('a derived class declaring a newer version of its base interface', New, {'alpha': 1, 'beta': 'b'}, 'org.verif.Versioned'),
                                   ('a property bound to the class after the class statement', Plain, {'late': 5}, 'org.verif.Late')):
        conn = Conn()
        handler = objects.DBusObjectHandler(conn)
        try:
            o = cls('/org/verif/Props')
            for a, v in sets.items():
                setattr(o, a, v)
            handler.exportObject(o)
        except Exception as e:
            return '%s: assigning its properties and exporting it raised %s: %s' % (what, type(e).__name__, e)
        want = {{'alpha': 'Alpha', 'beta': 'Beta', 'late': 'Late'}[a]: v for a, v in sets.items()}
        for pn, v in want.items():
            p, out = call(handler, conn, 'Get', 'ss', [iname, pn])
            kind, r, f = reply_of(p, out, '%s: Get(%s)' % (what, pn))
            if f or kind != 'ok' or r.body != [v]:
                return '%s: Get(%s, %s) answered %s %r, the value is %r' % (what, iname, pn, kind, f or getattr(r, 'body', r), v)
        p, out = call(handler, conn, 'GetAll', 's', [iname])
        kind, r, f = reply_of(p, out, '%s: GetAll' % what)
        if f or kind != 'ok' or r.body != [want]:
            return '%s: GetAll(%s) answered %s %r, the readable properties are %r' % (what, iname, kind, f or getattr(r, 'body', r), want)
    return None


def bounded(tier, seed):
    f = own_get_case()
    if f:
        return 1, f, {'case': 'own methods named Get / Set / GetAll'}
    f = binding_variants_case()
    if f:
        return 2, f, {'case': 'binding variants'}
    rnd = random.Random(seed * 811 + 29)
    n = 0
    for s in range(12000 if tier == 'thorough' else 50):
        n += 1
        f = history(rnd, 30)
        if f:
            return n * 30, f, {'scenario': s}
    return n * 30, None, None
