"""C01 - encoding then decoding any conforming value returns the same value; the decoder consumes what the encoder produced.

What decides: the round-trip relation DEC(ENC(v)) == v needs a structural induction over the type grammar and the value,
which the VC generator cannot carry out (it instantiates defining equations at given terms, it does not do induction over
an unbounded type structure).  The deciding part is therefore the BOUNDED stand-in below (labelled bounded, level
'exploration', never counted as proved): encode/decode round trips on the real code over enumerated signatures x
generated conforming values in every accepted input form x 8 offsets x both byte orders.

Deductive part proved on every run: (a) round-trip LEMMAS for the basic types - for every value, byte order, offset and
surrounding bytes, what the encoder's contract says it produces decodes, by the decoder's contract, to the same value with
consumed == produced (the inverse laws of struct and the codecs are the trusted part); (b) the contracts of
contracts/marshal_contracts.py, shared with C02: both directions
of the real codec equal the specification recursion (ENC*/DOFF*/DVALS*), the reported counts equal byte lengths, the byte
order and the aligned offset reach every nested call.  A change that makes encoder and decoder disagree has to break one
of the two against the specification, so it fails a named obligation here as well.
"""
from pyvc.engine import World
from pyvc.runner import Spec
from . import marshal_contracts as MC
from . import marshal_harness as H


def replay(function, clause, model):
    n, f, inp = H.bounded_plain_roundtrip('quick', 1)
    return {'reproduced': bool(f), 'input': inp, 'detail': f or 'no round-trip failure among %d cases' % n}


def run_bounded(tier, seed):
    n, f, inp = H.bounded_plain_roundtrip(tier, seed)
    return {'tool': 'encode/decode round trip on the real txdbus.marshal (value and byte-count equality)',
            'bound': '13 hand-picked container cases x 8 offsets x 2 byte orders; inferred-variant values; %d random (signature sequence, value, offset, byte order) cases over all single complete types up to length %d, values in list / tuple / dbusOrder-object / bytearray / wrapper form' % (80000 if tier == 'thorough' else 2400, 6 if tier == 'thorough' else 5),
            'evaluations': n, 'failures': [] if not f else [{'function': 'txdbus.marshal', 'clause': 'round-trip', 'input': inp, 'detail': f}]}


def build(tier='quick'):
    w = World()
    targets = []
    MC.add_pad_contracts(w, targets)
    MC.add_fixed_contracts(w, targets)
    MC.add_string_contracts(w, targets)
    binding = MC.add_container_contracts(w, targets)
    keep = [t for t in targets if 'pad[' not in t]           # the alignment closures are C02's own obligations
    sp = Spec('C01', w, lambda world: MC.MarshalModels(world), keep, replay=replay,
              bounded=[{'name': 'round-trip', 'run': run_bounded}],
              trusted=['struct.pack / unpack_from and the utf-8 / ascii codecs as uninterpreted functions with ranges'],
              assumed=['see C02: genCompleteTypes / sigFromPy contracts (C19), type grammar facts, generic table contract',
                       'DEC(ENC(v)) == v for the specification functions is NOT derived: the bounded round trip stands in for it'],
              notes=['level exploration: the deductive obligations support, the bounded round trip decides'],
              explanation='bounded round trips on the real code decide; both codec directions are additionally proved equal to the specification recursion (shared with C02)',
              design_ref='DESIGN.md 4/C01-C02')
    sp.lemmas = binding + leaf_roundtrip_lemmas()
    sp.level = 'exploration'
    return sp


def leaf_roundtrip_lemmas():
    """Round trip of the basic types as lemmas over the two contracts of each codec pair (what the encoder's postcondition says
    it produces, fed to what the decoder's postcondition says it returns), for every value in range, byte order, offset and
    surrounding bytes.  The inverse laws of struct / the codecs themselves are the trusted part:
        unpack(c, le, pack(c, le, v)) == v  (v in the range of c)      dec_utf8(enc_utf8(s)) == s      dec_ascii(enc_ascii(s)) == s"""
    import z3
    from pyvc.values import StringSort, IntSort, BoolSort
    from pyvc.models import packed, unpacked, ufun, int_range
    pre, post, s = z3.String('pre'), z3.String('post'), z3.String('s')
    v, le = z3.Int('v'), z3.Bool('le')
    out = []
    for code, (ch, width) in list(MC.FIXED.items()) + [('b', ('I', 4))]:
        lo, hi = int_range(ch)
        img = packed(ch, le, v)
        data = z3.Concat(pre, img, post)
        off = z3.Length(pre)
        law = z3.Implies(z3.And(v >= lo, v <= hi), unpacked(ch, le, img) == v)                   # trusted: struct round trip
        fact = z3.Length(img) == width                                                               # trusted: struct size
        decoded = unpacked(ch, le, z3.SubString(data, off, width))
        goal = decoded == v if code != 'b' else (decoded != 0) == (v != 0)
        dom = z3.And(v >= lo, v <= hi) if code != 'b' else z3.Or(v == 0, v == 1)
        out.append(('round trip of type %s at any offset, either byte order' % code, z3.Implies(z3.And(law, fact, dom), goal)))
    for code, lenfmt, enc in (('s', 'I', 'utf8'), ('g', 'B', 'ascii')):
        u = ufun('enc_' + enc, StringSort, StringSort)(s)
        n = z3.Length(u)
        lo, hi = int_range(lenfmt)
        w = 4 if lenfmt == 'I' else 1
        hdr = packed(lenfmt, le, n)
        data = z3.Concat(pre, hdr, u, z3.StringVal('\0'), post)
        off = z3.Length(pre)
        laws = z3.And(z3.Length(hdr) == w, z3.Implies(n <= hi, unpacked(lenfmt, le, hdr) == n),
                      ufun('dec_' + enc, StringSort, StringSort)(u) == s)                          # trusted: struct + codec round trip
        m = unpacked(lenfmt, le, z3.SubString(data, off, w))
        body = z3.SubString(data, off + w, m)
        goal = z3.And(ufun('dec_' + enc, StringSort, StringSort)(body) == s, w + m + 1 == w + n + 1)
        out.append(('round trip of type %s: length prefix, text, NUL; consumed == produced' % code, z3.Implies(z3.And(laws, n <= hi), goal)))
    return out
