"""C01 - encoding then decoding any conforming value returns the same value; the decoder consumes what the encoder produced.

What decides: the round-trip relation DEC(ENC(v)) == v needs a structural induction over the type grammar and the value,
which the VC generator cannot carry out (it instantiates defining equations at given terms, it does not do induction over
an unbounded type structure).  The deciding part is therefore the BOUNDED stand-in below (labelled bounded, level
'exploration', never counted as proved): encode/decode round trips on the real code over enumerated signatures x
generated conforming values in every accepted input form x 8 offsets x both byte orders.

Deductive support (the contracts of contracts/marshal_contracts.py, proved on every run, shared with C02): both directions
of the real codec equal the specification recursion (ENC*/DOFF*/DVALS*), the reported counts equal byte lengths, the byte
order and the aligned offset reach every nested call.  A change that makes encoder and decoder disagree has to break one
of the two against the specification, so it fails a named obligation here as well.
"""
from pyvc.engine import World
from pyvc.runner import Spec
from . import marshal_contracts as MC
from . import marshal_harness as H


def replay(function, clause, model):
    n, f, inp = H.bounded_plain_roundtrip('quick', 1)
    return {'reproduced': bool(f), 'input': inp, 'detail': f or 'no round-trip failure among %d cases' % n}


def run_bounded(tier, seed):
    n, f, inp = H.bounded_plain_roundtrip(tier, seed)
    return {'tool': 'encode/decode round trip on the real txdbus.marshal (value and byte-count equality)',
            'bound': '13 hand-picked container cases x 8 offsets x 2 byte orders; %d random (signature sequence, value, offset, byte order) cases over all single complete types up to length %d, values in list / tuple / dbusOrder-object / bytearray / wrapper form' % (2400 if tier == 'thorough' else 440, 6 if tier == 'thorough' else 5),
            'evaluations': n, 'failures': [] if not f else [{'function': 'txdbus.marshal', 'clause': 'round-trip', 'input': inp, 'detail': f}]}


def build(tier='quick'):
    w = World()
    targets = []
    MC.add_pad_contracts(w, targets)
    MC.add_fixed_contracts(w, targets)
    MC.add_string_contracts(w, targets)
    binding = MC.add_container_contracts(w, targets)
    keep = [t for t in targets if 'pad[' not in t]           # the alignment closures are C02's own obligations
    sp = Spec('C01', w, lambda world: MC.MarshalModels(world), keep, replay=replay,
              bounded=[{'name': 'round-trip', 'run': run_bounded}],
              trusted=['struct.pack / unpack_from and the utf-8 / ascii codecs as uninterpreted functions with ranges'],
              assumed=['see C02: genCompleteTypes / sigFromPy contracts (C19), type grammar facts, generic table contract',
                       'DEC(ENC(v)) == v for the specification functions is NOT derived: the bounded round trip stands in for it'],
              notes=['level exploration: the deductive obligations support, the bounded round trip decides'],
              explanation='bounded round trips on the real code decide; both codec directions are additionally proved equal to the specification recursion (shared with C02)',
              design_ref='DESIGN.md 4/C01-C02')
    sp.lemmas = binding
    sp.level = 'exploration'
    return sp
