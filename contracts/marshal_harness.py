"""Bounded differential harness for txdbus.marshal against the reference codec (contracts/wire_ref.py)."""
import random
import signal
import struct

from . import wire_ref as W


def to_tx(ct, v):
    """reference value -> what a txdbus caller would pass (variants: python values whose inferred / declared
    signature is the variant's signature)"""
    from txdbus import marshal
    c = ct[0]
    if c == 'a':
        et = ct[1:]
        if et[0] == '{':
            kt, vt = et[1], et[2:-1]
            return {to_tx(kt, k): to_tx(vt, x) for k, x in v.items()}
        return [to_tx(et, x) for x in v]
    if c == '(':
        return tuple(to_tx(t, x) for t, x in zip(W.split(ct[1:-1]), v))
    if c == 'v':
        inner = to_tx(v.sig, v.value)
        base = type(inner) if type(inner) in (list, dict, tuple, str, int, float, bool) else object
        if base is bool:
            return marshal.Boolean(inner)
        if base is float:
            return inner                                    # inferred 'd'
        return type('Tagged_' + str(abs(hash(v.sig))), (base,), {'dbusSignature': v.sig})(inner)
    return v


def _nest_list(depth, inner):
    v = inner
    for _ in range(depth - 1):
        v = [v]
    return v


def _nest_struct(depth, inner):
    v = inner
    for _ in range(depth - 1):
        v = [v]
    return v


def roundtrip_case(sig, vals, off, le):
    """returns failure text or None: encoder bytes == spec bytes; decoder(spec bytes) == value; round trip; counts"""
    from txdbus import marshal
    cts = W.split(sig)
    want = W.encode(sig, vals, off, le)
    tx_vals = [to_tx(ct, v) for ct, v in zip(cts, vals)]
    try:
        n, chunks = with_alarm(20, lambda: marshal.marshal(sig, tx_vals, off, le))
    except Timeout:
        return 'marshal(%r, %r, %d, le=%s) did not return within 20 s' % (sig, vals, off, le)
    except Exception as e:
        return 'marshal(%r, %r, %d, le=%s) raised %s: %s' % (sig, vals, off, le, type(e).__name__, e)
    got = b''.join(chunks)
    if got != want or n != len(want):
        return 'marshal(%r, %r, off=%d, le=%s) = %s (reported %d bytes); the specification gives %s' % (sig, vals, off, le, got.hex(), n, want.hex())
    canon = [W.canon(ct, v) for ct, v in zip(cts, vals)]
    prefix = b'\xaa' * off
    for label, data in (('spec bytes', prefix + want + b'\xbb\xbb'), ('own bytes', prefix + got)):
        try:
            m, out = with_alarm(20, lambda: marshal.unmarshal(sig, data, off, le))
        except Timeout:
            return 'unmarshal(%r, %s at %d, le=%s) did not return within 20 s' % (sig, label, off, le)
        except Exception as e:
            return 'unmarshal(%r, %s at %d, le=%s) raised %s: %s' % (sig, label, off, le, type(e).__name__, e)
        if m != len(want) or not W.same(out, canon):
            return 'unmarshal(%r, %s %s at %d, le=%s) = %r consuming %d; expected %r consuming %d' % (sig, label, want.hex(), off, le, out, m, canon, len(want))
    return None


def signature_pool(tier):
    bl = W.gen_signatures(6 if tier == 'thorough' else 5)
    pool = []
    for n, sigs in bl.items():
        pool += sigs
    return pool


def bounded_roundtrip(tier, seed):
    rnd = random.Random(seed)
    pool = signature_pool(tier)
    rnd.shuffle(pool)
    n = 0
    take = pool[:40000 if tier == 'thorough' else 1500]
    # fixed hard cases first: empty containers of 8-aligned elements, nested arrays, variants in both byte orders
    special = [('a{sv}u', [{}, 42]), ('axs', [[], 'x']), ('ya(ii)y', [1, [], 2]), ('aai', [[[1, 2], [3]]]), ('aaii', [[[1], []], 7]),
               ('v', [W.Variant('i', 0x01020304)]), ('v', [W.Variant('a{sv}', {'k': W.Variant('s', 'v')})]), ('uv', [7, W.Variant('t', 2**63)]),
               ('a(yv)', [[[1, W.Variant('o', '/a')], [8, W.Variant('g', 'ii')]]]), ('(y(nq)x)', [[1, [-2, 3], -4]]), ('a{s(id)}', [{'a': [1, 2.5]}]),
               ('d', [float('inf')]), ('s', ['世界']), ('ay', [[0, 255]]), ('ab', [[True, False]]),
               # nesting to the specification's limits (32 array levels, 32 struct levels) and a 255-byte signature
               ('a' * 32 + 'y', [_nest_list(32, [7])]), ('a' * 31 + 'x', [_nest_list(31, [])]), ('(' * 32 + 'yx' + ')' * 32, [_nest_struct(32, [1, -2])]),
               ('a' * 16 + '(' * 16 + 'n' + ')' * 16, [_nest_list(16, [_nest_struct(16, [-3])])]), ('y' + 'x' * 254, [1] + [2**40] * 254),
               ('d', [float('nan')]), ('ad', [[float('-inf'), 5e-324]]), ('s', ['\U0001F600' * 70]),
               # signatures as VALUES at the length limit (255), and a variant whose content type is that long
               ('g', ['i' * 255]), ('g', ['a' * 31 + 'y' + 'x' * 223]), ('ag', [['', 'i' * 255, 'i' * 254]]), ('v', [W.Variant('(' + 'i' * 253 + ')', list(range(253)))])]
    for sig, vals in special:
        for off in range(8):
            for le in (True, False):
                n += 1
                f = roundtrip_case(sig, vals, off, le)
                if f:
                    return n, f, {'signature': sig, 'values': repr(vals), 'offset': off, 'little_endian': le}
    # variants carry the signature of THEIR content: plain Python values of one Python type but different DBus types, one
    # after the other in one process (tuples of different shapes, objects declaring their signature per instance)
    class PerInstance(list):
        def __init__(self, sig, items):
            list.__init__(self, items)
            self.dbusSignature = sig
    seq = [((1, 2), '(ii)', [1, 2]), ((True, 7), '(bi)', [True, 7]), (('a', 1.5), '(sd)', ['a', 1.5]), ((1,), '(i)', [1]), ((1, 2), '(ii)', [1, 2]),
           ([1, 2], 'ai', [1, 2]), (['a'], 'as', ['a']), ({'k': 1}, 'a{si}', {'k': 1}), ({'k': 'v'}, 'a{ss}', {'k': 'v'}), (((1, 'x'), 2), '((is)i)', [[1, 'x'], 2]),
           (PerInstance('ay', [1, 2]), 'ay', [1, 2]), (PerInstance('(yy)', [1, 2]), '(yy)', [1, 2]), (PerInstance('an', [1, 2]), 'an', [1, 2])]
    from txdbus import marshal as _m
    # members of different DBus types - also when one Python type is a subclass of the other (bool / int, ObjectPath / str) -
    # make an array of variants, each carrying its own type
    V_ = W.Variant
    seq += [([1, True], 'av', [V_('i', 1), V_('b', True)]), ([True, 1], 'av', [V_('b', True), V_('i', 1)]),
            (['a', _m.ObjectPath('/x')], 'av', [V_('s', 'a'), V_('o', '/x')]), ([1, _m.UInt64(2**40)], 'av', [V_('i', 1), V_('t', 2**40)]),
            ({'k0': 1, 'k1': True}, 'a{sv}', {'k0': V_('i', 1), 'k1': V_('b', True)}), ([1, 2], 'ai', [1, 2]), ([True, False], 'ab', [True, False])]
    for pyv, vsig, ref in seq + seq[::-1]:
        for le in (True, False):
            n += 1
            want = W.encode('v', [W.Variant(vsig, ref)], 0, le)
            try:
                cnt, chunks = _m.marshal('v', [pyv], 0, le)
                got = b''.join(chunks)
            except Exception as e:
                got, cnt = '%s: %s' % (type(e).__name__, e), -1
            if got != want or cnt != len(want):
                return n, 'variant holding the Python value %r (content type %r) encoded as %s, the specification gives %s' % (
                    pyv, vsig, got.hex() if isinstance(got, bytes) else got, want.hex()), {'value': repr(pyv), 'content_signature': vsig, 'little_endian': le}
    # the element width of an array comes from its signature, not from the Python container holding the values: a bytearray
    # given for an array of wider integers is a sequence of small integers like any other; BOOLEAN is 0 or 1
    # whatever truthy value was given
    direct = [('an', [bytearray(b'\x01\x02\xfe')], [[1, 2, 254]]), ('aq', [bytearray(b'\x00\xff')], [[0, 255]]), ('ai', [bytearray(b'\x07')], [[7]]),
              ('au', [bytearray(b'\x01\x02')], [[1, 2]]), ('ax', [bytearray(b'\x01\x02\x03')], [[1, 2, 3]]), ('at', [bytearray(b'')], [[]]),
              ('(yan)', [(5, bytearray(b'\x09\x08'))], [[5, [9, 8]]]), ('a{sai}', [{'k': bytearray(b'\x01')}], [{'k': [1]}]), ('ay', [bytearray(b'ab')], [[97, 98]]),
              ('b', [2], [True]), ('b', [255], [True]), ('ab', [[2, 0, -1]], [[True, False, True]]), ('(bb)', [(3, 0)], [[True, False]]), ('a{sb}', [{'k': 7}], [{'k': True}])]
    for sig, pyvals, ref in direct:
        for off in (0, 1, 4, 6):
            for le in (True, False):
                n += 1
                want = W.encode(sig, ref, off, le)
                try:
                    cnt, chunks = _m.marshal(sig, pyvals, off, le)
                    got = b''.join(chunks)
                except Exception as e:
                    got, cnt = '%s: %s' % (type(e).__name__, e), -1
                if got != want or cnt != len(want):
                    return n, 'marshal(%r, %r, off=%d, le=%s) = %s, the specification gives %s for the values %r' % (
                        sig, pyvals, off, le, got.hex() if isinstance(got, bytes) else got, want.hex(), ref), {'signature': sig, 'values': repr(pyvals), 'offset': off, 'little_endian': le}
    for ct in take:
        for _ in range(2):
            vals = [W.gen_value(ct, rnd)]
            sig = ct
            if rnd.random() < 0.4:
                other = rnd.choice(take)
                sig = ct + other
                vals.append(W.gen_value(other, rnd))
            if not W.valid(sig):
                continue
            off = rnd.randrange(8)
            le = rnd.random() < 0.5
            n += 1
            f = roundtrip_case(sig, vals, off, le)
            if f:
                return n, f, {'signature': sig, 'values': repr(vals), 'offset': off, 'little_endian': le}
    return n, None, None


def alignment_table_case():
    """every (type code, offset) pair: the padding function yields zeros up to the specification's alignment"""
    from txdbus import marshal
    for c, a in W.ALIGN.items():
        for off in range(0, 64):
            p = marshal.pad[c](off)
            if p != b'\0' * ((a - off % a) % a):
                return 'pad[%r](%d) = %r, the specification aligns %r to %d' % (c, off, p, c, a)
    for off in range(0, 64):
        if marshal.pad['header'](off) != b'\0' * ((8 - off % 8) % 8):
            return 'header padding at %d' % off
    return None


class Timeout(BaseException):
    # not an Exception: code under test that catches Exception must not swallow the alarm
    pass


def with_alarm(seconds, fn):
    def handler(signum, frame):
        raise Timeout()
    old = signal.signal(signal.SIGALRM, handler)
    signal.setitimer(signal.ITIMER_REAL, seconds)
    try:
        return fn()
    finally:
        signal.setitimer(signal.ITIMER_REAL, 0)
        signal.signal(signal.SIGALRM, old)


# ------------------------------------------------------------------ C01: pure round trip (oracle = the value itself)
class _OrderedList(list):
    """a record that is itself a list (a namedtuple-like row) and declares its field order: the declared order counts"""
    def __init__(self, vals):
        list.__init__(self, reversed(vals))           # positional order differs from the declared one
        self.dbusOrder = ['f%d' % i for i in range(len(vals))]
        for n, v in zip(self.dbusOrder, vals):
            setattr(self, n, v)


class _Ordered:
    """an object declaring its field order (accepted wherever a struct is expected)"""
    def __init__(self, vals):
        self.dbusOrder = ['f%d' % i for i in range(len(vals))]
        for n, v in zip(self.dbusOrder, vals):
            setattr(self, n, v)


def input_forms(ct, v, rnd):
    """the same conforming value in another accepted Python form: structs as tuples / lists / dbusOrder objects,
    byte arrays as bytearray, typed wrappers for basic types"""
    from txdbus import marshal
    c = ct[0]
    if c == 'a':
        et = ct[1:]
        if et == 'y' and rnd.random() < 0.5:
            return bytearray(v)
        if et in ('n', 'q', 'i', 'u', 'x', 't') and v and all(isinstance(x, int) and 0 <= x <= 255 for x in v) and rnd.random() < 0.5:
            return bytearray(v)                   # small integers held in a byte buffer: still an array of the declared width
        if et[0] == '{':
            return {k: input_forms(et[2:-1], x, rnd) for k, x in v.items()}
        return [input_forms(et, x, rnd) for x in v]
    if c == '(':
        parts = [input_forms(t, x, rnd) for t, x in zip(W.split(ct[1:-1]), v)]
        r = rnd.random()
        return tuple(parts) if r < 0.4 else _Ordered(parts) if r < 0.55 else _OrderedList(parts) if r < 0.65 else parts
    wrap = {'y': 'Byte', 'n': 'Int16', 'q': 'UInt16', 'i': 'Int32', 'u': 'UInt32', 'x': 'Int64', 't': 'UInt64', 'o': 'ObjectPath', 'g': 'Signature'}
    if c in wrap and rnd.random() < 0.3 and hasattr(marshal, wrap[c]):
        return getattr(marshal, wrap[c])(v)
    if c == 'b' and rnd.random() < 0.3:
        return marshal.Boolean(v)
    return v


def plain_roundtrip_case(sig, vals, off, le, rnd):
    """encode, decode what was produced under the same signature / byte order / offset: equal values, equal counts"""
    from txdbus import marshal
    cts = W.split(sig)
    tx_vals = [input_forms(ct, to_tx(ct, v), rnd) if 'v' not in ct else to_tx(ct, v) for ct, v in zip(cts, vals)]
    try:
        n, chunks = marshal.marshal(sig, tx_vals, off, le)
    except Exception as e:
        return 'marshal(%r, %r, %d, le=%s) raised %s: %s' % (sig, vals, off, le, type(e).__name__, e)
    raw = b''.join(chunks)
    if n != len(raw):
        return 'marshal(%r, %r, %d) reports %d bytes and produces %d' % (sig, vals, off, n, len(raw))
    try:
        m, out = marshal.unmarshal(sig, b'\x55' * off + raw, off, le)
    except Exception as e:
        return 'unmarshal(%r, own bytes %s at %d, le=%s) raised %s: %s' % (sig, raw.hex(), off, le, type(e).__name__, e)
    want = [W.canon(ct, v) for ct, v in zip(cts, vals)]
    if not W.same(out, want):
        return 'round trip of %r under %r at offset %d (le=%s) gives %r' % (vals, sig, off, le, out)
    if m != n:
        return 'round trip of %r under %r at offset %d (le=%s): encoder produced %d bytes, decoder consumed %d' % (vals, sig, off, le, n, m)
    return None


def bounded_plain_roundtrip(tier, seed):
    rnd = random.Random(seed * 7919 + 1)
    pool = signature_pool(tier)
    rnd.shuffle(pool)
    take = pool[:40000 if tier == 'thorough' else 1200]
    n = 0
    special = [('a{sv}i', [{}, 42]), ('axs', [[], 'after']), ('a(ii)u', [[], 7]), ('ady', [[], 9]), ('(a{ss}s)', [[{}, 'tail']]),
               ('aax', [[[], [1]]]), ('v', [W.Variant('ax', [])]), ('yv', [3, W.Variant('(yx)', [1, 2])]), ('a{sv}', [{'a': W.Variant('d', float('-inf'))}]),
               ('(nqiuxt)', [[-2**15, 2**16 - 1, -2**31, 2**32 - 1, -2**63, 2**64 - 1]]), ('s', ['\U0001F600 é']), ('ay', [[]]), ('a(ay)', [[[[1, 2]], [[]]]]),
               # nesting to the specification's limits and a 255-byte signature
               ('a' * 32 + 'y', [_nest_list(32, [7])]), ('a' * 32 + 'x', [_nest_list(32, [])]), ('(' * 32 + 'yx' + ')' * 32, [_nest_struct(32, [1, -2])]),
               ('a' * 16 + '(' * 16 + 'n' + ')' * 16, [_nest_list(16, [_nest_struct(16, [-3])])]),
               ('y' + 'x' * 254, [1] + [2**40] * 254), ('a{s' + 'a' * 30 + 'i}', [{'k': _nest_list(30, [5])}]),
               ('g', ['i' * 255]), ('ag', [['', 'i' * 255, 'i' * 254]]), ('v', [W.Variant('(' + 'i' * 253 + ')', list(range(253)))])]
    for sig, vals in special:
        for off in range(8):
            for le in (True, False):
                n += 1
                f = plain_roundtrip_case(sig, vals, off, le, rnd)
                if f:
                    return n, f, {'signature': sig, 'values': repr(vals), 'offset': off, 'little_endian': le}
    # variants whose signature txdbus infers from plain Python values (incl. the mixed containers of the repaired defects)
    from txdbus import marshal as _m
    inferred = [([1, _m.Int64(2**40)], [1, 2**40]), ({'small': 1, 'big': _m.UInt64(2**63)}, {'small': 1, 'big': 2**63}), ({'a': -1, 'b': True}, {'a': -1, 'b': True}),
                ([5, True], [5, True]), (['a', _m.ObjectPath('/b')], ['a', '/b']), ((1, 'a'), [1, 'a']), ((1, 2), [1, 2]), ({_m.ObjectPath('/k'): 1}, {'/k': 1}),
                ({_m.Signature('i'): 's'}, {'i': 's'}), ([], []), ({}, {}), (bytearray(b'ab'), [97, 98]),
                # dictionaries with keys that are not strings, values of one type and of several
                ({1: 'one', 2: 'two'}, {1: 'one', 2: 'two'}), ({1: 'one', 2: 2}, {1: 'one', 2: 2}), ({True: 1.5, False: 'x'}, {True: 1.5, False: 'x'}),
                ({_m.ObjectPath('/a'): 1, _m.ObjectPath('/b'): 's'}, {'/a': 1, '/b': 's'}), ({_m.Byte(1): [1], _m.Byte(2): 'b'}, {1: [1], 2: 'b'})]
    # one and the same container object reachable twice (a finite value, not a cycle), and instances of SUBCLASSES of the plain types
    # that declare no DBus type of their own (enum members, application string / number classes): they travel as their base type
    import enum as _enum
    origin = (0, 0)
    row = [1, 2]
    Colour = _enum.IntEnum('Colour', 'RED GREEN')
    Flag = _enum.IntFlag('Flag', 'A B')
    Name = type('Name', (str,), {})
    Ratio = type('Ratio', (float,), {})
    Blob = type('Blob', (bytearray,), {})
    inferred += [((origin, origin), [[0, 0], [0, 0]]), ({'a': row, 'b': row}, {'a': [1, 2], 'b': [1, 2]}), ([row, row, row], [[1, 2]] * 3), ((origin, [origin, origin]), [[0, 0], [[0, 0], [0, 0]]]),
                 (Colour.GREEN, 2), ([Colour.RED, Colour.GREEN], [1, 2]), ({'c': Colour.RED, 'n': 'x'}, {'c': 1, 'n': 'x'}), (Flag.A | Flag.B, 3),
                 (Name('n'), 'n'), ({'k': Name('v')}, {'k': 'v'}), (Ratio(1.5), 1.5), ([Ratio(0.5), Ratio(2.0)], [0.5, 2.0]), (Blob(b'ab'), [97, 98])]
    # every ordered pair of small values - falsy ones included - as the two values of a dictionary and the members of a list: the inference
    # looks at each of them, in either order (containers of one Python class with different contents are outside the claim: first-element rule)
    atoms = [0, 7, 0.0, 1.5, '', 'x', False, True, [], [1], _m.UInt32(0), _m.Byte(0), {}, _m.ObjectPath('/'), bytearray()]
    plain_of = lambda v: [plain_of(x) for x in v] if isinstance(v, (list, tuple, bytearray)) else v
    for a_ in atoms:
        for b_ in atoms:
            if type(a_) is type(b_) and isinstance(a_, (list, dict, bytearray)) and a_ != b_:
                continue
            inferred.append(({'k0': a_, 'k1': b_}, {'k0': plain_of(a_), 'k1': plain_of(b_)}))
            inferred.append(([a_, b_, a_], [plain_of(a_), plain_of(b_), plain_of(a_)]))
    for pyv, want in inferred * 2:
        for off in ((0, 1, 4) if len(repr(pyv)) < 40 or 'k0' not in repr(pyv) else (0, 3)):
            for le in (True, False):
                n += 1
                try:
                    cnt, chunks = with_alarm(20, lambda: _m.marshal('v', [pyv], off, le))
                    raw = b''.join(chunks)
                    m2, out = with_alarm(20, lambda: _m.unmarshal('v', b'\x33' * off + raw, off, le))
                except (Exception, Timeout) as e:
                    return n, 'variant round trip of the Python value %r raised %s: %s' % (pyv, type(e).__name__, e), {'value': repr(pyv), 'offset': off, 'little_endian': le}
                if out != [want] or m2 != cnt or cnt != len(raw):
                    return n, 'variant round trip of %r at offset %d (le=%s) gives %r (%d/%d bytes), expected %r' % (pyv, off, le, out, m2, cnt, [want]), {'value': repr(pyv), 'offset': off, 'little_endian': le}
    for ct in take:
        for _ in range(2):
            vals, sig = [W.gen_value(ct, rnd)], ct
            while rnd.random() < 0.35:
                other = rnd.choice(take)
                if not W.valid(sig + other):
                    break
                sig += other
                vals.append(W.gen_value(other, rnd))
            off, le = rnd.randrange(8), rnd.random() < 0.5
            n += 1
            f = plain_roundtrip_case(sig, vals, off, le, rnd)
            if f:
                return n, f, {'signature': sig, 'values': repr(vals), 'offset': off, 'little_endian': le}
    return n, None, None
