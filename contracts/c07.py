"""C07 - the client speaks DBus only after the server's OK and never stalls in the handshake.

ClientAuthenticator.handleAuthMessage - handlers (_auth_*, authTryNextMethod) verified as part of it by
inlining - from EVERY state satisfying the class invariant, for every server line:
  * authenticated' and not authenticated  =>  the line just sent is BEGIN, a valid hex GUID was received
    (guid set), and on a UNIX transport this line answers our NEGOTIATE_UNIX_FD (AGREE_UNIX_FD or ERROR)
  * progress ("never stalls"): a normal return sends exactly one line; the only exception is DBusAuthenticationFailed
    (the protocol then closes the connection): unknown command, invalid OK, AGREE out of turn, mechanisms exhausted
  * mechanisms: REJECTED / ERROR pop the next mechanism off authOrder (preference order, each at most once) and
    the line sent is AUTH <that mechanism> ...
  * beginAuthentication: authOrder == reversed(preference) minus the first, first AUTH sent
  * class invariant: authenticated => guid set and not negotiating; negotiating => unixFDSupport and guid set.
Splitting of lines across reads and "BEGIN closes the line mode" are the protocol side (protocol_common, C04/C06).
Bounded (labelled): server line sequences <= 4 and full handshakes against a reference server for every subset of
accepted mechanisms x UNIX/non-UNIX x both answers to the descriptor negotiation.
"""
import itertools
import random

import z3

from pyvc.values import *  # noqa
from pyvc.engine import World, ClassSpec
from pyvc.runner import Spec
from pyvc.models import ufun
from .base import contract, TxModels
from .c06 import Models06, S_const

CA, AP = 'ClientAuthenticator', 'AuthProto'


def sendAuthMessage(self, msg): pass


class Models07(Models06):
    def __init__(self, world):
        TxModels.__init__(self, world)
        import getpass, hashlib, os
        self.register(getpass.getuser, self.m_getuser)
        self.register(os.urandom, lambda I, a, k: VBytes(I.ctx.fresh('urandom', StringSort)))
        self.register(hashlib.sha1, lambda I, a, k: VOpaque('sha1', I.ctx.fresh('sha1obj', IntSort)))
        self.extra_methods[('VOpaque', 'digest')] = lambda I, recv, *a: VBytes(I.ctx.fresh('digest', StringSort))

    def m_getuser(self, I, a, k):
        u = I.ctx.fresh('username', StringSort)
        I.ctx.assume(ufun('encodable_ascii', StringSort, BoolSort)(u))      # assumed: the login name is ASCII
        return VStr(u)

    def method(self, I, recv, name, args, kwargs):
        if isinstance(recv, VOpaque) and name == 'digest':
            return VBytes(I.ctx.fresh('digest', StringSort))
        return super().method(I, recv, name, args, kwargs)


def build_world():
    from txdbus import authentication as au
    from txdbus.error import DBusAuthenticationFailed
    w = World()
    w.add_class(ClassSpec(AP, None, {'g_nsent': INT, 'g_last': BYTES}, methods={'sendAuthMessage': sendAuthMessage}))
    w.add_class(ClassSpec(CA, au.ClientAuthenticator, {
        'authenticated': BOOL, 'protocol': Ref(AP), 'unixFDSupport': BOOL, 'guid': Opt(BYTES), 'cookie_dir': OPAQUE,
        'negotiatingUnixFD': BOOL, 'authOrder': ListT(BYTES), 'authMech': BYTES}))
    contract(w, 'iface.AuthProto.sendAuthMessage', {'self': Ref(AP), 'msg': BYTES}, fn=sendAuthMessage,
             modifies=lambda cx: [(cx.args['self'], AP + '.g_nsent'), (cx.args['self'], AP + '.g_last')],
             ensures=lambda cx: [('sent', z3.And(cx.new(cx.args['self']).g_nsent == cx.old(cx.args['self']).g_nsent + 1,
                                                 cx.new(cx.args['self']).g_last == cx.a('msg')))], assumed=True)
    contract(w, 'txdbus.authentication.ClientAuthenticator._usesUnixSocketTransport', {'self': Ref(CA), 'protocol': Ref(AP)},
             result=BOOL, assumed=True)
    contract(w, 'txdbus.authentication.ClientAuthenticator._authGetDBusCookie', {'self': Ref(CA), 'cookie_context': BYTES, 'cookie_id': BYTES},
             result=BYTES, raises={Exception: lambda cx: z3.BoolVal(True)}, may_raise_any=True, assumed=True)

    sv = z3.StringVal

    def inv(v):
        return z3.And(z3.Implies(v.authenticated, z3.And(z3.Not(v.guid.none), z3.Not(v.negotiatingUnixFD))),
                      z3.Implies(v.negotiatingUnixFD, z3.And(v.unixFDSupport, z3.Not(v.guid.none))))

    def lex(cx):
        ca = getattr(cx.ctx, 'cmd_args', None)
        return ca if ca is not None else (cx.a('line'), sv(''))

    def handle_pre(cx):
        o = cx.old(cx.args['self'])
        dec_ok = ufun('decodable_ascii', StringSort, BoolSort)
        for c_ in ('OK', 'REJECTED', 'ERROR', 'DATA', 'AGREE_UNIX_FD'):
            cx.ctx.assume(dec_ok(sv(c_)))
        return [('inv', inv(o)), ('handshake-in-progress', z3.Not(o.authenticated))]

    def handle_post(cx):
        s = cx.args['self']
        o, n = cx.old(s), cx.new(s)
        pr = VRef(o.protocol, AP)
        po, pn = cx.old(pr), cx.new(pr)
        cmd, args = lex(cx)
        is_ = lambda c: cmd == sv(c)
        one_line = pn.g_nsent == po.g_nsent + 1
        q0, q1 = o.authOrder.seqs[0], n.authOrder.seqs[0]
        popped = q0[z3.Length(q0) - 1]
        next_mech = z3.And(z3.Length(q0) >= 1, q0 == z3.Concat(q1, z3.Unit(popped)), n.authMech == popped,
                           z3.PrefixOf(z3.Concat(sv('AUTH '), popped), pn.g_last), z3.Not(n.authenticated),
                           n.negotiatingUnixFD == o.negotiatingUnixFD)
        begin = z3.And(pn.g_last == sv('BEGIN'), n.authenticated, z3.Not(n.negotiatingUnixFD), z3.Not(n.guid.none))
        return [
            ('inv', inv(n)),
            ('progress: exactly one line is sent', one_line),
            ('BEGIN-only-after-OK (and after the descriptor negotiation on UNIX transports)',
             z3.Implies(n.authenticated, z3.And(begin, z3.If(o.unixFDSupport,
                                                              z3.And(o.negotiatingUnixFD, z3.Or(is_('AGREE_UNIX_FD'), is_('ERROR'))),
                                                              is_('OK'))))),
            ('OK', z3.Implies(is_('OK'), z3.And(z3.Not(n.guid.none),
                                               z3.If(o.unixFDSupport, z3.And(pn.g_last == sv('NEGOTIATE_UNIX_FD'), n.negotiatingUnixFD, z3.Not(n.authenticated)),
                                                     begin)))),
            ('AGREE_UNIX_FD', z3.Implies(is_('AGREE_UNIX_FD'), begin)),
            ('ERROR', z3.Implies(is_('ERROR'), z3.If(o.negotiatingUnixFD, begin, next_mech))),
            ('REJECTED', z3.Implies(is_('REJECTED'), next_mech)),
            ('DATA', z3.Implies(is_('DATA'), z3.And(z3.Not(n.authenticated), q1 == q0,
                                                    z3.Implies(o.authMech == sv('EXTERNAL'), pn.g_last == sv('DATA')),
                                                    z3.Implies(z3.And(o.authMech != sv('EXTERNAL'), o.authMech != sv('DBUS_COOKIE_SHA1')), pn.g_last == sv('CANCEL'))))),
        ]

    def failed_when(cx):
        o = cx.old(cx.args['self'])
        cmd, args = lex(cx)
        is_ = lambda c: cmd == sv(c)
        known = z3.Or([is_(c) for c in ('OK', 'REJECTED', 'ERROR', 'DATA', 'AGREE_UNIX_FD')])
        exhausted = z3.Length(o.authOrder.seqs[0]) == 0
        strip = ufun('strip', StringSort, StringSort)
        is_hex = ufun('is_hex', StringSort, BoolSort)
        bad_ok = z3.And(is_('OK'), z3.Or(z3.Length(strip(args)) == 0, z3.Not(is_hex(strip(args)))))
        return z3.Or(z3.Not(known), bad_ok,
                     z3.And(is_('AGREE_UNIX_FD'), z3.Not(z3.And(o.unixFDSupport, o.negotiatingUnixFD))),
                     z3.And(z3.Or(is_('REJECTED'), z3.And(is_('ERROR'), z3.Not(o.negotiatingUnixFD))), exhausted))

    mods = lambda cx: [(cx.args['self'], CA + '.' + f) for f in ('authenticated', 'guid', 'negotiatingUnixFD', 'authOrder', 'authMech')] + \
        [('*', AP + '.g_nsent'), ('*', AP + '.g_last')]
    contract(w, 'txdbus.authentication.ClientAuthenticator.handleAuthMessage', {'self': Ref(CA), 'line': BYTES},
             requires=handle_pre, ensures=handle_post, raises={DBusAuthenticationFailed: failed_when}, modifies=mods)

    def begin_post(cx):
        s = cx.args['self']
        n = cx.new(s)
        pr = cx.args['protocol']
        pref = list(au.ClientAuthenticator.preference)
        rest = list(reversed(pref[1:]))
        q = n.authOrder.seqs[0]
        want = z3.Concat(*[z3.Unit(sv(x.decode('latin-1'))) for x in rest]) if len(rest) > 1 else z3.Unit(sv(rest[0].decode('latin-1')))
        return [('preference-order', z3.And(q == want, n.authMech == sv(pref[0].decode('latin-1')))),
                ('first-AUTH-sent', z3.And(cx.new(pr).g_nsent == cx.old(pr).g_nsent + 1,
                                           z3.PrefixOf(sv('AUTH ' + pref[0].decode('latin-1')), cx.new(pr).g_last))),
                ('inv', z3.And(inv(n), z3.Not(n.authenticated), n.guid.none))]

    contract(w, 'txdbus.authentication.ClientAuthenticator.beginAuthentication', {'self': Ref(CA), 'protocol': Ref(AP)},
             ensures=begin_post,
             modifies=lambda cx: [(cx.args['self'], CA + '.' + f) for f in ('authenticated', 'protocol', 'unixFDSupport', 'guid', 'cookie_dir', 'negotiatingUnixFD', 'authOrder', 'authMech')] +
             [('*', AP + '.g_nsent'), ('*', AP + '.g_last')])
    return w


# --------------------------------------------------------------------------- concrete side
def make_client(unix, preference=None):
    from twisted.internet import interfaces
    from zope.interface import implementer
    from txdbus import authentication as au
    import getpass

    class GP:
        @staticmethod
        def getuser(): return 'testuser'
    au.getpass = GP

    class Plain:
        def __init__(self): self.sent = []; self.transport = None
        def sendAuthMessage(self, m): self.sent.append(m)

    @implementer(interfaces.IUNIXTransport)
    class UT:
        def write(self, d): pass
        def writeSequence(self, d): pass
        def loseConnection(self): pass
        def getPeer(self): pass
        def getHost(self): pass
        def sendFileDescriptor(self, d): pass
    p = Plain()
    if unix:
        p.transport = UT()
    if preference is None:
        ca = au.ClientAuthenticator()
    else:
        # the documented way to restrict / reorder the mechanisms: the `preference` attribute (set on a subclass or an instance)
        ca = type('AppAuthenticator', (au.ClientAuthenticator,), {'preference': list(preference)})()
    ca.beginAuthentication(p)
    return ca, p


def reference_handshake(accepted, unix, fd_answer, refuse_with=None):
    """a spec-conforming server accepting exactly the mechanisms in `accepted`; a mechanism it does not accept is refused with
    REJECTED <list> or, for a server that does not know the mechanism's initial response, with ERROR"""
    def server(line, st):
        r = server_(line, st)
        if refuse_with is not None and r is not None and r.startswith(b'REJECTED') and line.startswith(b'AUTH '):
            return refuse_with
        return r

    def server_(line, st):
        cmd, _, args = line.partition(b' ')
        if cmd == b'AUTH':
            mech = args.split()[0] if args.split() else b''
            if mech in accepted:
                if mech == b'EXTERNAL':
                    st['ext'] = True
                    return b'DATA'
                if mech == b'DBUS_COOKIE_SHA1':
                    return b'REJECTED ' + b' '.join(sorted(accepted))      # no usable keyring in the sandbox: refuse
                # (a GUID is hexadecimal: servers print it in lower, upper or mixed case)
                return b'OK 1234DEADBEEF' if unix else b'OK 1234deadBEef'
            return b'REJECTED ' + b' '.join(sorted(accepted))
        if cmd == b'DATA' and st.get('ext'):
            return b'OK 1234deadbeef' if fd_answer != b'ERROR' else b'OK ABCDEF0123456789ABCDEF0123456789'
        if cmd == b'NEGOTIATE_UNIX_FD':
            return fd_answer
        if cmd == b'CANCEL':
            return b'REJECTED ' + b' '.join(sorted(accepted))
        if cmd == b'BEGIN':
            return None
        return b'ERROR'
    return server


def run_handshake(accepted, unix, fd_answer, preference=None, refuse_with=None):
    from txdbus.error import DBusAuthenticationFailed
    ca, p = make_client(unix, preference)
    server = reference_handshake(accepted, unix, fd_answer, refuse_with)
    accepted = set(accepted) & set(preference if preference is not None else [b'EXTERNAL', b'DBUS_COOKIE_SHA1', b'ANONYMOUS'])
    st = {}
    offered = []
    usable = set(accepted) - {b'DBUS_COOKIE_SHA1'}
    for _ in range(20):
        line = p.sent[-1]
        if line.startswith(b'AUTH '):
            offered.append(line.split()[1])
        if line == b'BEGIN':
            break
        reply = server(line, st)
        n = len(p.sent)
        try:
            ca.handleAuthMessage(reply)
        except DBusAuthenticationFailed:
            if usable:
                return 'handshake against a server accepting %r (unix=%s, fd answer %r) was given up after offering %r' % (sorted(accepted), unix, fd_answer, offered)
            pref_ = list(preference) if preference is not None else [b'EXTERNAL', b'DBUS_COOKIE_SHA1', b'ANONYMOUS']
            if offered != pref_[:len(offered)] or len(set(offered)) != len(offered):
                return 'mechanisms offered %r before giving up, not in the preference order %r / not at most once each' % (offered, pref_)
            return None
        if len(p.sent) == n and not ca.authenticated:
            return 'client sent nothing in answer to %r (stall)' % reply
    else:
        return 'handshake did not finish in 20 rounds: %r' % p.sent
    if not usable:
        return 'client sent BEGIN although no mechanism was accepted'
    if not ca.authenticated or p.sent[-1] != b'BEGIN':
        return 'handshake ended without BEGIN/authenticated: %r' % p.sent
    pref = list(preference) if preference is not None else [b'EXTERNAL', b'DBUS_COOKIE_SHA1', b'ANONYMOUS']
    if offered != pref[:len(offered)] or len(set(offered)) != len(offered):
        return 'mechanisms offered %r, not in the preference order %r / not at most once each' % (offered, pref)
    if unix and b'NEGOTIATE_UNIX_FD' not in p.sent:
        return 'UNIX transport: BEGIN without descriptor negotiation'
    return None


SERVER_LINES = [b'OK 1234', b'OK', b'OK zz', b'REJECTED EXTERNAL', b'ERROR', b'DATA', b'DATA 3132', b'AGREE_UNIX_FD', b'BOGUS', b'\xff\xfe', b'OK 12 34',
                b'\xffOK 1234', b'AGREE_UNIX_FD\xff', b'\x80REJECTED EXTERNAL']


def run_lines(lines, unix):
    """reference client model: returns failure text or None"""
    import binascii
    from txdbus.error import DBusAuthenticationFailed
    ca, p = make_client(unix)
    ok_seen, negotiating = False, False
    for i, line in enumerate(lines):
        n = len(p.sent)
        was_auth = ca.authenticated
        try:
            ca.handleAuthMessage(line)
        except DBusAuthenticationFailed:
            return None                      # the protocol closes the connection: allowed outcome
        except Exception as e:
            return 'line %r raised %s: %s' % (line, type(e).__name__, e)
        cmd, _, args = line.partition(b' ')
        if cmd == b'OK':
            try:
                ok_seen = ok_seen or (bool(args.strip()) and binascii.unhexlify(args.strip()) is not None)
            except Exception:
                pass
        if ca.authenticated and not was_auth:
            if p.sent[-1] != b'BEGIN':
                return 'authenticated without sending BEGIN last (%r)' % p.sent[-1]
            if not ok_seen:
                return 'lines %r: BEGIN sent although no valid OK was received' % (lines[:i + 1],)
            if unix and not (negotiating and cmd in (b'AGREE_UNIX_FD', b'ERROR')):
                return 'lines %r: UNIX transport, BEGIN without the server answering the descriptor negotiation' % (lines[:i + 1],)
            return None
        if len(p.sent) != n + 1:
            return 'lines %r: %d lines sent in answer to %r (stall or flood)' % (lines[:i + 1], len(p.sent) - n, line)
        negotiating = p.sent[-1] == b'NEGOTIATE_UNIX_FD' or (negotiating and cmd not in (b'AGREE_UNIX_FD', b'ERROR'))
    return None


def split_case():
    """the same server script under every single cut and byte-at-a-time: the handshake must complete identically"""
    from twisted.internet.testing import StringTransport
    from txdbus import protocol, authentication as au

    class GP:
        @staticmethod
        def getuser(): return 'testuser'
    au.getpass = GP

    class CP(protocol.BasicDBusProtocol):
        authenticator = au.ClientAuthenticator
    script = b'REJECTED ANONYMOUS\r\nREJECTED ANONYMOUS\r\nOK 1234deadbeef\r\n'
    splits = [[k] for k in range(1, len(script))] + [list(range(1, len(script)))]
    for cuts in splits:
        p = CP()
        t = StringTransport()
        p.makeConnection(t)
        prev = 0
        for c in cuts + [len(script)]:
            p.dataReceived(script[prev:c])
            prev = c
        sent = t.value()
        if not p._authenticated or not sent.endswith(b'BEGIN\r\n') or sent.count(b'AUTH ') != 3:
            return 'server script cut at %r: authenticated=%s, client sent %r' % (cuts if len(cuts) < 3 else 'every byte', p._authenticated, sent)
    return None


def cookie_lookup_case():
    """the client answers DBUS_COOKIE_SHA1 with the cookie stored under EXACTLY the id the server named (ids that are
    prefixes of one another, any order in the keyring file)"""
    import os, shutil, tempfile, time
    from txdbus import authentication as au
    tmp = tempfile.mkdtemp(prefix='verif_c07_')
    try:
        os.chmod(tmp, 0o700)
        now = str(int(time.time())).encode('ascii')
        entries = [(b'12', b'aa12'), (b'1', b'bb01'), (b'123', b'cc123'), (b'2', b'dd02'), (b'21', b'ee21')]
        with open(os.path.join(tmp, 'org_freedesktop_general'), 'wb') as f:
            for cid, ck in entries:
                f.write(cid + b' ' + now + b' ' + ck + b'\n')
        ca = au.ClientAuthenticator()
        ca.cookie_dir = tmp
        for cid, ck in entries:
            got = ca._authGetDBusCookie(b'org_freedesktop_general', cid)
            if got != ck:
                return 'cookie id %r looked up in a keyring holding ids %r gives %r, stored %r' % (cid, [e[0] for e in entries], got, ck)
        if ca._authGetDBusCookie(b'org_freedesktop_general', b'3') is not None:
            return 'a cookie id that is not in the keyring was resolved'
    finally:
        shutil.rmtree(tmp, ignore_errors=True)
    return None


def outside_protocol_case():
    """whatever the server says outside the protocol closes the connection: command words in another case, words that happen
    to name helpers of the implementation (the dispatch is by name), and an unterminated run of more than 16 KiB"""
    from twisted.internet.testing import StringTransport
    from txdbus import protocol, authentication as au
    from txdbus.error import DBusAuthenticationFailed
    protocol_words = {'REJECTED', 'OK', 'DATA', 'ERROR', 'AGREE_UNIX_FD'}
    words = {'begin', 'BEGIN', 'Begin', 'ok', 'Ok', 'data', 'error', 'rejected', 'agree_unix_fd', 'CANCEL', 'AUTH', 'NEGOTIATE_UNIX_FD', 'TryNextMethod', 'begin_auth'}
    for unix in (False, True):
        ca0, _p0 = make_client(unix)
        for name in dir(ca0):
            for prefix in ('_auth_', '_auth', 'auth_', 'auth'):
                if name.startswith(prefix) and name[len(prefix):]:
                    words.add(name[len(prefix):])
        for w_ in sorted(words - protocol_words):
            for arg in (b'', b' 1234deadbeef', b' x'):
                for prelude in ([], [b'REJECTED ANONYMOUS'], [b'OK 1234deadbeef']):
                    ca, p = make_client(unix)
                    try:
                        for l in prelude:
                            ca.handleAuthMessage(l)
                        if ca.authenticated:
                            continue
                        n0 = len(p.sent)
                        ca.handleAuthMessage(w_.encode('ascii') + arg)
                    except DBusAuthenticationFailed:
                        continue                 # closes: the prescribed outcome
                    except Exception as e:
                        return 'server line %r after %r raised %s: %s' % (w_.encode('ascii') + arg, prelude, type(e).__name__, e)
                    return 'server line %r (not a command of the protocol) after %r: the client carried on (sent %r, authenticated=%r) instead of closing' % (
                        w_.encode('ascii') + arg, prelude, p.sent[n0:], ca.authenticated)

    class GP:
        @staticmethod
        def getuser(): return 'testuser'
    au.getpass = GP

    class CP(protocol.BasicDBusProtocol):
        authenticator = au.ClientAuthenticator
    # an empty line is outside the protocol as well
    for prelude in (b'', b'REJECTED ANONYMOUS\r\n', b'DATA 00\r\n'):
        cp = CP()
        t = StringTransport()
        cp.makeConnection(t)
        t.clear()
        for part in (prelude, b'\r\n', b'OK 1234deadbeef\r\n'):
            if part and not t.disconnecting:
                cp.dataReceived(part)
        if not t.disconnecting or cp._authenticated or b'BEGIN' in t.value():
            return 'an empty line from the server (after %r): closed=%r, authenticated=%r, client wrote %r' % (prelude, t.disconnecting, cp._authenticated, t.value())
    for prelude in (b'', b'REJECTED ANONYMOUS\r\n', b'REJECTED ANONYMOUS\r\nDATA 00'):
        for chunk in (20000, 1024, 16385 - len(prelude.split(b'\r\n')[-1])):
            cp = CP()
            t = StringTransport()
            cp.makeConnection(t)
            junk = b'x' * 17000
            if prelude:
                cp.dataReceived(prelude)
            for i in range(0, len(junk), chunk):
                if t.disconnecting:
                    break
                cp.dataReceived(junk[i:i + chunk])
            if not t.disconnecting:
                return 'server sends %d bytes without a line end (after %r, reads of %d): the client keeps waiting instead of closing' % (len(junk), prelude, chunk)
    return None


def cookie_handshake_case():
    """full DBUS_COOKIE_SHA1 exchanges against a keyring in a temporary directory: a challenge naming a stored cookie is
    answered with the matching hash and the handshake completes; a challenge the client cannot answer (id not in the
    keyring, no such keyring, malformed data) is still ANSWERED - one line - and the handshake completes with the next
    mechanism the server accepts"""
    import binascii, hashlib, os, shutil, tempfile, time
    from txdbus.error import DBusAuthenticationFailed
    tmp = tempfile.mkdtemp(prefix='verif_c07h_')
    try:
        os.chmod(tmp, 0o700)
        now = str(int(time.time())).encode('ascii')
        with open(os.path.join(tmp, 'org_freedesktop_general'), 'wb') as f:
            f.write(b'7 ' + now + b' c00c1e\n' + b'12 ' + now + b' 5ec2e7\n')
        # cookie contexts are file names: anything but '/', '\\', white space and control characters is allowed in them
        for other in ('session-bus', 'org.example.ctx', 'ctx+1'):
            with open(os.path.join(tmp, other), 'wb') as f:
                f.write(b'3 ' + now + b' 0ddc00c1e\n')
        challenges = [('stored cookie', b'org_freedesktop_general 12 feedbeef', b'5ec2e7'), ('id not in the keyring', b'org_freedesktop_general 99 feedbeef', None),
                      ('stored cookie, context with a hyphen', b'session-bus 3 feedbeef', b'0ddc00c1e'), ('stored cookie, context with dots', b'org.example.ctx 3 feedbeef', b'0ddc00c1e'),
                      ('stored cookie, context with a plus sign', b'ctx+1 3 feedbeef', b'0ddc00c1e'),
                      ('no such keyring', b'no_such_context 12 feedbeef', None), ('two tokens only', b'org_freedesktop_general 12', None),
                      ('no keyring directory, under a home directory with a non-ASCII name', b'org_freedesktop_general 12 feedbeef', None),
                      ('empty challenge', b'', None)]
        # the keyring directory may be searchable by others (the specification forbids only reading and writing by them)
        runs = [(0o700, c) for c in challenges] + [(mode, challenges[0]) for mode in (0o711, 0o710, 0o701, 0o500)]
        for mode, (what, chal, cookie) in runs:
            os.chmod(tmp, mode)
            if mode != 0o700:
                what = '%s, keyring directory mode %o' % (what, mode)
            for unix in (False, True):
                ca, p = make_client(unix)
                ca.cookie_dir = tmp
                if 'non-ASCII' in what:
                    ca.cookie_dir = os.path.join(tmp, 'cl\u00e9-r\u00e9pertoire', '.dbus-keyrings')
                script = [b'REJECTED DBUS_COOKIE_SHA1 ANONYMOUS']
                rounds = 0
                try:
                    while not ca.authenticated and rounds < 12:
                        rounds += 1
                        last = p.sent[-1]
                        cmd = last.split(b' ')[0]
                        if cmd == b'AUTH':
                            mech = last.split(b' ')[1] if len(last.split(b' ')) > 1 else b''
                            reply = (b'DATA ' + binascii.hexlify(chal)) if mech == b'DBUS_COOKIE_SHA1' else b'OK 1234deadbeef' if mech == b'ANONYMOUS' else b'REJECTED DBUS_COOKIE_SHA1 ANONYMOUS'
                        elif cmd == b'DATA':
                            tokens = binascii.unhexlify(last[5:]).split()
                            good = cookie is not None and len(tokens) == 2 and tokens[1] == binascii.hexlify(
                                hashlib.sha1(b':'.join([chal.split()[2], tokens[0], cookie])).digest())
                            if cookie is not None and not good:
                                return 'challenge %r for the stored cookie %r answered with %r: not <client challenge> <sha1(server:client:cookie)>' % (chal, cookie, last)
                            reply = b'OK 1234deadbeef' if good else b'REJECTED DBUS_COOKIE_SHA1 ANONYMOUS'
                        elif cmd in (b'ERROR', b'CANCEL'):
                            reply = b'REJECTED DBUS_COOKIE_SHA1 ANONYMOUS'
                        elif cmd == b'NEGOTIATE_UNIX_FD':
                            reply = b'AGREE_UNIX_FD'
                        else:
                            return 'cookie handshake (%s): client sent %r' % (what, last)
                        n0 = len(p.sent)
                        ca.handleAuthMessage(reply)
                        if len(p.sent) != n0 + 1:
                            return 'cookie handshake (%s, unix=%s): the client sent %d lines in answer to %r (a stall unless exactly one)' % (what, unix, len(p.sent) - n0, reply)
                except DBusAuthenticationFailed as e:
                    return 'cookie handshake (%s, unix=%s): given up (%s) although the server accepts ANONYMOUS; client lines %r' % (what, unix, e, p.sent)
                except Exception as e:
                    return 'cookie handshake (%s, unix=%s) raised %s: %s' % (what, unix, type(e).__name__, e)
                if not ca.authenticated or p.sent[-1] != b'BEGIN':
                    return 'cookie handshake (%s, unix=%s) did not complete: client lines %r' % (what, unix, p.sent)
                used_cookie = any(l.startswith(b'DATA ') for l in p.sent)
                if (cookie is not None) != used_cookie and cookie is not None:
                    return 'cookie handshake (%s): the stored cookie was not used: %r' % (what, p.sent)
    finally:
        try:
            os.chmod(tmp, 0o700)
        except OSError:
            pass
        shutil.rmtree(tmp, ignore_errors=True)
    return None


def bounded(tier, seed):
    n = 0
    n += 1
    f = outside_protocol_case()
    if f:
        return n, f, {'case': 'server lines outside the protocol'}
    n += 1
    f = cookie_handshake_case()
    if f:
        return n, f, {'case': 'cookie handshake'}
    n += 1
    f = split_case()
    if f:
        return n, f, {'case': 'read splitting'}
    n += 1
    f = cookie_lookup_case()
    if f:
        return n, f, {'case': 'cookie lookup'}
    mechs = [b'EXTERNAL', b'DBUS_COOKIE_SHA1', b'ANONYMOUS']
    for r in range(0, 4):
        for acc in itertools.combinations(mechs, r):
            for unix in (False, True):
                for fd in ((b'AGREE_UNIX_FD', b'ERROR') if unix else (b'ERROR',)):
                    n += 1
                    f = run_handshake(set(acc), unix, fd)
                    if f:
                        return n, f, {'accepted': [a.decode() for a in acc], 'unix': unix, 'fd_answer': fd.decode()}
    # a server that refuses with ERROR instead of REJECTED; an application that set its own preference list
    for r in range(0, 4):
        for acc in itertools.combinations(mechs, r):
            for unix in (False, True):
                # ... bare, with an explanation in ASCII, in UTF-8, and in bytes that are no valid text in any encoding
                for refusal in (b'ERROR', b'ERROR "not supported"', b'ERROR "m\xc3\xa9canisme refus\xc3\xa9"', b'ERROR "m\xe9canisme refus\xe9"', b'ERROR \xff\xfe'):
                    n += 1
                    f = run_handshake(set(acc), unix, b'AGREE_UNIX_FD' if unix else b'ERROR', refuse_with=refusal)
                    if f:
                        return n, f + ' (mechanisms refused with %r)' % refusal, {'accepted': [a.decode() for a in acc], 'unix': unix, 'refused_with': repr(refusal)}
                for pref in ([b'ANONYMOUS'], [b'ANONYMOUS', b'EXTERNAL'], [b'DBUS_COOKIE_SHA1', b'ANONYMOUS'], [b'EXTERNAL']):
                    n += 1
                    f = run_handshake(set(acc), unix, b'AGREE_UNIX_FD' if unix else b'ERROR', preference=pref)
                    if f:
                        return n, f, {'accepted': [a.decode() for a in acc], 'unix': unix, 'preference': [x.decode() for x in pref]}
    depth = 4 if tier == 'thorough' else 3
    for L in range(1, depth + 1):
        for lines in itertools.product(SERVER_LINES if L <= 2 else SERVER_LINES[:8], repeat=L):
            for unix in (False, True):
                n += 1
                f = run_lines(list(lines), unix)
                if f:
                    return n, f, {'lines': [l.decode('latin-1') for l in lines], 'unix': unix}
    rnd = random.Random(seed)
    for _ in range(30000 if tier == 'thorough' else 60):
        lines = [rnd.choice(SERVER_LINES) for _ in range(rnd.randrange(4, 10))]
        unix = rnd.random() < 0.5
        n += 1
        f = run_lines(lines, unix)
        if f:
            return n, f, {'lines': [l.decode('latin-1') for l in lines], 'unix': unix}
    return n, None, None


def replay(function, clause, model):
    n, f, inp = bounded('quick', 17)
    return {'reproduced': bool(f), 'input': inp, 'detail': f or 'no failing server line sequence among %d' % n}


def run_bounded(tier, seed):
    n, f, inp = bounded(tier, seed)
    return {'tool': 'handshakes against a reference server (every subset of accepted mechanisms x UNIX/non-UNIX x both negotiation answers) and server line sequences through the real ClientAuthenticator',
            'bound': 'all 8 mechanism subsets x 3 transport cases; all line sequences of length <= %d over a 14/8-line alphabet x 2 transports; random length 4..9' % (4 if tier == 'thorough' else 3),
            'evaluations': n, 'failures': [] if not f else [{'function': 'txdbus.authentication.ClientAuthenticator', 'clause': 'handshake', 'input': inp, 'detail': f}]}


def build(tier='quick'):
    w = build_world()
    return Spec('C07', w, lambda world: Models07(world),
                ['txdbus.authentication.ClientAuthenticator.handleAuthMessage',
                 'txdbus.authentication.ClientAuthenticator.beginAuthentication'],
                replay=replay, bounded=[{'name': 'client-handshakes', 'run': run_bounded}],
                trusted=['strip / unhexlify / hexlify / ASCII decoding / sha1 / urandom / getuser are uninterpreted functions shared by code and specification'],
                assumed=['protocol.sendAuthMessage sends exactly the line it is given', '_usesUnixSocketTransport returns a boolean (Twisted interface query)',
                         '_authGetDBusCookie (files, pwd) returns bytes or raises', 'getpass.getuser() returns an ASCII login name'],
                notes=['the DBUS_COOKIE_SHA1 data exchange needs a user keyring: its success path is outside the sandbox; that the client answers DATA with one line is proved',
                       'line splitting across reads and the switch to binary mode: protocol_common (C04/C06)'],
                explanation='handleAuthMessage (handlers inlined) against the client rules from every invariant state; beginAuthentication; handshakes by bounded enumeration against a reference server',
                design_ref='DESIGN.md 4/C07')
