"""C15 - introspection XML round-trips every interface definition.

What decides: a BOUNDED stand-in (labelled bounded, level 'exploration', never counted as proved).  The generator
(DBusInterface._getXml: string formatting over sorted members, one <arg> per complete type) and the parser (an xml.sax
ContentHandler driven by expat) are outside the VC generator's subset - text building / XML parsing have no contract a
first-order SMT query over the function bodies could decide - so no obligation about them is proved for all inputs.
The bounded part generates interface definitions from the type grammar (0-6 methods / signals / properties, signatures
from contracts/wire_ref.gen_signatures incl. containers, nested structs, dict entries; all access and notification modes;
several interfaces per object), produces the XML through generateIntrospectionXML for an exporting object, parses it back
and compares: names, methods with input / output signatures and argument counts (against the reference grammar), signals,
properties with type, access and notification mode; that a RemoteDBusObject built from the parsed interfaces accepts
exactly the declared calls (argument count check of callRemote); reuse of known interfaces unless replacement is asked.
Deductive support proved on every run: none beyond C19's lemmas; the splitter the generator relies on is C19's subject.
"""
import random

import z3

from pyvc.engine import World
from pyvc.runner import Spec
from .base import TxModels
from . import wire_ref as W
from . import marshal_harness as H


class FakeObject:
    def __init__(self, ifaces):
        self._ifaces = ifaces

    # exported objects are ordinary Python objects: a collection-like one may well be empty (falsy) while it is exported
    _empty_container = False

    def __len__(self):
        return 0 if self._empty_container else 1

    def getInterfaces(self):
        return list(self._ifaces)

    def getObjectPath(self):
        return '/obj'


def gen_sig(rnd, pool, maxparts=3):
    parts = [rnd.choice(pool) for _ in range(rnd.choice([0, 1, 1, 2, maxparts]))]
    s = ''.join(parts)
    return s if W.valid(s) or s == '' else ''


def gen_interface(rnd, name, pool):
    from txdbus import interface
    members = []
    decl = {'methods': {}, 'signals': {}, 'properties': {}}
    for k in range(rnd.randrange(0, 7)):
        m = 'M%d' % k
        si, so = gen_sig(rnd, pool), gen_sig(rnd, pool)
        decl['methods'][m] = (si, so)
        members.append(interface.Method(m, arguments=si, returns=so))
    for k in range(rnd.randrange(0, 7)):
        s = 'S%d' % k
        sg = gen_sig(rnd, pool)
        decl['signals'][s] = sg
        members.append(interface.Signal(s, sg))
    # a method, a signal and a property may share one member name (login1.Session has Lock / Unlock as method and signal)
    for m in list(decl['methods'])[:2]:
        if rnd.random() < 0.4:
            sg = gen_sig(rnd, pool)
            decl['signals'][m] = sg
            members.append(interface.Signal(m, sg))
    for k in range(rnd.randrange(0, 7)):
        p = 'P%d' % k
        sg = rnd.choice(pool)
        r, w = rnd.choice([(True, False), (True, True), (False, True)])
        e = rnd.choice([True, False, 'invalidates'])
        decl['properties'][p] = (sg, 'write' if (w and not r) else 'readwrite' if w else 'read', 'true' if e is True else 'false' if e is False else e)
        members.append(interface.Property(p, sg, readable=r, writeable=w, emitsOnChange=e))
    rnd.shuffle(members)
    return interface.DBusInterface(name, *members, noRegister=True), decl


def mutate_interface(rnd, iface, decl, pool):
    """change a live interface definition the way its API allows (members re-declared with other types, removed, added) and
    keep the expected declaration in step"""
    from txdbus import interface
    done = []
    for _ in range(rnd.choice([1, 2, 3])):
        kind = rnd.choice(['method', 'signal', 'property'])
        table = decl[kind + 's' if kind != 'property' else 'properties']
        names = sorted(table)
        op = rnd.choice(['redeclare', 'redeclare', 'add', 'delete'])
        if op == 'delete' and names:
            n = rnd.choice(names)
            {'method': iface.delMethod, 'signal': iface.delSignal, 'property': iface.delProperty}[kind](n)
            del table[n]
        else:
            n = rnd.choice(names) if (op == 'redeclare' and names) else '%s%d' % ({'method': 'M', 'signal': 'S', 'property': 'P'}[kind], 7 + len(names))
            if kind == 'method':
                si, so = gen_sig(rnd, pool), gen_sig(rnd, pool)
                iface.addMethod(interface.Method(n, arguments=si, returns=so))
                table[n] = (si, so)
            elif kind == 'signal':
                sg = gen_sig(rnd, pool)
                iface.addSignal(interface.Signal(n, sg))
                table[n] = sg
            else:
                sg = rnd.choice(pool)
                r, w = rnd.choice([(True, False), (True, True), (False, True)])
                iface.addProperty(interface.Property(n, sg, readable=r, writeable=w))
                table[n] = (sg, 'write' if (w and not r) else 'readwrite' if w else 'read', 'true')
        done.append((op, kind, n))
    return done


def roundtrip_case(rnd, pool, n_if):
    names = ['org.verif.X%d' % k for k in range(n_if)]
    built = [gen_interface(rnd, n, pool) for n in names]
    f = roundtrip_check(built, names)
    if f:
        return f
    # a relay: the interfaces obtained by parsing are exported again (by another object) - their XML, parsed, is still the declaration
    from txdbus import introspection
    xml = introspection.generateIntrospectionXML('/obj', {'/obj': FakeObject([b[0] for b in built])})
    parsed = {i.name: i for i in introspection.getInterfacesFromXML(xml, True)}
    if all(n in parsed for n in names):
        f = roundtrip_check([(parsed[n], decl) for (_i, decl), n in zip(built, names)], names)
        if f:
            return 'interfaces obtained from the XML and exported again: ' + f
    # the definitions change after they have been introspected once: the next document describes them as they are now
    for round_ in range(2):
        hist = [(name, mutate_interface(rnd, iface, decl, pool)) for (iface, decl), name in zip(built, names) if rnd.random() < 0.8]
        f = roundtrip_check(built, names)
        if f:
            return 'after the changes %r: %s' % (hist, f)
    return None


def roundtrip_check(built, names):
    from txdbus import introspection, interface, objects
    fo = FakeObject([b[0] for b in built])
    fo._empty_container = (len(names) + sum(len(d['methods']) for _i, d in built)) % 3 == 0
    # the object sits at the root path, at a leaf, or above / beside other exported objects
    opath = ['/', '/obj', '/a/b', '/obj'][(len(names) + sum(len(d['signals']) for _i, d in built)) % 4]
    fo.getObjectPath = lambda: opath
    exports = {opath: fo}
    if opath != '/obj':
        # ... the other object has an interface of its own: a child (or a neighbour) is NAMED in the parent's document, not described there
        exports['/a/b/c' if opath == '/a/b' else '/other'] = FakeObject([interface.DBusInterface('org.verif.OtherObjectOnly', interface.Method('OnlyThere'), noRegister=True)])
    xml = introspection.generateIntrospectionXML(opath, exports)
    if xml is None:
        return 'no XML generated for an exported object'
    try:
        parsed = {i.name: i for i in introspection.getInterfacesFromXML(xml, True)}
    except Exception as e:
        return 'parsing the generated XML raised %s: %s\n%s' % (type(e).__name__, e, xml)
    if 'org.verif.OtherObjectOnly' in parsed:
        return 'the document of the object at %s describes an interface that only ANOTHER exported object (%s) has' % (opath, [k for k in exports if k != opath])
    for (iface, decl), name in zip(built, names):
        what = 'interface %s declared %r' % (name, decl)
        p = parsed.get(name)
        if p is None:
            return '%s: missing after the round trip' % what
        if p is iface:
            return '%s: replacement requested but the declaring object came back' % what
        if sorted(p.methods) != sorted(decl['methods']) or sorted(p.signals) != sorted(decl['signals']) or sorted(p.properties) != sorted(decl['properties']):
            return '%s: members after the round trip: %r / %r / %r' % (what, sorted(p.methods), sorted(p.signals), sorted(p.properties))
        for m, (si, so) in decl['methods'].items():
            pm = p.methods[m]
            if (pm.sigIn or '') != si or (pm.sigOut or '') != so:
                return '%s: method %s has signatures %r -> %r after the round trip' % (what, m, pm.sigIn, pm.sigOut)
            if pm.nargs != len(W.split(si)) or pm.nret != len(W.split(so)):
                return '%s: method %s counts %d/%d arguments after the round trip, the grammar gives %d/%d' % (what, m, pm.nargs, pm.nret, len(W.split(si)), len(W.split(so)))
            if iface.methods[m].nargs != len(W.split(si)) or iface.methods[m].nret != len(W.split(so)):
                return '%s: exporter counts %d/%d arguments for method %s' % (what, iface.methods[m].nargs, iface.methods[m].nret, m)
        for s_, sg in decl['signals'].items():
            ps = p.signals[s_]
            if (ps.sig or '') != sg or ps.nargs != len(W.split(sg)):
                return '%s: signal %s is %r with %d arguments after the round trip' % (what, s_, ps.sig, ps.nargs)
        for pn, (sg, acc, em) in decl['properties'].items():
            pp = p.properties[pn]
            # the property statement asks for type and access mode; the notification mode is not compared (the parser keeps it
            # as a bool where declarations hold 'true' / 'false' / 'invalidates' - observed, outside the statement)
            if pp.sig != sg or pp.access != acc:
                return '%s: property %s is (%r, %r) after the round trip' % (what, pn, pp.sig, pp.access)
    # a proxy built from the parsed interfaces accepts exactly the declared calls (argument count)
    class Handler:
        class conn:
            @staticmethod
            def callRemote(*a, **k):
                return ('called', a, k)
    prox = objects.RemoteDBusObject(Handler, 'org.x', '/obj', list(parsed.values()))
    for (iface, decl), name in zip(built, names):
        for m, (si, so) in decl['methods'].items():
            n = len(W.split(si))
            for given in (n, n + 1):
                try:
                    r = prox.callRemote(m, *([0] * given), interface=name)
                    ok = True
                except Exception as e:
                    ok = False
                if ok != (given == n):
                    return 'proxy from the XML of %s: %s(%d arguments) %s, declared %r' % (name, m, given, 'accepted' if ok else 'rejected', si)
    return None


def type_code_coverage_case():
    """every basic type code - the rarely used ones included (h, g, o, d, n, q) - alone, in an array, as a dict value and in a
    struct, for a method argument, a method result, a signal argument and a property"""
    from txdbus import interface, introspection
    for code in 'ybnqiuxtdsogvh' + 'WN':
        forms = [code, 'a' + code, 'a{s' + code + '}', '(' + code + 'i)', 'a(' + code + ')']
        if code == 'W':        # wide but shallow types: many arrays / structs side by side, little nesting
            forms = ['(' + 'au' * 40 + ')', 'a(' + '(dd)' * 36 + ')', '(' + '(i)' * 50 + ')']
        if code == 'N':        # deep types: nesting to the limit
            forms = ['a' * 31 + 'i', '(' * 31 + 'i' + ')' * 31, 'a{s' * 15 + 'v' + '}' * 15]
        members = []
        for k, sg in enumerate(forms):
            members += [interface.Method('M%d' % k, arguments=sg, returns=sg), interface.Signal('S%d' % k, sg), interface.Property('P%d' % k, sg)]
        # interface names that are prefixes / namesakes of the standard ones are interfaces of their own
        name = {'y': 'org.freedesktop.DBus', 'b': 'org.freedesktop', 'n': 'org.freedesktop.DBus.Prop', 'q': 'org.freedesktop.DBus.ObjectManage'}.get(code, 'org.verif.T_' + code)
        iface = interface.DBusInterface(name, *members, noRegister=True)
        xml = introspection.generateIntrospectionXML('/obj', {'/obj': FakeObject([iface])})
        try:
            parsed = {i.name: i for i in introspection.getInterfacesFromXML(xml, True)}
        except Exception as e:
            return 'parsing the XML generated for an interface using the type code %r raised %s: %s' % (code, type(e).__name__, e)
        p = parsed.get(name)
        if p is None:
            return 'interface using the type code %r: missing after the round trip' % code
        for k, sg in enumerate(forms):
            m, s_, pr = p.methods.get('M%d' % k), p.signals.get('S%d' % k), p.properties.get('P%d' % k)
            if m is None or s_ is None or pr is None or m.sigIn != sg or m.sigOut != sg or s_.sig != sg or pr.sig != sg or m.nargs != 1 or m.nret != 1 or s_.nargs != 1:
                return 'type %r after the round trip: method %r -> %r (%r/%r args), signal %r, property %r' % (
                    sg, m and m.sigIn, m and m.sigOut, m and m.nargs, m and m.nret, s_ and s_.sig, pr and pr.sig)
    return None


def reuse_case():
    """interfaces already known locally are reused unless replacement is requested"""
    from txdbus import interface, introspection
    name = 'org.verif.Known'
    known = interface.DBusInterface(name, interface.Method('Old', arguments='s'))        # registers itself
    try:
        other = interface.DBusInterface(name, interface.Method('New', arguments='i'), noRegister=True)
        xml = introspection.generateIntrospectionXML('/obj', {'/obj': FakeObject([other])})
        a = [i for i in introspection.getInterfacesFromXML(xml, False) if i.name == name]
        if len(a) != 1 or a[0] is not known:
            return 'a known interface was not reused: %r' % a
        b = [i for i in introspection.getInterfacesFromXML(xml, True) if i.name == name]
        if len(b) != 1 or b[0] is known or 'New' not in b[0].methods:
            return 'replacement requested but the parsed definition is %r' % (b and sorted(b[0].methods))
        # a name declared locally a SECOND time (a new version of the definition): the definition known from then on is the newer
        # one, which is what an object exporting it round-trips to
        rname = 'org.verif.Redeclared'
        try:
            interface.DBusInterface(rname, interface.Method('Play'))
            newer = interface.DBusInterface(rname, interface.Method('Play'), interface.Method('Seek', arguments='x'), interface.Signal('Moved', 'x'))
            xml = introspection.generateIntrospectionXML('/obj', {'/obj': FakeObject([newer])})
            a = [i for i in introspection.getInterfacesFromXML(xml, False) if i.name == rname]
            if len(a) != 1 or sorted(a[0].methods) != ['Play', 'Seek'] or sorted(a[0].signals) != ['Moved']:
                return ('an interface name declared locally twice, the second declaration exported: parsed back (known definitions reused) as methods %r signals %r, declared Play Seek / Moved'
                        % (a and sorted(a[0].methods), a and sorted(a[0].signals)))
        finally:
            interface.DBusInterface.knownInterfaces.pop(rname, None)
        # an interface known locally WITHOUT any member (a marker interface) is known all the same
        mname = 'org.verif.Marker'
        marker = interface.DBusInterface(mname)
        try:
            remote = interface.DBusInterface(mname, interface.Method('Extra', arguments='s'), noRegister=True)
            xml = introspection.generateIntrospectionXML('/obj', {'/obj': FakeObject([remote])})
            a = [i for i in introspection.getInterfacesFromXML(xml, False) if i.name == mname]
            if len(a) != 1 or a[0] is not marker:
                return 'a locally known interface without members was not reused although replacement was not requested: %r' % (a and sorted(a[0].methods),)
            b = [i for i in introspection.getInterfacesFromXML(xml, True) if i.name == mname]
            if len(b) != 1 or b[0] is marker or 'Extra' not in b[0].methods:
                return 'replacement of a member-less known interface requested, parsed definition %r' % (b and sorted(b[0].methods),)
        finally:
            interface.DBusInterface.knownInterfaces.pop(mname, None)
        # a document with several interfaces, the known one first / in the middle: the others are still parsed
        for order in ((0, 1, 2), (1, 0, 2), (1, 2, 0)):
            extra = [interface.DBusInterface('org.verif.Fresh%d' % k, interface.Method('F%d' % k, arguments='i'), noRegister=True) for k in (1, 2)]
            ifs = [other] + extra
            xml = introspection.generateIntrospectionXML('/obj', {'/obj': FakeObject([ifs[i] for i in order])})
            got = {i.name: i for i in introspection.getInterfacesFromXML(xml, False)}
            for e in extra:
                if e.name not in got or sorted(got[e.name].methods) != sorted(e.methods):
                    return 'a document listing %r with %s already known: interface %s came back as %r' % ([ifs[i].name for i in order], name, e.name, got.get(e.name) and sorted(got[e.name].methods))
            if got.get(name) is not interface.DBusInterface.knownInterfaces.get(name):
                return 'the known interface was not reused in a multi-interface document'
    finally:
        interface.DBusInterface.knownInterfaces.pop(name, None)
    return None


def own_standard_interface_case():
    """an object that declares one of the standard interfaces ITSELF (a full ObjectManager with its signals): parsed back - by a process
    that does not know the interface yet - it has the declared members, not those of the library's minimal block"""
    from txdbus import interface, introspection
    name = 'org.freedesktop.DBus.ObjectManager'
    own = interface.DBusInterface(name, interface.Method('GetManagedObjects', returns='a{oa{sa{sv}}}'), interface.Signal('InterfacesAdded', 'oa{sa{sv}}'),
                                  interface.Signal('InterfacesRemoved', 'oas'), noRegister=True)
    saved = interface.DBusInterface.knownInterfaces.pop(name, None)
    try:
        xml = introspection.generateIntrospectionXML('/obj', {'/obj': FakeObject([own])})
        got = [i for i in introspection.getInterfacesFromXML(xml, False) if i.name == name]
        if not got or any(sorted(g.signals) != ['InterfacesAdded', 'InterfacesRemoved'] for g in got):
            return 'an object declaring %s itself (with InterfacesAdded / InterfacesRemoved) is parsed back with the signals %r' % (name, [sorted(g.signals) for g in got])
    finally:
        interface.DBusInterface.knownInterfaces.pop(name, None)
        if saved is not None:
            interface.DBusInterface.knownInterfaces[name] = saved
    return None


def failed_parse_case():
    """a document that fails to parse (cut short at every element boundary) leaves nothing behind: the complete document parsed
    afterwards - without asking for replacement - yields the declared definition, and a definition known before is still the known one"""
    from txdbus import interface, introspection
    name = 'org.verif.Cut'
    decl = interface.DBusInterface(name, interface.Method('A', arguments='s'), interface.Method('B', returns='ai'), interface.Signal('S', 'u'),
                                   interface.Property('P', 'i', writeable=True), noRegister=True)
    xml = introspection.generateIntrospectionXML('/obj', {'/obj': FakeObject([decl])})
    cuts = [i for i in range(len(xml)) if xml.startswith('<', i) and i > xml.index('<interface')]
    for replace_first in (False, True):
        for c in cuts:
            interface.DBusInterface.knownInterfaces.pop(name, None)
            try:
                try:
                    introspection.getInterfacesFromXML(xml[:c], replace_first)
                    continue                        # a cut that still parses is not this case
                except Exception:
                    pass
                got = [i for i in introspection.getInterfacesFromXML(xml, False) if i.name == name]
                if len(got) != 1 or sorted(got[0].methods) != ['A', 'B'] or sorted(got[0].signals) != ['S'] or sorted(got[0].properties) != ['P']:
                    return ('a document cut after %d of %d characters failed to parse; the COMPLETE document parsed afterwards gives methods %r signals %r properties %r, declared A B / S / P'
                            % (c, len(xml), got and sorted(got[0].methods), got and sorted(got[0].signals), got and sorted(got[0].properties)))
            finally:
                interface.DBusInterface.knownInterfaces.pop(name, None)
    # a definition known before a failing parse that asked for replacement is not half replaced
    known = interface.DBusInterface(name, interface.Method('Old', arguments='s'))
    try:
        for c in cuts:
            try:
                introspection.getInterfacesFromXML(xml[:c], True)
                continue
            except Exception:
                pass
            now = interface.DBusInterface.knownInterfaces.get(name)
            if now is not known and (now is None or sorted(now.methods) not in (['A', 'B'],)):
                return 'a replacing parse that failed (document cut at %d) left the partial definition %r as the known one' % (c, now and sorted(now.methods))
            interface.DBusInterface.knownInterfaces[name] = known
    finally:
        interface.DBusInterface.knownInterfaces.pop(name, None)
    return None


def class_hierarchy_case():
    """objects of a base class and of a class derived from it, each declaring interfaces of its own, introspected in either
    order: every object reports exactly the interfaces of its own class hierarchy"""
    from txdbus import introspection, interface, objects
    # a derived class that declares an interface under the NAME its base class uses, with more members: the object is described - and
    # parsed back - with the derived declaration (the one calls are dispatched on)
    i_base = interface.DBusInterface('org.verif.Player', interface.Method('Play'), noRegister=True)
    i_more = interface.DBusInterface('org.verif.Player', interface.Method('Play'), interface.Method('Seek', arguments='x'), interface.Method('OpenUri', arguments='s'), noRegister=True)
    PBase = type('XPlayer', (objects.DBusObject,), {'dbusInterfaces': [i_base]})
    PMore = type('XSeekablePlayer', (PBase,), {'dbusInterfaces': [i_more]})
    interface.DBusInterface.knownInterfaces.pop('org.verif.Player', None)
    try:
        o = PMore('/player')
        xml = introspection.generateIntrospectionXML('/player', {'/player': o})
        got = [sorted(i.methods) for i in introspection.getInterfacesFromXML(xml, False) if i.name == 'org.verif.Player']
        if not got or any(g != ['OpenUri', 'Play', 'Seek'] for g in got):
            return 'a derived class re-declaring the interface name of its base with more members is introspected as %r, it declares OpenUri, Play, Seek' % (got,)
    finally:
        interface.DBusInterface.knownInterfaces.pop('org.verif.Player', None)
    for order in ((0, 1), (1, 0)):
        ib = interface.DBusInterface('org.verif.BaseI', interface.Method('B', arguments='s'), noRegister=True)
        idr = interface.DBusInterface('org.verif.DerivedI', interface.Method('D', returns='ai'), interface.Property('P', 'u'), noRegister=True)
        Base = type('XBase', (objects.DBusObject,), {'dbusInterfaces': [ib]})
        Derived = type('XDerived', (Base,), {'dbusInterfaces': [idr]})
        # a plain mix-in class (not a DBusObject itself) contributing an interface, listed after the exporting base class
        imx = interface.DBusInterface('org.verif.MixI', interface.Method('X'), noRegister=True)
        Mixin = type('XMixin', (object,), {'dbusInterfaces': [imx]})
        Mixed = type('XMixed', (Base, Mixin), {})
        Direct = type('XDirect', (objects.DBusObject, Mixin), {})
        objs = [Base('/b'), Derived('/d'), Mixed('/m'), Direct('/x')]
        want = [{'org.verif.BaseI'}, {'org.verif.BaseI', 'org.verif.DerivedI'}, {'org.verif.BaseI', 'org.verif.MixI'}, {'org.verif.MixI'}]
        order = tuple(order) + (2, 3)
        for k in order:
            o = objs[k]
            xml = introspection.generateIntrospectionXML(o.getObjectPath(), {o.getObjectPath(): o})
            got = {i.name for i in introspection.getInterfacesFromXML(xml, True) if i.name.startswith('org.verif.')}
            if got != want[k]:
                return 'introspecting the %s object (#%d in the order %r): interfaces %r, its classes declare %r' % (('base', 'derived', 'base + mix-in', 'DBusObject + mix-in')[k], order.index(k), order, sorted(got), sorted(want[k]))
    return None


def bounded(tier, seed):
    rnd = random.Random(seed * 571 + 3)
    pool = H.signature_pool('quick')
    n = 1
    f = reuse_case()
    if f:
        return n, f, {'case': 'known-interface reuse'}
    n += 1
    f = type_code_coverage_case()
    if f:
        return n, f, {'case': 'type code coverage'}
    n += 1
    f = failed_parse_case()
    if f:
        return n, f, {'case': 'failed parse'}
    n += 1
    f = own_standard_interface_case()
    if f:
        return n, f, {'case': 'own standard interface'}
    n += 1
    f = class_hierarchy_case()
    if f:
        return n, f, {'case': 'class hierarchy'}
    for s in range(30000 if tier == 'thorough' else 80):
        n += 1
        f = roundtrip_case(rnd, pool, rnd.choice([1, 1, 2, 3]))
        if f:
            return n, f, {'scenario': s}
    return n, None, None


def replay(function, clause, model):
    n, f, inp = bounded('quick', 1)
    return {'reproduced': bool(f), 'input': inp, 'detail': f or 'all %d interface definitions survived the XML round trip' % n}


def run_bounded(tier, seed):
    n, f, inp = bounded(tier, seed)
    return {'tool': 'generate -> parse -> compare on the real txdbus.interface / txdbus.introspection, counts against the reference grammar',
            'bound': '%d generated objects with 1-3 interfaces of 0-6 methods, signals and properties each; signatures = sequences of up to 3 complete types of length <= 5 from the full grammar; all access and notification modes; proxy argument-count acceptance; known-interface reuse' % (30000 if tier == 'thorough' else 80),
            'evaluations': n, 'failures': [] if not f else [{'function': 'txdbus.interface / txdbus.introspection', 'clause': 'xml-round-trip', 'input': inp, 'detail': f}]}


def build(tier='quick'):
    from txdbus import interface
    w = World()
    p = interface.Property('X', 's', readable=False, writeable=True, emitsOnChange='invalidates')
    lemmas = [('Property normalises access and notification mode', z3.BoolVal((p.access, p.emits) == ('write', 'invalidates') and
               interface.Property('Y', 's').access == 'read' and interface.Property('Y', 's').emits == 'true' and
               interface.Property('Z', 's', writeable=True).access == 'readwrite' and interface.Property('Z', 's', emitsOnChange=False).emits == 'false'))]
    sp = Spec('C15', w, lambda world: TxModels(world), [], replay=replay,
              bounded=[{'name': 'xml-round-trip', 'run': run_bounded}],
              trusted=['xml.sax / expat; the reference grammar contracts/wire_ref.py'],
              assumed=['nothing about _getXml / the SAX handler is proved for all inputs: string formatting and XML parsing are outside the subset'],
              notes=['level exploration: the bounded round trip decides'],
              explanation='generated interface definitions from the full type grammar through the real XML generator and parser, compared member by member; proxy acceptance and known-interface reuse',
              design_ref='DESIGN.md 4/C15')
    sp.lemmas = lemmas
    sp.level = 'exploration'
    return sp
