"""C10 - every call to an exported object gets exactly one correctly addressed reply.

Deductive part (three targets, all inputs):
  * DBusObjectHandler.handleMethodCallMessage - for every call message, export map and interface declarations: at most one
    reply is sent synchronously and it carries the call's serial and goes to the caller; Ping is answered once; a path that
    is not exported gets UnknownObject; every refusal (UnknownObject / UnknownMethod / InvalidArgs) and every built-in answer
    sends exactly one reply and runs no user code; when the call is dispatched the implementation of the exported object is
    invoked exactly once with the call's member and sender, nothing is sent before its result is known, and the reply
    closures are chained as [send_reply, then send_error] exactly when a reply is expected (so a failure of the
    implementation OR of encoding its value reaches send_error) and not at all otherwise.
  * the closure send_reply - for every returned value: exactly one message, addressed to the caller with the call's serial,
    declared with the method's return signature; or the constructor raised and nothing was sent.
  * the closure send_error - for every failure: exactly one error reply addressed likewise, named by dbusErrorName, else
    org.txdbus.PythonException.<Class>, or org.txdbus.InvalidErrorName when that is no valid error name.
Bounded part (labelled): a reference dispatcher compared with the real handler on generated two-level class hierarchies,
bindings by name and by decorator, and calls with every kind of outcome.
"""
import z3

from pyvc.values import *  # noqa
from pyvc.engine import World, ClassSpec, LoopSpec
from pyvc.runner import Spec
from .base import contract, TxModels
from . import dispatch_harness as DH


def replay(function, clause, model):
    import io, contextlib, gc
    sink = io.StringIO()
    with contextlib.redirect_stderr(sink), contextlib.redirect_stdout(sink):
        n, f, inp = DH.bounded('quick', 1)
        gc.collect()
    return {'reproduced': bool(f), 'input': inp, 'detail': f or 'every one of %d calls was answered as the reference dispatcher prescribes' % n}


def run_bounded(tier, seed):
    import io, contextlib, gc
    # implementations that fail on calls flagged as expecting no reply leave unhandled Deferred failures behind; Twisted
    # reports them on stderr / stdout when they are collected - keep that out of the check's output
    sink = io.StringIO()
    with contextlib.redirect_stderr(sink), contextlib.redirect_stdout(sink):
        n, f, inp = DH.bounded(tier, seed)
        gc.collect()
    return {'tool': 'reference dispatcher vs DBusObjectHandler.handleMethodCallMessage on generated interface declarations and calls',
            'bound': '%d random two-level class hierarchies (1-3 interfaces, members shared between interfaces, dbus_<name> and decorator bindings, re-bound base methods) x 25 calls each (right / wrong path, interface, member, signature; reply expected or not) x 9 outcomes (value, Deferred fired / failed later, exceptions with DBus name, without, invalid name, NUL text, a class name that is no DBus name element, unencodable value); Peer.Ping / Introspect' % (6000 if tier == 'thorough' else 40),
            'evaluations': n, 'failures': [] if not f else [{'function': 'txdbus.objects.DBusObjectHandler.handleMethodCallMessage', 'clause': 'dispatch', 'input': inp, 'detail': f}]}


# --------------------------------------------------------------------------------------------- deductive part
from . import grammar as G
from .classes import message_classes
from .c18 import add_validator_contracts, add_constructor_contracts, opt_in
from pyvc.engine import PyRaise
from pyvc.models import ufun

H = 'DBusObjectHandler'
sv = z3.StringVal


def getInterfaces(self): pass
def getObjectPath(self): pass
def sendMessage(self, msg): pass
def getErrorMessage(self): pass


class Models10(TxModels):
    """Twisted's Deferred as a ghost callback chain: maybeDeferred(f, *a) records the one invocation of the implementation,
    addCallback / addErrback / addCallbacks / addBoth append (callback, errback) pairs; the contract's epilogue fires the chain
    with an arbitrary outcome (still pending, a value, a failure) following Twisted's chaining rule: a pair sees the current
    result, a callback that raises turns it into a failure for the NEXT pair, an errback that returns turns it into a value."""
    def __init__(self, world):
        super().__init__(world)
        from twisted.internet import defer
        self.register(defer.maybeDeferred, self.m_maybeDeferred)
        self.register(defer.Deferred.addCallback, lambda I, a, k: self.add_pair(I, a[0], a[1], None))
        self.register(defer.Deferred.addErrback, lambda I, a, k: self.add_pair(I, a[0], None, a[1]))
        self.register(defer.Deferred.addCallbacks, lambda I, a, k: self.add_pair(I, a[0], a[1], a[2] if len(a) > 2 else k.get('errback')))
        self.register(defer.Deferred.addBoth, lambda I, a, k: self.add_pair(I, a[0], a[1], a[1]))

    def m_maybeDeferred(self, I, a, k):
        f = a[0]
        recv = getattr(f, 'self_', None)
        if not (isinstance(f, VFunc) and isinstance(recv, VRef) and recv.cls == 'IObj' and len(a) == 5):
            raise OutOfSubset('maybeDeferred of %r' % (f,))
        ctx = I.ctx
        old = ctx.heap_read(recv, 'g_exec')
        ctx.heap_write(recv, 'g_exec', VInt(old.term + 1))
        for nm, v in zip(('g_exec_iface', 'g_exec_member', 'g_exec_body', 'g_exec_sender'), a[1:]):
            ctx.heap_write(recv, nm, v)
        ctx.chain = []
        return ctx.new_ref('Deferred')

    def add_pair(self, I, d, cb, eb):
        if not hasattr(I.ctx, 'chain'):
            raise OutOfSubset('callback added to an unknown Deferred')
        I.ctx.chain.append((cb, eb))
        return d

    def isinstance_other(self, I, v, classes):
        if isinstance(v, VOpaque):
            return VBool(I.ctx.fresh('is_' + '_'.join(c.__name__ for c in classes), BoolSort))
        return None


def chain_shape(I):
    """epilogue of handleMethodCallMessage: record which (callback, errback) pairs were attached; the closures themselves are
    verified as separate targets (send_reply, send_error) and Twisted's chaining rule combines them (stated in the evidence)"""
    ctx = I.ctx
    chain = getattr(ctx, 'chain', None)
    if chain is None:
        ctx.shape = None
        return
    def nm(f):
        return None if f is None or isinstance(f, VNone) else getattr(f, 'name', '?').split('.')[-1]
    ctx.shape = [(nm(cb), nm(eb)) for cb, eb in chain]


def build_world():
    from txdbus import objects, introspection
    from txdbus.error import MarshallingError
    from twisted.internet import defer
    w = World()
    message_classes(w)
    add_validator_contracts(w)
    add_constructor_contracts(w)
    w.add_class(ClassSpec('Method', None, {'sigIn': Opt(STR), 'sigOut': Opt(STR), 'nret': INT}))
    w.add_class(ClassSpec('Iface', None, {'name': STR, 'methods': DictT(STR, Ref('Method'))}))
    w.add_class(ClassSpec('IObj', None, {'g_path': STR, 'g_exec': INT, 'g_exec_iface': Ref('Iface'), 'g_exec_member': Opt(STR), 'g_exec_body': OPAQUE,
                                         'g_exec_sender': Opt(STR), 'g_ifaces': ListT(Ref('Iface'))},
                          methods={'getInterfaces': getInterfaces, 'getObjectPath': getObjectPath, 'executeMethod': lambda *a: None}))
    w.add_class(ClassSpec('Conn', None, {'g_nsent': INT, 'g_last': Ref('DBusMessage')}, methods={'sendMessage': sendMessage}))
    w.add_class(ClassSpec(H, objects.DBusObjectHandler, {'exports': DictT(STR, Ref('IObj')), 'conn': Ref('Conn')}))
    w.add_class(ClassSpec('Deferred', defer.Deferred, {}))
    w.add_class(ClassSpec('ExcClass', None, {'__name__': STR}))
    w.add_class(ClassSpec('Exc', None, {'dbusErrorName': Opt(STR), 'dbusErrorName?set': BOOL, '__class__': Ref('ExcClass')}))
    w.add_class(ClassSpec('Failure', None, {'value': Ref('Exc')}, methods={'getErrorMessage': getErrorMessage}))

    contract(w, 'iface.IObj.getInterfaces', {'self': Ref('IObj')}, fn=getInterfaces, result=ListT(Ref('Iface')),
             ensures=lambda cx: [('declared', cx.result.seqs[0] == cx.old(cx.args['self']).g_ifaces.seqs[0])], assumed=True)
    contract(w, 'iface.IObj.getObjectPath', {'self': Ref('IObj')}, fn=getObjectPath, result=STR,
             ensures=lambda cx: [('is-path', z3.And(cx.result.term == cx.old(cx.args['self']).g_path, z3.InRe(cx.result.term, G.OBJECT_PATH)))], assumed=True)
    contract(w, 'iface.Conn.sendMessage', {'self': Ref('Conn'), 'msg': Ref('DBusMessage')}, fn=sendMessage,
             modifies=lambda cx: [(cx.args['self'], 'Conn.g_nsent'), (cx.args['self'], 'Conn.g_last')],
             ensures=lambda cx: [('sent', z3.And(cx.new(cx.args['self']).g_nsent == cx.old(cx.args['self']).g_nsent + 1,
                                                 cx.new(cx.args['self']).g_last == cx.a('msg')))], assumed=True)
    contract(w, 'iface.Failure.getErrorMessage', {'self': Ref('Failure')}, fn=getErrorMessage, result=STR, assumed=True)
    contract(w, 'txdbus.introspection.generateIntrospectionXML', {'objectPath': STR, 'exportedObjects': DictT(STR, Ref('IObj'))}, result=Opt(STR), assumed=True)
    contract(w, 'txdbus.objects.DBusObjectHandler.getManagedObjects', {'self': Ref(H), 'objectPath': STR}, result=OPAQUE, assumed=True)

    msg_fields = ['expectReply', 'autoStart', 'signature', 'body', 'bodyLength', 'serial', 'headers', 'rawMessage', 'rawHeader',
                  'rawPadding', 'rawBody', 'interface', 'path', 'sender', 'destination', 'member', 'error_name', 'reply_serial',
                  'unix_fds', 'unix_fds?set', 'oobFDs']
    mods = lambda cx: ([('*', 'Conn.g_nsent'), ('*', 'Conn.g_last'), ('*', 'IObj.g_exec'), ('*', 'IObj.g_exec_iface'), ('*', 'IObj.g_exec_member'),
                        ('*', 'IObj.g_exec_body'), ('*', 'IObj.g_exec_sender')] + [('*', 'DBusMessage.' + f) for f in msg_fields])

    def pre(cx):
        m = cx.old(cx.args['msg'])
        return [('a parsed method call has a serial, a path and a member', z3.And(z3.Not(m.serial.none), z3.Not(m.path.none), z3.Not(m.member.none))),
                ('the sender stamped by the bus is a valid bus name (or absent, peer to peer)', opt_in(m.sender, G.BUS0)),
                ('the serial fits the reply_serial header', z3.And(m.serial.val.term >= 1, m.serial.val.term < 2**32))]

    def post(cx):
        ctx = cx.ctx
        h = cx.old(cx.args['self'])
        m = cx.old(cx.args['msg'])
        conn = VRef(h.conn, 'Conn')
        nsent = cx.new(conn).g_nsent - cx.old(conn).g_nsent
        last = cx.new(VRef(cx.new(conn).g_last, 'DBusMessage'))
        path, member = m.path.val.term, m.member.val.term
        iface_is = lambda s_: z3.And(z3.Not(m.interface.none), m.interface.val.term == sv(s_))
        ping = z3.And(iface_is('org.freedesktop.DBus.Peer'), member == sv('Ping'))
        exported = z3.Select(h.exports.dom, path)
        obj = VRef(z3.Select(h.exports.vals[0], path), 'IObj')
        ran = cx.new(obj).g_exec - cx.old(obj).g_exec
        addressed = z3.And(z3.Not(last.reply_serial.none), last.reply_serial.val.term == m.serial.val.term,
                           last.destination.none == m.sender.none, z3.Implies(z3.Not(m.sender.none), last.destination.val.term == m.sender.val.term))
        shape = getattr(ctx, 'shape', None)
        shape = getattr(ctx, 'shape', None)
        out = [('at most one reply', z3.And(nsent >= 0, nsent <= 1)),
               ('a reply carries the call serial and goes to the caller', z3.Implies(nsent == 1, addressed)),
               ('Ping is answered once, no user code', z3.Implies(ping, z3.And(nsent == 1, z3.BoolVal(shape is None)))),
               ('a call to a path that is not exported is answered UnknownObject and runs nothing',
                z3.Implies(z3.And(z3.Not(ping), z3.Not(iface_is('org.freedesktop.DBus.Introspectable')), z3.Not(exported)),
                           z3.And(nsent == 1, z3.Not(last.error_name.none), last.error_name.val.term == sv('org.freedesktop.DBus.Error.UnknownObject'))))]
        if shape is None:
            # refused, or answered by the handler itself: exactly one reply, the implementation never ran
            out.append(('answered without dispatch: exactly one reply and no user code', z3.And(nsent == 1, ran == 0)))
        else:
            out.append(("dispatched: the implementation of the exported object ran exactly once with the call's member and sender, nothing sent yet",
                        z3.And(exported, ran == 1, nsent == 0, cx.new(obj).g_exec_member.none == m.member.none, cx.new(obj).g_exec_member.val.term == member,
                               cx.new(obj).g_exec_sender.none == m.sender.none, z3.Implies(z3.Not(m.sender.none), cx.new(obj).g_exec_sender.val.term == m.sender.val.term))))
            j0, is_first = first_match(cx)
            out.append(('the interface that answers is the FIRST in lookup order that matches (named interface, else the first declaring the member)',
                        z3.Implies(is_first, cx.new(obj).g_exec_iface == iface_seq(cx)[j0])))
            want = [('send_reply', None), (None, 'send_error')]
            out.append(('reply expected: send_reply then send_error are chained on the result, so a failure of the implementation OR of encoding its value reaches send_error; otherwise nothing is chained',
                        z3.If(m.expectReply, z3.BoolVal(shape == want), z3.BoolVal(shape == []))))
        return out

    # ---- which interface answers: the FIRST one, in the object's lookup order, that matches
    #      MATCH(j) = (the call names an interface ? ifaces[j].name == it : the member is declared by ifaces[j])
    #      NOM(k)   = no match among the first k interfaces            NOM(0) ;  NOM(k+1) = NOM(k) and not MATCH(k)
    def iface_seq(cx):
        h = cx.old(cx.args['self'])
        m = cx.old(cx.args['msg'])
        obj = VRef(z3.Select(h.exports.vals[0], m.path.val.term), 'IObj')
        return cx.old(obj).g_ifaces.seqs[0]

    def MATCH(cx, j):
        m = cx.old(cx.args['msg'])
        ifs = iface_seq(cx)
        iv = cx.old(VRef(ifs[j], 'Iface'))
        named = z3.And(z3.Not(m.interface.none), m.interface.val.term != sv(''))
        return z3.If(named, iv.name == m.interface.val.term, z3.Select(iv.methods.dom, m.member.val.term))

    def NOM(cx, k):
        if not hasattr(cx.ctx, 'nom_arr'):
            cx.ctx.nom_arr = cx.ctx.fresh('NOM', z3.ArraySort(IntSort, BoolSort))
            cx.ctx.assume(z3.Select(cx.ctx.nom_arr, 0))
        return z3.Select(cx.ctx.nom_arr, k)

    def unfold_nom(cx, k):
        n = z3.Length(iface_seq(cx))
        cx.ctx.assume(z3.Implies(z3.And(k >= 0, k < n), NOM(cx, k + 1) == z3.And(NOM(cx, k), z3.Not(MATCH(cx, k)))))

    def first_match(cx):
        j0 = cx.ctx.skolem('j0', IntSort)
        n = z3.Length(iface_seq(cx))
        unfold_nom(cx, j0)
        return j0, z3.And(j0 >= 0, j0 < n, MATCH(cx, j0), NOM(cx, j0))

    def loop_inv(cx):
        k = cx.l('_k1')
        j0 = cx.ctx.skolem('j0', IntSort)
        unfold_nom(cx, k)
        unfold_nom(cx, j0)
        # NOM is monotone: a prefix without match has no match in any shorter prefix (instances relating k and j0)
        cx.ctx.assume(z3.Implies(z3.And(j0 + 1 <= k, NOM(cx, k)), NOM(cx, j0 + 1)))
        cx.ctx.assume(z3.Implies(z3.And(k + 1 <= j0, NOM(cx, j0)), NOM(cx, k + 1)))
        cx.ctx.assume(z3.Implies(z3.And(k <= j0, NOM(cx, j0)), NOM(cx, k)))
        out = [('nothing sent, nothing run', cx.unchanged('Conn.g_nsent', 'Conn.g_last', 'IObj.g_exec')),
               ('no interface before this one matched', NOM(cx, k)),
               ('the interfaces being searched are those of the addressed object', cx.L['_seq1'].seqs[0] == iface_seq(cx))]
        if isinstance(cx.L.get('i'), VNone):
            out.append(('nothing chosen yet', z3.BoolVal(True)))
        return out

    contract(w, 'txdbus.objects.DBusObjectHandler.handleMethodCallMessage', {'self': Ref(H), 'msg': Ref('MethodCallMessage')},
             requires=pre, ensures=post, modifies=mods, epilogue=chain_shape,
             raises={Exception: lambda cx: z3.BoolVal(True)}, may_raise_any=True,
             raises_post={Exception: lambda cx: [('building a reply failed: nothing was sent and no user code ran',
                                                  z3.And(cx.unchanged('Conn.g_nsent', 'IObj.g_exec')))]},
             loops={1: LoopSpec(invariant=loop_inv, ghost_index='_k1')})
    # ---- the two reply closures, verified on their own: free variables (self, msg, m) are parameters
    def sent_one(cx, kind):
        h = cx.old(cx.args['self'])
        m = cx.old(cx.args['msg'])
        conn = VRef(h.conn, 'Conn')
        last_ref = VRef(cx.new(conn).g_last, 'DBusMessage')
        last = cx.new(last_ref)
        return [('exactly one message is sent', cx.new(conn).g_nsent == cx.old(conn).g_nsent + 1),
                ('it carries the call serial and goes to the caller',
                 z3.And(z3.Not(last.reply_serial.none), last.reply_serial.val.term == m.serial.val.term,
                        last.destination.none == m.sender.none, z3.Implies(z3.Not(m.sender.none), last.destination.val.term == m.sender.val.term)))], last

    def reply_post(cx):
        out, last = sent_one(cx, 'return')
        meth = cx.old(cx.args['m'])
        return out + [('it is a method return declared with the method\'s return signature',
                       z3.And(last.signature.none == meth.sigOut.none, z3.Implies(z3.Not(meth.sigOut.none), last.signature.val.term == meth.sigOut.val.term)))]

    def nothing_sent(cx):
        h = cx.old(cx.args['self'])
        conn = VRef(h.conn, 'Conn')
        return [('nothing was sent when building the reply failed', cx.new(conn).g_nsent == cx.old(conn).g_nsent)]

    clos_params = {'self': Ref(H), 'msg': Ref('MethodCallMessage'), 'm': Ref('Method')}
    contract(w, 'txdbus.objects.DBusObjectHandler.handleMethodCallMessage#send_reply', dict(clos_params, return_values=OPAQUE),
             fn=objects.DBusObjectHandler.handleMethodCallMessage, nested='send_reply',
             requires=pre, ensures=reply_post, modifies=mods,
             raises={Exception: lambda cx: z3.BoolVal(True)}, raises_post={Exception: nothing_sent}, may_raise_any=True)

    def error_post(cx):
        out, last = sent_one(cx, 'error')
        e = cx.old(VRef(cx.old(cx.args['err']).value, 'Exc'))
        has = z3.And(e.__getattr__('dbusErrorName?set'), z3.Not(e.dbusErrorName.none))
        cls = cx.old(VRef(e.__getattr__('__class__'), 'ExcClass')).__getattr__('__name__')
        name = z3.If(has, e.dbusErrorName.val.term, z3.Concat(sv('org.txdbus.PythonException.'), cls))
        valid = z3.InRe(name, G.INTERFACE0)
        return out + [('it is an error named by dbusErrorName, else org.txdbus.PythonException.<Class>, or org.txdbus.InvalidErrorName when that is no valid error name',
                       z3.And(z3.Not(last.error_name.none),
                              last.error_name.val.term == z3.If(G.in_grammar(name, G.INTERFACE0), name, sv('org.txdbus.InvalidErrorName'))))]

    contract(w, 'txdbus.objects.DBusObjectHandler.handleMethodCallMessage#send_error', dict(clos_params, err=Ref('Failure')),
             fn=objects.DBusObjectHandler.handleMethodCallMessage, nested='send_error',
             requires=pre, ensures=error_post, modifies=mods,
             raises={Exception: lambda cx: z3.BoolVal(True)}, raises_post={Exception: nothing_sent}, may_raise_any=True)
    return w


def build(tier='quick'):
    w = build_world()
    targets = ['txdbus.objects.DBusObjectHandler.handleMethodCallMessage', 'txdbus.objects.DBusObjectHandler.handleMethodCallMessage#send_reply',
               'txdbus.objects.DBusObjectHandler.handleMethodCallMessage#send_error']
    sp = Spec('C10', w, lambda world: Models10(world), targets, replay=replay,
              bounded=[{'name': 'dispatch', 'run': run_bounded}],
              trusted=["Twisted's Deferred as a ghost callback chain (maybeDeferred records the single invocation of the implementation, addCallback / addErrback / addCallbacks / addBoth append pairs); the chaining rule - a callback that raises hands a failure to the NEXT pair - is Twisted's documented behaviour, not verified"],
              assumed=['message constructors by their C18 contracts (validation + stored fields); connection.sendMessage appends to the ghost log',
                       'the call carries serial, path and member; its sender is a valid bus name or absent',
                       'generateIntrospectionXML / getManagedObjects return some value (C15 / C16); the exported object lists its interfaces (getInterfaces) and executeMethod is the invocation of the implementation (its method-resolution through the MRO caches is in the bounded part only)',
                       'the lookup order of the interfaces is what getInterfaces() yields (MRO order of the classes): interface stub'],
              notes=['reply construction can fail only inside the message constructors; then nothing is sent (proved) - the text of error replies is made a valid DBus string first (defect fixed in /repo)'],
              explanation='dispatch decision, reply count and addressing, error naming and the chaining of the two reply closures proved for every call and every declared interface set; reference-dispatcher comparison on generated class hierarchies on top',
              design_ref='DESIGN.md 4/C10')
    return sp
