"""C09 - connecting always concludes; a lost connection fails all pending work once.

Deductive part (every state of the tables, every reason):
  * RemoteDBusObject.notifyOnDisconnect / connectionLost: the registered callbacks are invoked exactly once each, in
    registration order (ghost invocation log == log . callbacks), for every callback list
  * DBusObjectHandler.connectionLost: connectionLost of every live proxy is invoked exactly once (ghost log == log . proxies)
  * connect() and its inner function try_next_ep: the first endpoint tried is the first one listed; each retry takes exactly
    the LAST element of the (reversed) remaining list - i.e. the next one in listed order - removes it, and chains itself as
    the errback of that attempt (and only as errback); with no endpoint left the connect Deferred is failed once
  * DBusClientConnection.disconnect: asks the transport to close and changes nothing else (frame: busName, tables, callbacks)
  * DBusClientConnection.connectionLost:
      established (busName set): the connection's disconnect callbacks are invoked once each in order; for an arbitrary
      serial s0, if it was pending its Deferred is failed (exactly once: it was unfired, see PC) and its timer cancelled;
      the table is empty afterwards; the object handler is notified once; the factory's Deferred is not touched
      not established (busName None - during authentication or before the Hello reply): outstanding calls, if the table
      exists, are failed the same way, the factory's connect Deferred is failed iff it had not fired; no callback runs
    PC (assumed instances, established by C08): a pending entry's Deferred is unfired, its timer active, and two pending
    serials never share a Deferred or a timer.
Bounded part (labelled): connect() over endpoint lists with every reachable subset and the transport closing at every
stage (before / during authentication, refused authentication, before the Hello reply, Hello error, established), and
established connections with k <= 3 calls, timers, duplicate callbacks, explicit and introspected proxies - through the
real objects with fake endpoints, transports and clock.
"""
import z3

from pyvc.values import *  # noqa
from pyvc.engine import World, ClassSpec, LoopSpec, select_store
from pyvc.runner import Spec
from .base import contract, TxModels
from . import connect_harness as CH

C, D, T, P, H, F, CB = 'DBusClientConnection', 'Deferred', 'DelayedCall', 'RemoteDBusObject', 'DBusObjectHandler', 'DBusClientFactory', 'Callback'
GHOST = VRef(z3.IntVal(990002), 'Ghost')


def __call__(self, who, reason): pass
def errback(self, fail): pass
def cancel(self): pass
def _failed(self, err): pass
def _ok(self, proto): pass
def h_connectionLost(self, reason): pass
def loseConnection(self): pass
def addErrback(self, eb): pass


class Models09(TxModels):
    def __init__(self, world):
        super().__init__(world)
        from txdbus import client
        self.instantiators[client.DBusClientFactory] = self.new_factory
        self.register(addErrback, lambda I, a, k: self.add_errback(I, a[0], a[1]))
        self.instantiators[client.ConnectError] = lambda I, a, k: VExc(client.ConnectError, [])      # twisted's exception class: an opaque failure value

    def new_factory(self, I, a, k):
        # DBusClientFactory(): a factory with a fresh, unfired connect Deferred
        f = I.ctx.new_ref(F)
        d = I.ctx.new_ref(D)
        I.ctx.heap_write(d, 'called', VBool(False))
        I.ctx.heap_write(d, 'g_failed', VBool(False))
        I.ctx.heap_write(f, 'd', d)
        return f

    def add_errback(self, I, d, eb):
        if not hasattr(I.ctx, 'chain') or I.ctx.chain is None:
            I.ctx.chain = []
        I.ctx.chain.append((None, eb))
        return d

    def call_other(self, I, f, args, kwargs):
        if isinstance(f, VRef):
            stub = I.world.method(f.cls, '__call__')
            if stub is not None:
                return I.call(VFunc(stub, f), args, kwargs)
        return super().call_other(I, f, args, kwargs)


def replay(function, clause, model):
    n, f, inp = CH.bounded('quick', 1)
    return {'reproduced': bool(f), 'input': inp, 'detail': f or 'every one of %d connection histories concluded as prescribed' % n}


def run_bounded(tier, seed):
    n, f, inp = CH.bounded(tier, seed)
    return {'tool': 'connection histories through the real client objects with fake endpoints, transports and clock',
            'bound': 'endpoint lists of length <= 3 with every reachable subset x 6 closing stages; established connections with <= 3 calls x timer subsets x proxy mixes (explicit / introspected, two proxies of one object) x duplicate callbacks',
            'evaluations': n, 'failures': [] if not f else [{'function': 'txdbus.client / txdbus.objects', 'clause': 'connection-history', 'input': inp, 'detail': f}]}


def build_world():
    from txdbus import client, objects
    w = World()
    w.add_class(ClassSpec('Ghost', None, {'cb_log': ListT(Ref(CB)), 'proxy_log': ListT(Ref(P)), 'tried_log': ListT(Ref('Endpoint')), 'eps': ListT(Ref('Endpoint'))}))
    w.add_class(ClassSpec(CB, None, {}, methods={'__call__': __call__}))
    w.add_class(ClassSpec(D, None, {'called': BOOL, 'g_failed': BOOL, 'g_reason': OPAQUE}, methods={'errback': errback, 'addErrback': addErrback}))
    w.add_class(ClassSpec(T, None, {'g_active': BOOL}, methods={'cancel': cancel}))
    w.add_class(ClassSpec(F, client.DBusClientFactory, {'d': Ref(D)}, methods={'_failed': _failed, '_ok': _ok}))
    w.add_class(ClassSpec(P, objects.RemoteDBusObject, {'_disconnectCBs': Opt(ListT(Ref(CB)))}))
    w.add_class(ClassSpec(H, objects.DBusObjectHandler, {'_weakProxies': ListT(Ref(P)), 'g_lost': INT}))
    w.add_class(ClassSpec(C, client.DBusClientConnection, {
        'busName': Opt(STR), '_dcCallbacks': ListT(Ref(CB)), '_pendingCalls': Opt(DictT(INT, TupleT(Ref(D), Opt(Ref(T))))),
        'objHandler': Ref(H), 'factory': Opt(Ref(F)), 'transport': Ref('Transport')}))

    log_mod = lambda cx: [(GHOST, 'Ghost.cb_log')]
    contract(w, 'iface.Callback.__call__', {'self': Ref(CB), 'who': OPAQUE, 'reason': OPAQUE}, fn=__call__, modifies=log_mod,
             ensures=lambda cx: [('invocation-logged', cx.new(GHOST).cb_log.seqs[0] == z3.Concat(cx.old(GHOST).cb_log.seqs[0], z3.Unit(cx.a('self'))))],
             assumed=True)
    contract(w, 'iface.Deferred.errback', {'self': Ref(D), 'fail': OPAQUE}, fn=errback,
             requires=lambda cx: [('a Deferred fires once', z3.Not(cx.old(cx.args['self']).called))],
             modifies=lambda cx: [(cx.args['self'], D + '.called'), (cx.args['self'], D + '.g_failed'), (cx.args['self'], D + '.g_reason')],
             ensures=lambda cx: [('failed-with-the-reason', z3.And(cx.new(cx.args['self']).called, cx.new(cx.args['self']).g_failed,
                                                                   cx.new(cx.args['self']).g_reason == cx.args['fail'].term if getattr(cx.args['fail'], 'term', None) is not None else z3.BoolVal(True)))], assumed=True)
    contract(w, 'iface.DelayedCall.cancel', {'self': Ref(T)}, fn=cancel,
             requires=lambda cx: [('only an active timer is cancelled', cx.old(cx.args['self']).g_active)],
             modifies=lambda cx: [(cx.args['self'], T + '.g_active')],
             ensures=lambda cx: [('inactive', z3.Not(cx.new(cx.args['self']).g_active))], assumed=True)
    contract(w, 'iface.DBusClientFactory._failed', {'self': Ref(F), 'err': OPAQUE}, fn=_failed,
             requires=lambda cx: [('the connect Deferred fires once', z3.Not(cx.old(VRef(cx.old(cx.args['self']).d, D)).called))],
             modifies=lambda cx: [('*', D + '.called'), ('*', D + '.g_failed'), ('*', D + '.g_reason')],
             ensures=lambda cx: [('connect-deferred-failed', z3.And(
                 cx.new(VRef(cx.old(cx.args['self']).d, D)).called, cx.new(VRef(cx.old(cx.args['self']).d, D)).g_failed,
                 cx.new(VRef(cx.old(cx.args['self']).d, D)).g_reason == cx.args['err'].term)),
                 ('no-other-deferred-touched', others_same(cx, cx.old(cx.args['self']).d))], assumed=True)

    contract(w, 'iface.DBusClientFactory._ok', {'self': Ref(F), 'proto': Ref(C)}, fn=_ok,
             requires=lambda cx: [('the connect Deferred fires once', z3.Not(cx.old(VRef(cx.old(cx.args['self']).d, D)).called))],
             modifies=lambda cx: [('*', D + '.called'), ('*', D + '.g_failed'), ('*', D + '.g_reason')],
             ensures=lambda cx: [('connect-deferred-succeeded', z3.And(
                 cx.new(VRef(cx.old(cx.args['self']).d, D)).called, z3.Not(cx.new(VRef(cx.old(cx.args['self']).d, D)).g_failed))),
                 ('no-other-deferred-touched', others_same(cx, cx.old(cx.args['self']).d))], assumed=True)

    # ---- the Hello reply: whatever unique name the bus hands out, the connection records it and the connect Deferred fires
    # with success - nothing else happens and nothing is raised (an exception here would be swallowed by the reply's
    # callback chain and the connect Deferred would never fire)
    def hello_pre(cx):
        o = cx.old(cx.args['self'])
        return [('a factory waits for this connection', z3.Not(o.factory.none)),
                ('its connect Deferred has not fired', z3.Not(cx.old(VRef(cx.old(VRef(o.factory.val.term, F)).d, D)).called))]

    def hello_post(cx):
        o, n = cx.old(cx.args['self']), cx.new(cx.args['self'])
        d = cx.old(VRef(o.factory.val.term, F)).d
        return [('the unique name handed out by the bus is recorded', z3.And(z3.Not(n.busName.none), n.busName.val.term == cx.a('busName'))),
                ('the connect Deferred fires, with success', z3.And(cx.new(VRef(d, D)).called, z3.Not(cx.new(VRef(d, D)).g_failed))),
                ('no other Deferred fires', others_same(cx, d))]
    contract(w, 'txdbus.client.DBusClientConnection._cbGotHello', {'self': Ref(C), 'busName': STR}, requires=hello_pre, ensures=hello_post,
             modifies=lambda cx: [(cx.args['self'], C + '.busName'), ('*', D + '.called'), ('*', D + '.g_failed'), ('*', D + '.g_reason')])

    # ---- proxy
    def cbs_of(view):
        return z3.If(view._disconnectCBs.none, z3.Empty(z3.SeqSort(IntSort)), view._disconnectCBs.val.seqs[0])

    contract(w, 'txdbus.objects.RemoteDBusObject.notifyOnDisconnect', {'self': Ref(P), 'callback': Ref(CB)},
             modifies=lambda cx: [(cx.args['self'], P + '._disconnectCBs')],
             ensures=lambda cx: [('registered-at-the-end', z3.And(z3.Not(cx.new(cx.args['self'])._disconnectCBs.none),
                                                                  cbs_of(cx.new(cx.args['self'])) == z3.Concat(cbs_of(cx.old(cx.args['self'])), z3.Unit(cx.a('callback')))))])

    # cancelNotifyOnDisconnect: one registration of the callback is withdrawn (the first), every other registration stays in
    # order, and NOTHING ELSE changes - in particular the proxy stays known to its object handler, so a callback registered
    # later is still told about a loss (frame: only this proxy's callback list)
    def cancel_post(cx):
        o, n = cbs_of(cx.old(cx.args['self'])), cbs_of(cx.new(cx.args['self']))
        cb = cx.a('callback')
        M = cx.ctx.membership
        A, B = z3.Const('cancel_A', o.sort()), z3.Const('cancel_B', o.sort())
        return [('one registration fewer', z3.Implies(z3.Length(o) >= 1, z3.Length(n) == z3.Length(o) - 1)),
                ('what is removed is a registration of that callback with none before it; the others keep their order',
                 z3.Implies(z3.Length(o) >= 1, z3.Exists([A, B], z3.And(o == z3.Concat(A, z3.Unit(cb), B), z3.Not(M.mem(A, cb)), n == z3.Concat(A, B))))),
                ('nothing registered: nothing changes', z3.Implies(z3.Length(o) == 0, n == o))]
    contract(w, 'txdbus.objects.RemoteDBusObject.cancelNotifyOnDisconnect', {'self': Ref(P), 'callback': Ref(CB)},
             modifies=lambda cx: [(cx.args['self'], P + '._disconnectCBs')], ensures=cancel_post,
             raises={ValueError: lambda cx: z3.And(z3.Length(cbs_of(cx.old(cx.args['self']))) >= 1,
                                                   z3.Not(cx.ctx.membership.mem(cbs_of(cx.old(cx.args['self'])), cx.a('callback'))))})

    def log_proxy(I):
        # ghost statement at the end of RemoteDBusObject.connectionLost: proxy_log.append(self)
        me = I.ctx.last_self
        cur = I.ctx.heap_read(GHOST, 'proxy_log')
        I.ctx.heap_write(GHOST, 'proxy_log', VList(Ref(P), [z3.Concat(cur.seqs[0], z3.Unit(me.term))]))

    def proxy_lost_inv(cx):
        cx.ctx.last_self = cx.args['self']
        lst = cx.L['_seq1'].seqs[0]
        k = cx.l('_k1')
        pre, suf = cx.ctx.prefix_of(lst, k)
        cx.ctx.prefix_of(lst, k + 1)
        return [('invoked-so-far', cx.new(GHOST).cb_log.seqs[0] == z3.Concat(cx.old(GHOST).cb_log.seqs[0], pre)),
                ('registrations-unchanged', cx.unchanged(P + '._disconnectCBs'))]

    def remember(cx):
        cx.ctx.last_self = cx.args['self']
        return []

    contract(w, 'txdbus.objects.RemoteDBusObject.connectionLost', {'self': Ref(P), 'reason': OPAQUE}, requires=remember,
             modifies=lambda cx: [(GHOST, 'Ghost.cb_log'), (GHOST, 'Ghost.proxy_log')],
             ensures=lambda cx: [('every registered callback invoked exactly once, in registration order',
                                  cx.new(GHOST).cb_log.seqs[0] == z3.Concat(cx.old(GHOST).cb_log.seqs[0], cbs_of(cx.old(cx.args['self'])))),
                                 ('ghost: this notification of the proxy is logged',
                                  cx.new(GHOST).proxy_log.seqs[0] == z3.Concat(cx.old(GHOST).proxy_log.seqs[0], z3.Unit(cx.a('self'))))],
             epilogue=log_proxy,
             loops={1: LoopSpec(invariant=proxy_lost_inv, ghost_index='_k1')})

    # the same function as its callers see it: it also counts as one notification of this proxy (ghost proxy_log)
    # ---- object handler
    def handler_inv(cx):
        cx.ctx.last_self = cx.args['self']
        lst = cx.L['_seq1'].seqs[0]
        k = cx.l('_k1')
        pre, suf = cx.ctx.prefix_of(lst, k)
        cx.ctx.prefix_of(lst, k + 1)
        return [('notified-so-far', cx.new(GHOST).proxy_log.seqs[0] == z3.Concat(cx.old(GHOST).proxy_log.seqs[0], pre)),
                ('callback invocations are only added', z3.PrefixOf(cx.old(GHOST).cb_log.seqs[0], cx.new(GHOST).cb_log.seqs[0])),
                ('live-set-unchanged', cx.unchanged(H + '._weakProxies'))]

    contract(w, 'txdbus.objects.DBusObjectHandler.connectionLost', {'self': Ref(H), 'reason': OPAQUE}, requires=remember,
             modifies=lambda cx: [(GHOST, 'Ghost.cb_log'), (GHOST, 'Ghost.proxy_log'), (cx.args['self'], H + '.g_lost')],
             ensures=lambda cx: [('connectionLost of every live proxy invoked exactly once',
                                  cx.new(GHOST).proxy_log.seqs[0] == z3.Concat(cx.old(GHOST).proxy_log.seqs[0], cx.old(cx.args['self'])._weakProxies.seqs[0])),
                                 ('callback invocations are only added', z3.PrefixOf(cx.old(GHOST).cb_log.seqs[0], cx.new(GHOST).cb_log.seqs[0])),
                                 ('ghost: the handler was notified once', cx.new(cx.args['self']).g_lost == cx.old(cx.args['self']).g_lost + 1)],
             epilogue=count_handler,
             loops={1: LoopSpec(invariant=handler_inv, ghost_index='_k1')})

    # ---- connection
    def entry(view, serial):
        pc = view._pendingCalls.val
        return (select_store(pc.dom, serial), select_store(pc.vals[0], serial), select_store(pc.vals[1], serial), select_store(pc.vals[2], serial))

    def pc_instances(cx, me, s):
        # PC (C08) instantiated at serial s, and against the skolem serial s0
        present, d, tnone, t = entry(me, s)
        s0 = cx.ctx.skolem('s0', IntSort)
        p0, d0, tnone0, t0 = entry(me, s0)
        return z3.And(z3.Implies(present, z3.And(z3.Not(cx.old(VRef(d, D)).called), z3.Implies(z3.Not(tnone), cx.old(VRef(t, T)).g_active))),
                      z3.Implies(z3.And(present, p0, s != s0), z3.And(d != d0, z3.Implies(z3.And(z3.Not(tnone), z3.Not(tnone0)), t != t0))))

    def conn_pre(cx):
        me = cx.old(cx.args['self'])
        s0 = cx.ctx.skolem('s0', IntSort)
        fac = VRef(me.factory.val.term, F)
        return [('PC@s0', z3.Implies(z3.Not(me._pendingCalls.none), pc_instances(cx, me, s0))),
                ('established connections have their tables', z3.Implies(z3.Not(me.busName.none), z3.Not(me._pendingCalls.none))),
                ('the connect Deferred is not one of the call Deferreds',
                 z3.Implies(z3.And(z3.Not(me.factory.none), z3.Not(me._pendingCalls.none), entry(me, s0)[0]), cx.old(fac).d != entry(me, s0)[1]))]

    def conn_post(cx):
        s = cx.args['self']
        me, new = cx.old(s), cx.new(s)
        s0 = cx.ctx.skolem('s0', IntSort)
        had_table = z3.Not(me._pendingCalls.none)
        present, d, tnone, t = entry(me, s0)
        dn, tn = cx.new(VRef(d, D)), cx.new(VRef(t, T))
        est = z3.Not(me.busName.none)
        hnd = VRef(me.objHandler, H)
        fac = VRef(me.factory.val.term, F)
        fd = VRef(cx.old(fac).d, D)
        return [('every outstanding call fails once with the loss reason and its timer is cancelled (at the arbitrary serial s0)',
                 z3.Implies(z3.And(had_table, present), z3.And(dn.called, dn.g_failed, dn.g_reason == cx.args['reason'].term,
                                                               z3.Implies(z3.Not(tnone), z3.Not(tn.g_active))))),
                ('no call stays recorded as pending', z3.Implies(had_table, z3.And(z3.Not(new._pendingCalls.none), z3.Not(select_store(new._pendingCalls.val.dom, s0))))),
                ('established: the disconnect callbacks run once each in registration order, the object handler is notified once, the connect Deferred is left alone',
                 z3.Implies(est, z3.And(z3.PrefixOf(z3.Concat(cx.old(GHOST).cb_log.seqs[0], me._dcCallbacks.seqs[0]), cx.new(GHOST).cb_log.seqs[0]),
                                        cx.new(hnd).g_lost == cx.old(hnd).g_lost + 1))),
                ('not established: the connect Deferred is failed with the reason unless it had already fired; no callback runs',
                 z3.Implies(z3.Not(est), z3.And(cx.new(GHOST).cb_log.seqs[0] == cx.old(GHOST).cb_log.seqs[0],
                                                cx.new(hnd).g_lost == cx.old(hnd).g_lost,
                                                z3.Implies(z3.Not(me.factory.none),
                                                           z3.And(cx.new(fd).called, z3.Implies(z3.Not(cx.old(fd).called), z3.And(cx.new(fd).g_failed, cx.new(fd).g_reason == cx.args['reason'].term)))))))]

    def cb_inv(cx):
        lst = cx.L['_seq2'].seqs[0]
        k = cx.l('_k2')
        pre, suf = cx.ctx.prefix_of(lst, k)
        cx.ctx.prefix_of(lst, k + 1)
        return [('invoked-so-far', cx.new(GHOST).cb_log.seqs[0] == z3.Concat(cx.old(GHOST).cb_log.seqs[0], pre)),
                ('nothing-else-yet', cx.unchanged(C + '._pendingCalls', C + '._dcCallbacks', C + '.busName', C + '.objHandler', C + '.factory', D + '.called', D + '.g_failed', D + '.g_reason', T + '.g_active', H + '.g_lost'))]

    def pending_inv(which):
        def inv(cx):
            s = cx.args['self']
            me = cx.old(s)
            ks = cx.L['_seq%d' % which].seqs[0]
            k = cx.l('_k%d' % which)
            pre, suf = cx.ctx.prefix_of(ks, k)
            cx.ctx.prefix_of(ks, k + 1)
            M = cx.ctx.membership
            s0 = cx.ctx.skolem('s0', IntSort)
            M.interest(s0)
            present, d, tnone, t = entry(me, s0)
            dn, tn, do, to = cx.new(VRef(d, D)), cx.new(VRef(t, T)), cx.old(VRef(d, D)), cx.old(VRef(t, T))
            # instance of PC at the entry about to be visited, against s0
            cx.ctx.assume(z3.Implies(z3.And(k >= 0, k < z3.Length(ks)), pc_instances(cx, me, ks[k])))
            done = M.mem(pre, s0)
            return [('visited entries are failed and their timers cancelled; the others are untouched',
                     z3.Implies(present, z3.If(done, z3.And(dn.called, dn.g_failed, dn.g_reason == cx.args['reason'].term, z3.Implies(z3.Not(tnone), z3.Not(tn.g_active))),
                                               z3.And(dn.called == do.called, z3.Implies(z3.Not(tnone), tn.g_active == to.g_active))))),
                    ('keys-are-distinct', z3.BoolVal(True))]
        return inv

    contract(w, 'txdbus.client.DBusClientConnection.connectionLost', {'self': Ref(C), 'reason': OPAQUE},
             requires=conn_pre, ensures=conn_post,
             modifies=lambda cx: [(GHOST, 'Ghost.cb_log'), (GHOST, 'Ghost.proxy_log'), (cx.args['self'], C + '._pendingCalls'), ('*', D + '.called'), ('*', D + '.g_failed'),
                                  ('*', D + '.g_reason'), ('*', T + '.g_active'), ('*', H + '.g_lost')],
             locals_types={},
             loops={1: LoopSpec(invariant=pending_inv(1), ghost_index='_k1'), 2: LoopSpec(invariant=cb_inv, ghost_index='_k2'),
                    3: LoopSpec(invariant=pending_inv(3), ghost_index='_k3')})
    # ---- disconnect(): closes the transport and nothing else (in particular the connection still counts as established,
    # so the loss that follows runs the disconnect callbacks)
    w.add_class(ClassSpec('Transport', None, {'g_closed': BOOL}, methods={'loseConnection': loseConnection}))
    contract(w, 'iface.Transport.loseConnection', {'self': Ref('Transport')}, fn=loseConnection,
             modifies=lambda cx: [(cx.args['self'], 'Transport.g_closed')],
             ensures=lambda cx: [('closing', cx.new(cx.args['self']).g_closed)], assumed=True)
    contract(w, 'txdbus.client.DBusClientConnection.disconnect', {'self': Ref(C)},
             modifies=lambda cx: [('*', 'Transport.g_closed')],
             ensures=lambda cx: [('the transport is asked to close', cx.new(VRef(cx.old(cx.args['self']).transport, 'Transport')).g_closed)])

    # ---- connect(): the endpoint walk
    w.add_class(ClassSpec('Endpoint', None, {}, methods={'connect': ep_connect}))
    w.add_class(ClassSpec('Failure', None, {}, methods={'getErrorMessage': getErrorMessage}))
    contract(w, 'iface.Endpoint.connect', {'self': Ref('Endpoint'), 'factory': Ref(F)}, fn=ep_connect, result=Ref(D),
             modifies=lambda cx: [(GHOST, 'Ghost.tried_log')],
             ensures=lambda cx: [('attempt-logged', cx.new(GHOST).tried_log.seqs[0] == z3.Concat(cx.old(GHOST).tried_log.seqs[0], z3.Unit(cx.a('self'))))],
             assumed=True)
    contract(w, 'iface.Failure.getErrorMessage', {'self': Ref('Failure')}, fn=getErrorMessage, result=STR, assumed=True)
    contract(w, 'txdbus.endpoints.getDBusEndpoints', {'reactor': OPAQUE, 'busAddress': STR, 'client': BOOL}, result=ListT(Ref('Endpoint')),
             ensures=lambda cx: [('the endpoints of the address list, in listed order', cx.result.seqs[0] == cx.old(GHOST).eps.seqs[0])], assumed=True)
    contract(w, 'txdbus.client.DBusClientFactory.getConnection', {'self': Ref(F)}, result=Ref(D),
             ensures=lambda cx: [('the connect Deferred', cx.result.term == cx.old(cx.args['self']).d)])

    def next_post(cx):
        lst0 = cx.arg0['eplist'][0] if getattr(cx, 'arg0', None) and 'eplist' in cx.arg0 else None
        old = lst0 if lst0 is not None else cx.args['eplist'].seqs[0]
        new = cx.args['eplist'].seqs[0]
        n = z3.Length(old)
        dd = VRef(cx.a('d'), D)
        shape = getattr(cx.ctx, 'shape', None)
        return [('a remaining endpoint: exactly the LAST of the (reversed) list is tried and removed, and a failure of the attempt comes back to this function',
                 z3.Implies(n >= 1, z3.And(cx.new(GHOST).tried_log.seqs[0] == z3.Concat(cx.old(GHOST).tried_log.seqs[0], z3.Unit(old[n - 1])),
                                           old == z3.Concat(new, z3.Unit(old[n - 1])),
                                           z3.BoolVal(shape == [(None, 'try_next_ep')]),
                                           cx.new(dd).called == cx.old(dd).called))),
                ('no endpoint left: the connect Deferred fails, nothing is tried',
                 z3.Implies(n == 0, z3.And(cx.new(dd).called, cx.new(dd).g_failed, cx.new(GHOST).tried_log.seqs[0] == cx.old(GHOST).tried_log.seqs[0])))]

    contract(w, 'nested:connect.try_next_ep', {'err': Opt(Ref('Failure')), 'eplist': ListT(Ref('Endpoint')), 'f': Ref(F), 'd': Ref(D)},
             fn=client.connect, nested='try_next_ep', mutates=('eplist',), epilogue=chain_shape09,
             requires=lambda cx: [('a failure is at hand when the list is exhausted', z3.Or(z3.Length(cx.args['eplist'].seqs[0]) >= 1, z3.BoolVal(not isinstance(cx.args['err'], VNone)))),
                                  ('the connect Deferred has not fired', z3.Not(cx.old(VRef(cx.a('d'), D)).called))],
             ensures=next_post,
             modifies=lambda cx: [(GHOST, 'Ghost.tried_log'), ('*', D + '.called'), ('*', D + '.g_failed'), ('*', D + '.g_reason')])

    def connect_post(cx):
        eps = cx.old(GHOST).eps.seqs[0]
        r = cx.result
        dd = cx.new(r)
        return [('the first endpoint tried is the first one listed; nothing else yet',
                 z3.Implies(z3.Length(eps) >= 1, z3.And(cx.new(GHOST).tried_log.seqs[0] == z3.Concat(cx.old(GHOST).tried_log.seqs[0], z3.Unit(eps[0])), z3.Not(dd.called)))),
                ('no valid address: the returned Deferred has failed', z3.Implies(z3.Length(eps) == 0, z3.And(dd.called, dd.g_failed)))]

    contract(w, 'txdbus.client.connect', {'reactor': OPAQUE, 'busAddress': STR}, result=Ref(D), ensures=connect_post,
             modifies=lambda cx: [(GHOST, 'Ghost.tried_log'), ('*', D + '.called'), ('*', D + '.g_failed'), ('*', D + '.g_reason'), ('*', F + '.d')])
    return w


def ep_connect(self, factory): pass
def getErrorMessage(self): pass


def chain_shape09(I):
    ctx = I.ctx
    chain = getattr(ctx, 'chain', None)
    def nm(f):
        return None if f is None or isinstance(f, VNone) else getattr(f, 'name', '?').split('.')[-1]
    ctx.shape = None if chain is None else [(nm(cb), nm(eb)) for cb, eb in chain]


def count_handler(I):
    me = I.ctx.last_self
    cur = I.ctx.heap_read(me, 'g_lost')
    I.ctx.heap_write(me, 'g_lost', VInt(cur.term + 1))


def others_same(cx, d):
    d0 = cx.ctx.skolem('d0', IntSort)
    o, n = cx.old(VRef(d0, D)), cx.new(VRef(d0, D))
    return z3.Implies(d0 != d, z3.And(o.called == n.called, o.g_failed == n.g_failed, o.g_reason == n.g_reason))


def build(tier='quick'):
    w = build_world()
    targets = ['txdbus.client.DBusClientConnection._cbGotHello', 'txdbus.client.DBusClientConnection.disconnect', 'nested:connect.try_next_ep', 'txdbus.client.connect', 'txdbus.client.DBusClientFactory.getConnection', 'txdbus.objects.RemoteDBusObject.notifyOnDisconnect', 'txdbus.objects.RemoteDBusObject.cancelNotifyOnDisconnect', 'txdbus.objects.RemoteDBusObject.connectionLost',
               'txdbus.objects.DBusObjectHandler.connectionLost', 'txdbus.client.DBusClientConnection.connectionLost']
    sp = Spec('C09', w, lambda world: Models09(world), targets, replay=replay,
              bounded=[{'name': 'connection-history', 'run': run_bounded}],
              trusted=['Deferred.errback / DelayedCall.cancel / factory._failed / factory._ok as interface stubs over ghost fields (a Deferred fires once, only an active timer is cancelled)'],
              assumed=['PC (established by the C08 contracts): a pending entry has an unfired Deferred and an active timer; two pending serials share neither; the connect Deferred is none of them',
                       'disconnect callbacks do not raise (a raising callback would stop the loop: outside the property)',
                       'list(WeakSet) is the list of live proxies; garbage collection of proxies is not modelled',
                       'connect(): each step of the endpoint walk is proved (the inner function as a target of its own); that the steps compose over a history of failures, getDBusEndpoints address parsing and connectionAuthenticated (which sends Hello and chains _cbGotHello / factory._failed on its reply) are covered by the bounded part only; _cbGotHello itself is under contract for every unique name',
                       'list.reverse() on a list of unknown length: uninterpreted rev with |rev(q)| = |q| and the two end elements (Python list semantics)'],
              notes=['the ghost logs (callback invocations, proxy notifications) are appended by the interface stub / by a ghost epilogue of the verified function'],
              explanation='connectionLost of the connection, the object handler and the proxies verified for every table state: exactly-once callbacks in order, every outstanding call failed once with its timer cancelled, connect Deferred failed iff not yet fired; connection histories through the real objects on top',
              design_ref='DESIGN.md 4/C09')
    return sp
