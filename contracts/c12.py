"""C12 - a signal reaches exactly the callbacks whose match rule it satisfies.

Spec rule_matches(R, m), from the statement and the match-rule section of the DBus specification:
  every simple constraint (message type, interface, member, path, destination) equals the message's field;
  path_namespace ns:  m.path == ns  or  ns == '/'  or  m.path starts with ns + '/';
  argN:     the body exists, has an argument N, it is a string equal to the value;
  argNpath: the body exists, has an argument N, it is a string a, and  a == v  or (v ends in '/' and a starts
            with v)  or  (a ends in '/' and v starts with a).
Deductive part: Rule.match(m) invokes the callback exactly once iff rule_matches(R, m) and never raises
(callback exceptions are swallowed), for every rule and message; Rule.add; MessageRouter.delMatch.  The three
loops carry "all constraints so far hold" as a ghost prefix predicate with unfolding facts instantiated at the loop index.
Bounded part (labelled): routeMessage over rule sets / add-remove histories, the rule built by addMatch, the rule
text sent to the daemon and the proxy's signature filter - by enumeration against a reference matcher.
"""
import itertools
import random

import z3

from pyvc.values import *  # noqa
from pyvc.engine import World, ClassSpec, LoopSpec
from pyvc.runner import Spec
from .base import contract, make_models, TxModels

R, M = 'Rule', 'Msg'
KEYS = ['_messageType', 'interface', 'member', 'path', 'destination']


def __call__(self, m): pass
def delMatch(self, rule_id): pass


class Models12(TxModels):
    def getattr_symbolic(self, I, obj, name, default):
        """getattr(m, k) for a symbolic key k: case split over the message fields a rule may name"""
        if not (isinstance(obj, VRef) and obj.cls == M):
            raise OutOfSubset('getattr with a symbolic name on %r' % (obj,))
        conds = [name.term == z3.StringVal(k) for k in KEYS]
        conds.append(z3.Not(z3.Or(conds)))
        k = I.ctx.choose(conds)
        if k == len(KEYS):
            if default is not None:
                return default
            I.raise_py(AttributeError)
        return I.getattr(obj, KEYS[k])

    def m_setattr(self, I, a, k):
        """setattr(rule, key, value) with a symbolic key: the rule attributes a match rule can carry"""
        obj, name, v = a
        if isinstance(name, VStr) and not z3.is_string_value(z3.simplify(name.term)) and isinstance(obj, VRef) and obj.cls == R:
            cands = ['path_namespace', 'args', 'arg_paths']
            conds = [name.term == z3.StringVal(c) for c in cands]
            conds.append(z3.Not(z3.Or(conds)))
            j = I.ctx.choose(conds)
            if j == len(cands):
                return VNone()          # any other attribute (sender, arg0namespace, ...): not looked at by match
            I.ctx.heap_write(obj, cands[j] + '?set', VBool(True))
            try:
                I.ctx.heap_write(obj, cands[j], v)
            except OutOfSubset:
                pass                    # value of a shape the model does not track: attribute counts as set
            return VNone()
        return super().m_setattr(I, a, k)

    def call_other(self, I, f, args, kwargs):
        if isinstance(f, VRef):
            stub = I.world.method(f.cls, '__call__')
            if stub is not None:
                return I.call(VFunc(stub, f), args, kwargs)
        return super().call_other(I, f, args, kwargs)


def build_world():
    from txdbus import router, message
    w = World()
    w.add_class(ClassSpec(M, message.DBusMessage, {
        '_messageType': INT, 'interface': Opt(STR), 'member': Opt(STR), 'path': Opt(STR), 'destination': Opt(STR),
        'body': Opt(ListT(DYN))}))
    w.add_class(ClassSpec('Callback', None, {'g_calls': INT}, methods={'__call__': __call__}))
    w.add_class(ClassSpec('MessageRouter', router.MessageRouter, {'_id': INT, '_rules': DictT(INT, Ref(R))}))
    w.add_class(ClassSpec(R, router.Rule, {
        'callback': Ref('Callback'), 'id': INT, 'router': Ref('MessageRouter'),
        'simple': ListT(TupleT(STR, DYN)),
        'path_namespace': STR, 'path_namespace?set': BOOL,
        'args': ListT(TupleT(INT, STR)), 'args?set': BOOL,
        'arg_paths': ListT(TupleT(INT, STR)), 'arg_paths?set': BOOL}))

    contract(w, 'iface.Callback.__call__', {'self': Ref('Callback'), 'm': Ref(M)}, fn=__call__,
             modifies=lambda cx: [(cx.args['self'], 'Callback.g_calls')],
             ensures=lambda cx: [('counted', cx.new(cx.args['self']).g_calls == cx.old(cx.args['self']).g_calls + 1)],
             raises={BaseException: lambda cx: z3.BoolVal(True)},
             raises_post={BaseException: lambda cx: [('counted', cx.new(cx.args['self']).g_calls == cx.old(cx.args['self']).g_calls + 1)]},
             assumed=True)

    # ---------------- spec pieces
    def field_eq(mv, key, val):
        """message field named key equals the rule value val (a dynamic value)"""
        kind, s, i = val
        def opt_str_eq(f):
            return z3.And(z3.Not(f.none), kind == 2, f.val.term == s)
        return z3.If(key == z3.StringVal('_messageType'), z3.And(kind == 1, i == mv._messageType),
               z3.If(key == z3.StringVal('interface'), opt_str_eq(mv.interface),
               z3.If(key == z3.StringVal('member'), opt_str_eq(mv.member),
               z3.If(key == z3.StringVal('path'), opt_str_eq(mv.path),
               z3.If(key == z3.StringVal('destination'), opt_str_eq(mv.destination), z3.BoolVal(False))))))

    def ns_ok(mv, ns):
        p = mv.path
        return z3.And(z3.Not(p.none), z3.Or(p.val.term == ns, ns == z3.StringVal('/'),
                                            z3.PrefixOf(z3.Concat(ns, z3.StringVal('/')), p.val.term)))

    def path_ok(a, v):
        sl = z3.StringVal('/')
        return z3.Or(a == v, z3.And(z3.SuffixOf(sl, v), z3.PrefixOf(v, a)), z3.And(z3.SuffixOf(sl, a), z3.PrefixOf(a, v)))

    class Ghost:
        """per-path ghost prefix predicates AS1/AS2/AS3(k) = the first k constraints of the respective
        list hold, with their unfolding facts instantiated at index terms on request"""
        def __init__(self, cx):
            self.cx, ctx = cx, cx.ctx
            s = cx.args['self']
            self.rv = cx.old(s)
            self.mv = cx.old(cx.args['m'])
            self.AS = [ctx.fresh('AS%d' % j, z3.ArraySort(IntSort, BoolSort)) for j in (1, 2, 3)]
            self.done = set()
            for a in self.AS:
                ctx.assume(z3.Select(a, 0))

        def sat(self, which, j):
            rv, mv = self.rv, self.mv
            if which == 0:
                sq = rv.simple.seqs
                return field_eq(mv, sq[0][j], (sq[1][j], sq[2][j], sq[3][j]))
            lst = (rv.args if which == 1 else rv.arg_paths).seqs
            idx, val = lst[0][j], lst[1][j]
            b = mv.body
            bs = b.val.seqs
            inb = z3.And(z3.Not(b.none), idx < z3.Length(bs[0]))
            if which == 1:
                # python: negative indices count from the end - rule indices come from argN, N >= 0 (precondition)
                return z3.And(inb, bs[0][idx] == 2, bs[1][idx] == val)
            return z3.And(inb, bs[0][idx] == 2, path_ok(bs[1][idx], val))

        def n(self, which):
            rv = self.rv
            return z3.Length((rv.simple, rv.args, rv.arg_paths)[which].seqs[0])

        def unfold(self, which, k):
            k = z3.simplify(k)
            key = (which, k.get_id())
            if key in self.done:
                return
            self.done.add(key)
            self.cx.ctx.keep.append(k)
            a, n = self.AS[which], self.n(which)
            ctx = self.cx.ctx
            ctx.assume(z3.Implies(z3.And(k >= 0, k < n), z3.Select(a, k + 1) == z3.And(z3.Select(a, k), self.sat(which, k))))
            # monotone: the whole list holds only if every prefix does
            ctx.assume(z3.Implies(z3.And(k >= 0, k <= n, z3.Select(a, n)), z3.Select(a, k)))

        def all(self, which):
            return z3.Select(self.AS[which], self.n(which))

        def rule_matches(self):
            rv, mv = self.rv, self.mv
            return z3.And(self.all(0),
                          z3.Implies(getattr(rv, 'path_namespace?set'), ns_ok(mv, rv.path_namespace)),
                          z3.Implies(getattr(rv, 'args?set'), z3.And(z3.Not(mv.body.none), self.all(1))),
                          z3.Implies(getattr(rv, 'arg_paths?set'), z3.And(z3.Not(mv.body.none), self.all(2))))

    def ghost(cx):
        g = getattr(cx.ctx, 'g12', None)
        if g is None:
            g = cx.ctx.g12 = Ghost(cx)
        return g

    def match_pre(cx):
        g = ghost(cx)
        rv = g.rv
        sq = rv.simple.seqs
        j = cx.ctx.fresh('j_any', IntSort)
        cx.ctx.j_any = j
        return [('rule-wf: simple keys are message fields (instance)',
                 z3.Implies(z3.And(j >= 0, j < z3.Length(sq[0])), z3.Or([sq[0][j] == z3.StringVal(k) for k in KEYS]))),
                ('rule-wf: argument indices are non-negative (instances)', z3.BoolVal(True))]

    def loop_inv(which, kname):
        def inv(cx):
            g = ghost(cx)
            k = cx.l(kname)
            g.unfold(which, k)
            g.unfold(which, k - 1)
            g.unfold(which, k + 1)
            rv = g.rv
            lst = (rv.simple, rv.args, rv.arg_paths)[which].seqs
            # instances of the quantified well-formedness preconditions at the element about to be visited
            if which == 0:
                cx.ctx.assume(z3.Implies(z3.And(k >= 0, k < z3.Length(lst[0])),
                                         z3.And(z3.Or([lst[0][k] == z3.StringVal(x) for x in KEYS]),
                                                # addMatch only records truthy values: an int type code or a non-empty string
                                                z3.If(lst[0][k] == z3.StringVal('_messageType'), lst[1][k] == 1, lst[1][k] == 2))))
            else:
                cx.ctx.assume(z3.Implies(z3.And(k >= 0, k < z3.Length(lst[0])), lst[0][k] >= 0))
            cb = VRef(rv.callback, 'Callback')
            out = [('prefix-holds', z3.Select(g.AS[which], k)),
                   ('not-called-yet', cx.new(cb).g_calls == cx.old(cb).g_calls),
                   ('rule-unchanged', cx.unchanged(R + '.simple', R + '.args', R + '.arg_paths', R + '.callback', R + '.path_namespace',
                                                   R + '.path_namespace?set', R + '.args?set', R + '.arg_paths?set',
                                                   M + '.body', M + '.path', M + '.interface', M + '.member', M + '.destination', M + '._messageType'))]
            if which >= 1:
                out.append(('earlier-groups', z3.And(g.all(0), z3.Implies(getattr(rv, 'path_namespace?set'), ns_ok(g.mv, rv.path_namespace)),
                                                      z3.Not(g.mv.body.none))))
            if which == 2:
                out.append(('args-group', z3.Implies(getattr(rv, 'args?set'), g.all(1))))
            return out
        return inv

    def match_post(cx):
        g = ghost(cx)
        for w_ in (0, 1, 2):
            g.unfold(w_, g.n(w_))
        cb = VRef(g.rv.callback, 'Callback')
        return [('called-exactly-once-iff-rule-matches',
                 cx.new(cb).g_calls == cx.old(cb).g_calls + z3.If(g.rule_matches(), 1, 0))]

    contract(w, 'txdbus.router.Rule.match', {'self': Ref(R), 'm': Ref(M)},
             requires=match_pre, ensures=match_post,
             modifies=lambda cx: [('*', 'Callback.g_calls')],
             loops={1: LoopSpec(invariant=loop_inv(0, '_k1'), ghost_index='_k1'),
                    2: LoopSpec(invariant=loop_inv(1, '_k2'), ghost_index='_k2'),
                    3: LoopSpec(invariant=loop_inv(2, '_k3'), ghost_index='_k3')})

    def add_post(cx):
        s = cx.args['self']
        o, n = cx.old(s), cx.new(s)
        key = cx.a('key')
        simple = z3.Or([key == z3.StringVal(k) for k in KEYS])
        v = cx.args['value']
        return [('simple-key-appended', z3.Implies(simple, z3.And(
            n.simple.seqs[0] == z3.Concat(o.simple.seqs[0], z3.Unit(key)),
            n.simple.seqs[1] == z3.Concat(o.simple.seqs[1], z3.Unit(v.kind)),
            n.simple.seqs[2] == z3.Concat(o.simple.seqs[2], z3.Unit(v.s)),
            n.simple.seqs[3] == z3.Concat(o.simple.seqs[3], z3.Unit(v.i))))),
            ('other-key-leaves-simple', z3.Implies(z3.Not(simple), z3.And([a == b for a, b in zip(n.simple.seqs, o.simple.seqs)])))]

    contract(w, 'txdbus.router.Rule.add', {'self': Ref(R), 'key': STR, 'value': DYN},
             ensures=add_post, raises={Exception: lambda cx: z3.BoolVal(True)}, may_raise_any=True,
             modifies=lambda cx: [(cx.args['self'], R + '.' + f) for f in ('simple', 'path_namespace', 'path_namespace?set', 'args', 'args?set', 'arg_paths', 'arg_paths?set')])

    contract(w, 'txdbus.router.MessageRouter.delMatch', {'self': Ref('MessageRouter'), 'rule_id': INT},
             requires=lambda cx: [('registered', z3.Select(cx.old(cx.args['self'])._rules.dom, cx.a('rule_id')))],
             ensures=lambda cx: [('removed', z3.And(cx.new(cx.args['self'])._rules.dom == z3.Store(cx.old(cx.args['self'])._rules.dom, cx.a('rule_id'), False),
                                                    cx.new(cx.args['self'])._rules.vals[0] == cx.old(cx.args['self'])._rules.vals[0]))],
             modifies=lambda cx: [(cx.args['self'], 'MessageRouter._rules')])
    # ---- addMatch: the id handed out is one no registered rule has, the rule is stored under it, every other entry is kept
    def addmatch_pre(cx):
        me = cx.old(cx.args['self'])
        y = cx.ctx.skolem('y_id', IntSort)
        return [('ids-below-the-counter@y: every registered rule id is smaller than the counter (MessageRouter invariant)',
                 z3.Implies(z3.Select(me._rules.dom, y), z3.And(y >= 0, y < me._id))),
                ('ids-below-the-counter@counter: the same invariant at the counter value itself', z3.Not(z3.Select(me._rules.dom, me._id))),
                ('counter-non-negative', me._id >= 0)]

    def addmatch_post(cx):
        me, new = cx.old(cx.args['self']), cx.new(cx.args['self'])
        r = cx.result.term
        y = cx.ctx.skolem('y_id', IntSort)
        rule = VRef(z3.Select(new._rules.vals[0], r), R)
        return [('the id returned belongs to no rule registered before', z3.Not(z3.Select(me._rules.dom, r))),
                ('the new rule is registered under it with the given callback; every other registration is kept',
                 z3.And(new._rules.dom == z3.Store(me._rules.dom, r, True), cx.new(rule).callback == cx.a('callback'), cx.new(rule).id == r,
                        z3.Implies(y != r, z3.Select(new._rules.vals[0], y) == z3.Select(me._rules.vals[0], y)))),
                ('invariant kept@y', z3.And(new._id > r, z3.Implies(z3.Select(new._rules.dom, y), y < new._id)))]

    # (the id bookkeeping does not depend on which constraints are given: three constraint arguments are symbolic, the others
    #  None here - 2^10 truthiness combinations are too many paths; the bounded histories use every kind of constraint)
    OPT = Opt(STR)
    contract(w, 'txdbus.router.MessageRouter.addMatch',
             {'self': Ref('MessageRouter'), 'callback': Ref('Callback'), 'mtype': OPT, 'sender': NONE, 'interface': OPT, 'member': OPT, 'path': NONE,
              'path_namespace': NONE, 'destination': NONE, 'args': NONE, 'arg_paths': NONE, 'arg0namespace': NONE},
             result=INT, requires=addmatch_pre, ensures=addmatch_post,
             raises={Exception: lambda cx: z3.BoolVal(True)}, may_raise_any=True,
             modifies=lambda cx: [(cx.args['self'], 'MessageRouter._id'), (cx.args['self'], 'MessageRouter._rules')] +
                                 [('*', R + '.' + f) for f in ('callback', 'id', 'router', 'simple', 'path_namespace', 'path_namespace?set', 'args', 'args?set', 'arg_paths', 'arg_paths?set')])
    return w


# --------------------------------------------------------------------------- concrete side
def ref_matches(rule, m):
    """reference matcher written from the statement"""
    types = {'method_call': 1, 'method_return': 2, 'error': 3, 'signal': 4}
    if rule.get('mtype') and types[rule['mtype']] != m['type']:
        return False
    for k in ('interface', 'member', 'path', 'destination'):
        if rule.get(k) and m.get(k) != rule[k]:
            return False
    ns = rule.get('path_namespace')
    if ns:
        p = m.get('path')
        if p is None or not (p == ns or ns == '/' or p.startswith(ns + '/')):
            return False
    body = m.get('body')
    for idx, val in rule.get('args') or []:
        if body is None or idx >= len(body) or not isinstance(body[idx], str) or body[idx] != val:
            return False
    for idx, val in rule.get('arg_paths') or []:
        if body is None or idx >= len(body) or not isinstance(body[idx], str):
            return False
        a = body[idx]
        if not (a == val or (val.endswith('/') and a.startswith(val)) or (a.endswith('/') and val.startswith(a))):
            return False
    return True


class FakeMsg:
    def __init__(self, d):
        self._messageType = d['type']
        for k in ('interface', 'member', 'path', 'destination', 'body'):
            setattr(self, k, d.get(k))
        self.signature = d.get('signature')
        self.sender = None


RULES = [
    {}, {'mtype': 'signal'}, {'mtype': 'method_call'}, {'interface': 'org.a.I'}, {'member': 'Sig'}, {'path': '/a/b'},
    {'path_namespace': '/a/b'}, {'path_namespace': '/'}, {'path': '/'}, {'destination': ':1.5'}, {'args': [(0, 'x')]}, {'args': [(1, 'y')]},
    {'arg_paths': [(0, '/aa/')]}, {'arg_paths': [(0, '/aa/bb')]}, {'arg_paths': [(0, '/aa')]},
    {'mtype': 'signal', 'interface': 'org.a.I', 'member': 'Sig', 'path': '/a/b'},
    {'path_namespace': '/a/b', 'args': [(0, 'x')]},
    # only STRING arguments can satisfy an argument constraint: 5, True, 2.5 are not '5', 'True', '2.5'
    {'args': [(0, '5')]}, {'args': [(0, 'True')]}, {'args': [(0, '2.5')]}, {'arg_paths': [(0, '5')]}, {'args': [(0, "['x']")]},
]
MSGS = [
    {'type': 4, 'interface': 'org.a.I', 'member': 'Sig', 'path': '/a/b'},
    {'type': 4, 'interface': 'org.a.I', 'member': 'Sig', 'path': '/a/bc'},
    {'type': 4, 'interface': 'org.a.I', 'member': 'Sig', 'path': '/a/b/c', 'body': ['x', 'y']},
    {'type': 4, 'interface': 'org.a.J', 'member': 'Sig', 'path': '/a', 'body': [5, 'y']},
    {'type': 4, 'interface': 'org.a.I', 'member': 'Other', 'path': '/', 'body': ['/aa/bb']},
    {'type': 4, 'interface': 'org.a.I', 'member': 'Sig', 'path': '/a/b', 'body': ['/aa/']},
    {'type': 4, 'interface': 'org.a.I', 'member': 'Sig', 'path': '/a/b', 'body': ['/aa']},
    {'type': 4, 'interface': 'org.a.I', 'member': 'Sig', 'path': '/a/b', 'body': []},
    {'type': 4, 'interface': 'org.a.I', 'member': 'Sig', 'path': '/a/b', 'destination': ':1.5', 'body': ['x']},
    {'type': 1, 'interface': 'org.a.I', 'member': 'Sig', 'path': '/a/b', 'body': ['x']},
    {'type': 4, 'interface': 'org.a.I', 'member': 'Sig', 'path': '/a/b', 'body': [['x']]},
    {'type': 4, 'interface': 'org.a.I', 'member': 'Sig', 'path': '/a/b', 'body': [True]},
    {'type': 4, 'interface': 'org.a.I', 'member': 'Sig', 'path': '/a/b', 'body': [2.5]},
    {'type': 4, 'interface': 'org.a.I', 'member': 'Sig', 'path': '/a/b', 'body': [5]},
    {'type': 4, 'interface': 'org.a.I', 'member': 'Sig', 'path': '/a/b', 'body': ['5']},
]


def route_case(rules, msgs, raising=(), removed=()):
    """register rules (some callbacks raise), remove some, route every message: compare deliveries"""
    from txdbus import router
    r = router.MessageRouter()
    got = {}
    ids = []
    for n, rule in enumerate(rules):
        def cb(m, n=n):
            got.setdefault(n, []).append(m)
            if n in raising:
                # whatever a callback raises - an ordinary error, or the cancellation / generator-exit signals that do not derive from Exception
                import asyncio
                raise (RuntimeError, asyncio.CancelledError, GeneratorExit)[(n + len(rules)) % 3]('callback %d fails' % n)
        ids.append(r.addMatch(cb, **rule))
    if len(set(ids)) != len(ids):
        return 'rule ids not fresh: %r' % ids
    for n in removed:
        r.delMatch(ids[n])
    for mi, md in enumerate(msgs):
        got.clear()
        m = FakeMsg(md)
        try:
            r.routeMessage(m)
        except (Exception, GeneratorExit) as e:
            return 'routeMessage raised %s: %s (rules %r, message %r)' % (type(e).__name__, e, rules, md)
        except BaseException as e:
            if type(e).__name__ != 'CancelledError':
                raise
            return 'routeMessage raised %s: %s (rules %r, message %r)' % (type(e).__name__, e, rules, md)
        for n, rule in enumerate(rules):
            want = 0 if n in removed else (1 if ref_matches(rule, md) else 0)
            have = len(got.get(n, []))
            if have != want:
                return 'rule %r (#%d%s) got %d deliveries of %r, expected %d' % (rule, n, ', removed' if n in removed else '', have, md, want)
    return None


def interleaved_history_case(rnd, steps=14):
    """rules added and removed in any order: every rule alive at a moment keeps its own id and its own callback"""
    from txdbus import router
    r = router.MessageRouter()
    live = {}            # id -> (rule, tag)
    got = []
    tag = [0]
    hist = []
    for _ in range(steps):
        if live and rnd.random() < 0.4:
            rid = rnd.choice(sorted(live))
            hist.append(('del', rid))
            r.delMatch(rid)
            del live[rid]
        else:
            rule = rnd.choice(RULES)
            tag[0] += 1
            t = tag[0]
            rid = r.addMatch(lambda m, t=t: got.append(t), **rule)
            hist.append(('add', rid, rule))
            if rid in live:
                return 'addMatch returned id %r which belongs to a rule that is still registered (history %r)' % (rid, hist)
            live[rid] = (rule, t)
        md = rnd.choice(MSGS)
        del got[:]
        r.routeMessage(FakeMsg(md))
        want = sorted(t for rule, t in live.values() if ref_matches(rule, md))
        if sorted(got) != want:
            return 'after history %r the message %r reached callbacks %r, expected %r' % (hist, md, sorted(got), want)
    return None


def client_text_case():
    """rule text sent to the daemon == the constraints; router rule installed only after the daemon acknowledged"""
    from twisted.internet import defer
    from txdbus import client, router
    c = client.DBusClientConnection()
    c.router = router.MessageRouter()
    c.match_rules = {}
    sent = []
    pending = []

    def callRemote(path, member, **kw):
        sent.append((member, kw.get('body')))
        d = defer.Deferred()
        pending.append(d)
        return d
    c.callRemote = callRemote
    kw = dict(mtype='signal', interface='org.a.I', member='Sig', path='/a/b', path_namespace='/a', destination=':1.2',
              arg=[(0, 'x'), (2, 'z')], arg_path=[(1, '/p/')])
    res = []
    c.addMatch(lambda m: None, **kw).addCallback(res.append)
    if c.router._rules:
        return 'router rule installed before the daemon acknowledged'
    pending[0].callback(None)
    if len(res) != 1 or len(c.router._rules) != 1:
        return 'rule not installed after acknowledgement'
    text = sent[0][1][0]
    want = {"type='signal'", "interface='org.a.I'", "member='Sig'", "path='/a/b'", "path_namespace='/a'", "destination=':1.2'",
            "arg0='x'", "arg2='z'", "arg1path='/p/'"}
    if set(text.split(',')) != want:
        return 'rule text %r does not express the constraints %r' % (text, sorted(want))
    m = FakeMsg({'type': 4, 'interface': 'org.a.I', 'member': 'Sig', 'path': '/a/b', 'destination': ':1.2', 'body': ['x', '/p/q', 'z']})
    hits = []
    c.router._rules[res[0]].callback = hits.append
    c.router.routeMessage(m)
    if len(hits) != 1:
        return 'installed rule does not match the signal its text describes'
    # an argument constraint whose value is the empty string is still a constraint: it must reach the daemon as arg0=''
    del sent[:]
    del pending[:]
    c.addMatch(lambda m: None, mtype='signal', member='Note', arg=[(0, '')])
    text = sent[0][1][0]
    if set(text.split(',')) != {"type='signal'", "member='Note'", "arg0=''"}:
        return "rule text %r sent for the constraints type=signal, member=Note, arg0='' (empty string)" % (text,)
    return None


def client_daemon_consistency_case():
    """add the same rule twice, remove one: the daemon must still hold the rule while a callback is registered with it"""
    from twisted.internet import defer
    from txdbus import client, router
    c = client.DBusClientConnection()
    c.router = router.MessageRouter()
    c.match_rules = {}
    daemon = []          # multiset of rule texts the daemon holds

    def callRemote(path, member, **kw):
        if member == 'AddMatch':
            daemon.append(kw['body'][0])
        elif member == 'RemoveMatch':
            if kw['body'][0] in daemon:
                daemon.remove(kw['body'][0])
        return defer.succeed(None)
    c.callRemote = callRemote
    ids = []
    for _ in range(2):
        c.addMatch(lambda m: None, mtype='signal', interface='org.a.I', member='Sig').addCallback(ids.append)
    c.delMatch(ids[0])
    for rid, text in c.match_rules.items():
        if text not in daemon:
            return 'rule %r is still registered locally (id %r) but the daemon no longer holds it' % (text, rid)
    return None


def removal_during_dispatch_case():
    """a callback removes another rule (or its own) while a signal is being routed: from that moment the removed rule's callback
    is not invoked - not even for the signal in flight.  (What happens to the REMAINING rules of that dispatch is not asserted:
    the unchanged router aborts the dispatch with RuntimeError when its rule table changes under it; callbacks re-entering the
    router are outside what the contracts cover - see the assumptions.)"""
    from txdbus import router
    for victim in ('later', 'self', 'earlier'):
        r = router.MessageRouter()
        log = []
        ids = {}

        def remover(m):
            log.append('remover')
            target = {'later': 'b', 'self': 'a', 'earlier': 'z'}[victim]
            if target in ids:
                r.delMatch(ids.pop(target))
                log.append('removed:' + target)
        ids['z'] = r.addMatch(lambda m: log.append('z'), mtype='signal')
        ids['a'] = r.addMatch(remover, mtype='signal')
        ids['b'] = r.addMatch(lambda m: log.append('b'), mtype='signal')
        for round_ in range(2):
            try:
                r.routeMessage(FakeMsg(MSGS[0]))
            except RuntimeError:
                pass
            except Exception as e:
                return 'a callback removing the %s rule during dispatch: routeMessage raised %s: %s' % (victim, type(e).__name__, e)
        target = {'later': 'b', 'self': 'remover', 'earlier': 'z'}[victim]
        cut = log.index('removed:' + {'later': 'b', 'self': 'a', 'earlier': 'z'}[victim])
        if target in log[cut + 1:]:
            return 'the %s rule was removed by a callback during dispatch, its callback was still invoked afterwards: %r' % (victim, log)
    return None


def client_rule_semantics_case():
    """the rule a client registers through DBusClientConnection.addMatch - once the daemon acknowledged it - hands the callback
    exactly the messages the constraints describe: every constraint key (the message type included), every message"""
    from twisted.internet import defer
    from txdbus import client, router
    rules = [r for r in RULES] + [{'mtype': 'method_call', 'interface': 'org.a.I', 'member': 'Sig'}, {'mtype': 'error'}, {'mtype': 'method_return', 'path': '/a/b'},
                                  {'mtype': 'signal', 'interface': 'org.a.I', 'member': 'Sig'}]
    for rule in rules:
        c = client.DBusClientConnection()
        c.router = router.MessageRouter()
        c.match_rules = {}
        c.callRemote = lambda path, member, **kw: defer.succeed(None)
        got = []
        kw = {k: v for k, v in rule.items() if k not in ('args', 'arg_paths')}
        if 'args' in rule:
            kw['arg'] = rule['args']
        if 'arg_paths' in rule:
            kw['arg_path'] = rule['arg_paths']
        try:
            c.addMatch(got.append, **kw)
        except Exception as e:
            return 'client addMatch(%r) raised %s: %s' % (kw, type(e).__name__, e)
        # signals arrive through the connection's signalReceived - whatever their destination field says (our unique name, another
        # connection's, a well-known name: the daemon delivered it here because a rule of ours matched) - other messages through the router
        c.busName = ':1.7'
        more = [dict(MSGS[0], destination=d) for d in (':1.7', ':1.99', 'org.well.Known')]
        for md in MSGS + more:
            del got[:]
            if md.get('type') == 4:
                c.signalReceived(FakeMsg(md))
            else:
                c.router.routeMessage(FakeMsg(md))
            want = 1 if ref_matches(rule, md) else 0
            if len(got) != want:
                return 'a client rule with the constraints %r was handed %r %d times, expected %d' % (rule, md, len(got), want)
    return None


def proxy_cancel_case():
    """signal subscriptions of a proxy: each notifyOnSignal returns the id of its rule; cancelling an id - the first one handed
    out on a connection included - removes that subscription (RemoveMatch sent, the callback is not invoked again) and no other"""
    from twisted.internet import defer
    from txdbus import client, interface, objects, router
    iface = interface.DBusInterface('org.a.P', interface.Signal('S', 's'), interface.Signal('T', 's'), noRegister=True)
    c = client.DBusClientConnection()
    c.router = router.MessageRouter()
    c.match_rules = {}
    calls = []

    def callRemote(path, member, **kw):
        calls.append((member, kw.get('body')))
        return defer.succeed(None)
    c.callRemote = callRemote

    class H:
        conn = c
    o = objects.RemoteDBusObject(H, ':1.1', '/a', [iface])
    got = {}
    ids = []
    for name in ('S', 'T', 'S'):
        tag = '%s#%d' % (name, len(ids))
        res = []
        o.notifyOnSignal(name, lambda *a, tag=tag: got.setdefault(tag, []).append(a)).addCallback(res.append)
        if len(res) != 1:
            return 'notifyOnSignal(%s) did not hand out a rule id' % name
        ids.append((tag, res[0]))

    def emit():
        got.clear()
        for name in ('S', 'T'):
            c.router.routeMessage(FakeMsg({'type': 4, 'interface': 'org.a.P', 'member': name, 'path': '/a', 'signature': 's', 'body': ['x']}))
        return {t: len(v) for t, v in got.items()}
    if emit() != {'S#0': 1, 'T#1': 1, 'S#2': 1}:
        return 'three proxy subscriptions: one emission of S and T invoked %r' % emit()
    live = dict(ids)
    for tag, rid in ids:
        n0 = len([x for x in calls if x[0] == 'RemoveMatch'])
        try:
            o.cancelSignalNotification(rid)
        except Exception as e:
            return 'cancelSignalNotification(%r) raised %s: %s' % (rid, type(e).__name__, e)
        del live[tag]
        if len([x for x in calls if x[0] == 'RemoveMatch']) != n0 + 1:
            return 'cancelling the subscription with rule id %r sent no RemoveMatch' % (rid,)
        want = {t: 1 for t in live}
        if emit() != want:
            return 'after cancelling the subscription %s (rule id %r) an emission invoked %r, expected %r' % (tag, rid, emit(), want)
    return None


def shared_callback_case():
    """one callback (the same function, bound methods of one object) registered under several rules is invoked once PER MATCHING
    RULE; removing one of the rules takes away exactly that rule's invocation"""
    from txdbus import router

    class Receiver:
        def __init__(self): self.got = []
        def on_signal(self, m): self.got.append(m)
    for rules in ([RULES[1], RULES[3], RULES[4], {}], [RULES[3], RULES[3]], [RULES[9], RULES[15], RULES[6]]):
        r = router.MessageRouter()
        rc = Receiver()
        plain = []
        f = plain.append
        ids = [r.addMatch(rc.on_signal, **rule) for rule in rules] + [r.addMatch(f, **rule) for rule in rules]
        for md in MSGS:
            del rc.got[:], plain[:]
            r.routeMessage(FakeMsg(md))
            want = sum(1 for rule in rules if ref_matches(rule, md))
            if len(rc.got) != want or len(plain) != want:
                return 'one callback registered under the rules %r: %r matches %d of them, the bound method was invoked %d times, the function %d times' % (
                    rules, md, want, len(rc.got), len(plain))
        r.delMatch(ids[0])
        for md in MSGS:
            del rc.got[:]
            r.routeMessage(FakeMsg(md))
            want = sum(1 for rule in rules[1:] if ref_matches(rule, md))
            if len(rc.got) != want:
                return 'after removing the first of the rules %r sharing one callback: %r invoked it %d times, expected %d' % (rules, md, len(rc.got), want)
    return None


def daemon_rule_text_case():
    """the rule text the client writes, parsed by the daemon (Bus.dbus_AddMatch), selects exactly the signals the
    constraints describe - including argument indices of two digits (the specification allows arg0 .. arg63)"""
    from twisted.internet import defer
    from txdbus import bus, client, router
    wide = ['a%d' % i for i in range(14)]
    rules = [r for r in RULES if r] + [
        {'args': [(10, 'a10')]}, {'args': [(13, 'a13'), (1, 'a1')]}, {'args': [(10, 'zz')]}, {'arg_paths': [(12, '/w/')]},
        {'arg_paths': [(11, '/w/x')], 'args': [(0, 'a0')]}, {'mtype': 'signal', 'member': 'Sig', 'args': [(63, 'far')]},
        # values with characters that mean nothing special between the quotes of a rule text: backslashes, blanks, a colon
        {'args': [(0, 'C:\\Users\\me')]}, {'args': [(1, '^\\d+$')]}, {'args': [(0, 'two words')]}, {'args': [(0, 'trailing\\')]}]
    msgs = MSGS + [
        {'type': 4, 'interface': 'org.a.I', 'member': 'Sig', 'path': '/a/b', 'body': ['C:\\Users\\me', '^\\d+$']},
        {'type': 4, 'interface': 'org.a.I', 'member': 'Sig', 'path': '/a/b', 'body': ['C:\\\\Users\\\\me', '^\\\\d+$']},
        {'type': 4, 'interface': 'org.a.I', 'member': 'Sig', 'path': '/a/b', 'body': ['two words', 'x']},
        {'type': 4, 'interface': 'org.a.I', 'member': 'Sig', 'path': '/a/b', 'body': ['trailing\\', 'x']},
        {'type': 4, 'interface': 'org.a.I', 'member': 'Sig', 'path': '/a/b', 'body': ['trailing\\\\', 'x']},
        {'type': 4, 'interface': 'org.a.I', 'member': 'Sig', 'path': '/a/b', 'body': list(wide)},
        {'type': 4, 'interface': 'org.a.I', 'member': 'Sig', 'path': '/a/b', 'body': wide[:10] + ['other'] + wide[11:]},
        {'type': 4, 'interface': 'org.a.I', 'member': 'Sig', 'path': '/a/b', 'body': wide[:11] + ['/w/x', '/w/x/y', 'a13']},
        {'type': 4, 'interface': 'org.a.I', 'member': 'Sig', 'path': '/a/b', 'body': wide[:11] + ['/w', '/q/', 'a13']},
        {'type': 4, 'interface': 'org.a.I', 'member': 'Sig', 'path': '/a/b', 'body': ['a0', 'a1']},
        {'type': 4, 'interface': 'org.a.I', 'member': 'Sig', 'path': '/a/b', 'body': ['x'] * 63 + ['far']},
        {'type': 4, 'interface': 'org.a.I', 'member': 'Sig', 'path': '/a/b', 'body': ['x'] * 6 + ['far']}]
    for rule in rules:
        c = client.DBusClientConnection()
        c.router = router.MessageRouter()
        c.match_rules = {}
        sent = []

        def callRemote(path, member, **kw):
            sent.append(kw.get('body'))
            return defer.succeed(None)
        c.callRemote = callRemote
        kw = {k: v for k, v in rule.items() if k not in ('args', 'arg_paths')}
        if 'args' in rule:
            kw['arg'] = rule['args']
        if 'arg_paths' in rule:
            kw['arg_path'] = rule['arg_paths']
        c.addMatch(lambda m: None, **kw)
        text = sent[0][0]
        b = bus.Bus()
        got = []

        class Peer:
            matchRules = set()
            uniqueName = ':1.7'

            def sendMessage(self, m):
                got.append(m)
        b.clients[':1.7'] = Peer()
        try:
            b.dbus_AddMatch(text, dbusCaller=':1.7')
        except Exception as e:
            return 'the daemon failed on the rule text %r written by the client: %s: %s' % (text, type(e).__name__, e)
        for md in msgs:
            del got[:]
            b.router.routeMessage(FakeMsg(md))
            want = 1 if ref_matches(rule, md) else 0
            if len(got) != want:
                return 'constraints %r, sent to the daemon as %r: the daemon delivered %r %d times, expected %d' % (rule, text, md, len(got), want)
    return None


def proxy_signature_case():
    from txdbus import objects, interface
    from twisted.internet import defer
    iface = interface.DBusInterface('org.a.P', interface.Signal('S', 'si'), noRegister=True)

    class Conn:
        def addMatch(self, cb, **kw):
            self.cb = cb
            return defer.succeed(1)

    class H:
        conn = Conn()
    o = objects.RemoteDBusObject(H, ':1.1', '/a', [iface])
    got = []
    o.notifyOnSignal('S', lambda *a: got.append(a))
    H.conn.cb(FakeMsg({'type': 4, 'signature': 'si', 'body': ['a', 1]}))
    H.conn.cb(FakeMsg({'type': 4, 'signature': 's', 'body': ['a']}))
    H.conn.cb(FakeMsg({'type': 4, 'signature': None, 'body': None}))
    if got != [('a', 1)]:
        return 'proxy callback got %r, expected only the signal with the declared signature' % (got,)
    return None


def bounded(tier, seed):
    rnd = random.Random(seed)
    n = 0
    for rule in RULES:                      # every single rule x every message
        n += 1
        f = route_case([rule], MSGS)
        if f:
            return n, f, {'rules': [rule]}
    for a, b in itertools.combinations(range(len(RULES)), 2):      # pairs, first raising, second removed
        for raising, removed in (((), ()), ((0,), ()), ((), (1,))):
            n += 1
            f = route_case([RULES[a], RULES[b]], MSGS[:6], raising, removed)
            if f:
                return n, f, {'rules': [RULES[a], RULES[b]], 'raising': raising, 'removed': removed}
    for _ in range(20000 if tier == 'thorough' else 40):
        k = rnd.randrange(1, 5)
        rules = [dict(rnd.choice(RULES), **rnd.choice(RULES)) for _ in range(k)]
        raising = tuple(i for i in range(k) if rnd.random() < 0.3)
        removed = tuple(i for i in range(k) if rnd.random() < 0.3)
        n += 1
        f = route_case(rules, MSGS, raising, removed)
        if f:
            return n, f, {'rules': rules, 'raising': raising, 'removed': removed}
    for _ in range(5000 if tier == 'thorough' else 40):
        n += 1
        f = interleaved_history_case(rnd)
        if f:
            return n, f, {'case': 'interleaved add/remove history'}
    for case in (client_text_case, client_daemon_consistency_case, daemon_rule_text_case, removal_during_dispatch_case, shared_callback_case, client_rule_semantics_case, proxy_cancel_case, proxy_signature_case):
        n += 1
        f = case()
        if f:
            return n, f, {'case': case.__name__}
    return n, None, None


def replay(function, clause, model):
    n, f, inp = bounded('quick', 5)
    return {'reproduced': bool(f), 'input': inp, 'detail': f or 'no failing rule/message combination among %d cases' % n}


def run_bounded(tier, seed):
    n, f, inp = bounded(tier, seed)
    return {'tool': 'enumeration of rules x signals x add/remove histories (real MessageRouter / client.addMatch / RemoteDBusObject.notifyOnSignal) against a reference matcher',
            'bound': '21 rules x 15 messages singly, all rule pairs with raising / removed variants, %d random rule sets of up to 4 merged rules; client rule text, the daemon\'s parsing of that text (indices up to 63) and proxy signature filter cases' % (20000 if tier == 'thorough' else 40),
            'evaluations': n, 'failures': [] if not f else [{'function': 'txdbus.router', 'clause': 'delivery', 'input': inp, 'detail': f}]}


def build(tier='quick'):
    w = build_world()
    return Spec('C12', w, lambda world: Models12(world),
                ['txdbus.router.Rule.match', 'txdbus.router.Rule.add', 'txdbus.router.MessageRouter.delMatch', 'txdbus.router.MessageRouter.addMatch'],
                replay=replay, bounded=[{'name': 'rule-matching', 'run': run_bounded}],
                trusted=['z3 string / sequence theory', 'dynamic message arguments modelled as None / int / str / other (only strings are compared)'],
                assumed=['callback.__call__ interface: counted once, may raise anything',
                         'rule well-formedness (keys of simple constraints are message fields; argument indices >= 0) - established by Rule.add / addMatch, assumed as quantified precondition, instantiated at the visited element'],
                notes=['routeMessage / addMatch / client rule text / proxy signature filter: bounded stand-in only'],
                explanation='Rule.match: callback count == old + (rule_matches ? 1 : 0) for every rule and message (three loop invariants over ghost prefix predicates); Rule.add and delMatch exact; the rest by bounded enumeration against a reference matcher',
                design_ref='DESIGN.md 4/C12')
