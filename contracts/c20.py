"""C20 - file descriptors stay attached to the message that carried them.

Sender:   marshal_unix_fd appends the descriptor to the message's out-of-band list and encodes its
          POSITION (so positions are argument order);  sendMessage passes the message's descriptors to the
          transport in list order and only then writes the message bytes (ghost transport log).
Receiver: fileDescriptorReceived appends to the queue;  unmarshal_unix_fd resolves index i to queue[i]
          (None when absent);  rawDBusMessageReceived consumes exactly the declared count from the head of
          the queue, so descriptors of later messages that are already queued stay for those messages.
The interleaving quantifier is the invariant "queue == descriptors of undelivered messages in sending order",
preserved by the two event handlers (each atomic); read splitting is C04.
Bounded stand-in (labelled): message sequences with 0-3 descriptors each x arrival interleavings x read sizes
through the real protocol objects, including the unix_fds header written by _marshal and callRemote's fresh list.
"""
import itertools
import random

import z3

from pyvc.values import *  # noqa
from pyvc.engine import World, ClassSpec, LoopSpec
from pyvc.runner import Spec
from pyvc.models import packed, unpacked
from .base import contract, TxModels

P, TR, MSG = 'BasicDBusProtocol', 'Transport', 'Msg'


def sendFileDescriptor(self, fd): pass
def write(self, data): pass
def hook(self, m): pass


def build_world():
    from txdbus import protocol, message, marshal
    w = World()
    w.add_class(ClassSpec(TR, None, {'g_fdlog': ListT(INT), 'g_out': BYTES, 'g_fds_at_last_write': INT},
                          methods={'sendFileDescriptor': sendFileDescriptor, 'write': write}))
    w.add_class(ClassSpec(MSG, message.DBusMessage, {
        'oobFDs': Opt(ListT(INT)), 'oobFDs?set': BOOL, 'rawMessage': BYTES, 'unix_fds': INT, 'unix_fds?set': BOOL,
        '_messageType': INT}))
    w.add_class(ClassSpec(P, protocol.BasicDBusProtocol, {'_receivedFDs': ListT(INT), 'transport': Ref(TR), 'g_dispatched': INT}))

    contract(w, 'iface.Transport.sendFileDescriptor', {'self': Ref(TR), 'fd': INT}, fn=sendFileDescriptor,
             modifies=lambda cx: [(cx.args['self'], TR + '.g_fdlog')],
             ensures=lambda cx: [('logged', cx.new(cx.args['self']).g_fdlog.seqs[0] ==
                                  z3.Concat(cx.old(cx.args['self']).g_fdlog.seqs[0], z3.Unit(cx.a('fd'))))], assumed=True)
    contract(w, 'iface.Transport.write', {'self': Ref(TR), 'data': BYTES}, fn=write,
             modifies=lambda cx: [(cx.args['self'], TR + '.g_out'), (cx.args['self'], TR + '.g_fds_at_last_write')],
             ensures=lambda cx: [('written', z3.And(cx.new(cx.args['self']).g_out == z3.Concat(cx.old(cx.args['self']).g_out, cx.a('data')),
                                                    cx.new(cx.args['self']).g_fds_at_last_write == z3.Length(cx.old(cx.args['self']).g_fdlog.seqs[0])))],
             assumed=True)

    # ---------------- encoder / decoder of 'h'
    def enc_post(cx):
        r = cx.result
        old = cx.old_arg('oobFDs')[0]
        new = cx.args['oobFDs'].seqs[0]
        ok = isinstance(r, VTuple) and len(r.items) == 2 and isinstance(r.items[1], VChunks)
        if not ok:
            return [('shape', z3.BoolVal(False))]
        return [('descriptor-appended', new == z3.Concat(old, z3.Unit(cx.a('var')))),
                ('encodes-its-position', z3.And(r.items[0].term == 4,
                                                r.items[1].flat == packed('I', cx.args['lendian'].term, z3.Length(old))))]

    contract(w, 'txdbus.marshal.marshal_unix_fd', {'ct': STR, 'var': INT, 'start_byte': INT, 'lendian': BOOL, 'oobFDs': ListT(INT)},
             requires=lambda cx: [('count-fits-u32', z3.Length(cx.args['oobFDs'].seqs[0]) < 2**32)],
             ensures=enc_post, mutates=('oobFDs',))

    def dec_post(cx):
        r = cx.result
        fds = cx.args['oobFDs'].seqs[0]
        data, off = cx.a('data'), cx.a('offset')
        from pyvc import strings as S
        idx = unpacked('I', cx.args['lendian'].term, S.slice_(cx.ctx, data, off, off + 4))
        if not (isinstance(r, VTuple) and len(r.items) == 2):
            return [('shape', z3.BoolVal(False))]
        fd = r.items[1]
        return [('four-bytes', r.items[0].term == 4),
                ('resolves-to-the-descriptor-at-that-position',
                 z3.If(idx < z3.Length(fds), z3.BoolVal(isinstance(fd, VInt)) if not isinstance(fd, VInt) else fd.term == fds[idx],
                       z3.BoolVal(isinstance(fd, VNone))))]

    import struct
    contract(w, 'txdbus.marshal.unmarshal_unix_fd', {'ct': STR, 'data': BYTES, 'offset': INT, 'lendian': BOOL, 'oobFDs': ListT(INT)},
             requires=lambda cx: [('offset', cx.a('offset') >= 0)],
             ensures=dec_post, raises={struct.error: lambda cx: cx.a('offset') + 4 > z3.Length(cx.a('data'))})

    # ---------------- protocol
    contract(w, 'txdbus.protocol.BasicDBusProtocol.fileDescriptorReceived', {'self': Ref(P), 'fd': INT},
             ensures=lambda cx: [('queued-at-the-tail', cx.new(cx.args['self'])._receivedFDs.seqs[0] ==
                                  z3.Concat(cx.old(cx.args['self'])._receivedFDs.seqs[0], z3.Unit(cx.a('fd'))))],
             modifies=lambda cx: [(cx.args['self'], P + '._receivedFDs')])

    def send_post(cx):
        s = cx.args['self']
        tr = VRef(cx.old(s).transport, TR)
        mv = cx.old(cx.args['msg'])
        o, n = cx.old(tr), cx.new(tr)
        fds = mv.oobFDs
        has = z3.And(getattr(mv, 'oobFDs?set'), z3.Not(fds.none))
        sent = z3.If(has, fds.val.seqs[0], z3.Empty(z3.SeqSort(IntSort)))
        return [('descriptors-in-argument-order', n.g_fdlog.seqs[0] == z3.Concat(o.g_fdlog.seqs[0], sent)),
                ('then-the-bytes', z3.And(n.g_out == z3.Concat(o.g_out, mv.rawMessage),
                                          n.g_fds_at_last_write == z3.Length(n.g_fdlog.seqs[0])))]

    def send_inv(cx):
        s = cx.args['self']
        tr = VRef(cx.old(s).transport, TR)
        lst = cx.L['_seq1'].seqs[0]
        k = cx.l('_k1')
        pre, suf = cx.ctx.prefix_of(lst, k)
        cx.ctx.prefix_of(lst, k + 1)
        return [('sent-so-far', cx.new(tr).g_fdlog.seqs[0] == z3.Concat(cx.old(tr).g_fdlog.seqs[0], pre)),
                ('nothing-written', z3.And(cx.new(tr).g_out == cx.old(tr).g_out, cx.unchanged(P + '.transport', MSG + '.oobFDs', MSG + '.rawMessage', MSG + '.oobFDs?set'))),
                ('iterating-the-message-list', z3.And(z3.Not(cx.old(cx.args['msg']).oobFDs.none), lst == cx.old(cx.args['msg']).oobFDs.val.seqs[0]))]

    contract(w, 'txdbus.protocol.BasicDBusProtocol.sendMessage', {'self': Ref(P), 'msg': Ref(MSG)},
             ensures=send_post, modifies=lambda cx: [('*', TR + '.g_fdlog'), ('*', TR + '.g_out'), ('*', TR + '.g_fds_at_last_write')],
             loops={1: LoopSpec(invariant=send_inv, ghost_index='_k1',
                                modifies=lambda cx: [('*', TR + '.g_fdlog')])})

    # parseMessage: the receiver-side decoding of one frame against the queue (by contract; C03/C01 own it)
    contract(w, 'txdbus.message.parseMessage', {'rawMessage': BYTES, 'oobFDs': ListT(INT)}, result=Ref(MSG),
             ensures=lambda cx: [('declared-count-non-negative', z3.Implies(getattr(cx.new(cx.result), 'unix_fds?set'), cx.new(cx.result).unix_fds >= 0))],
             modifies=lambda cx: [('*', MSG + '.unix_fds'), ('*', MSG + '.unix_fds?set'), ('*', MSG + '._messageType'),
                                  ('*', MSG + '.oobFDs'), ('*', MSG + '.oobFDs?set'), ('*', MSG + '.rawMessage')],
             raises={Exception: lambda cx: z3.BoolVal(True)}, may_raise_any=True, assumed=True)
    for h in ('methodCallReceived', 'methodReturnReceived', 'errorReceived', 'signalReceived'):
        contract(w, 'txdbus.protocol.BasicDBusProtocol.' + h, {'self': Ref(P), 'm': Ref(MSG)},
                 fn=getattr(protocol.BasicDBusProtocol, h),
                 modifies=lambda cx: [(cx.args['self'], P + '.g_dispatched')],
                 ensures=lambda cx: [('dispatched', cx.new(cx.args['self']).g_dispatched == cx.old(cx.args['self']).g_dispatched + 1)],
                 raises={Exception: lambda cx: z3.BoolVal(True)}, may_raise_any=True, assumed=True)

    def recv_post(cx):
        s = cx.args['self']
        o, n = cx.old(s), cx.new(s)
        q0, q1 = o._receivedFDs.seqs[0], n._receivedFDs.seqs[0]
        # the message object is the one parseMessage returned: its fields are read from the final heap
        m = getattr(cx.ctx, 'call_results', {}).get('txdbus.message.parseMessage', [None])[-1]
        if m is None:
            return [('parsed', z3.BoolVal(False))]
        mv = cx.new(m)
        cnt = mv.unix_fds
        declared = getattr(mv, 'unix_fds?set')
        A = cx.ctx.fresh('consumed', q0.sort())
        return [('consumes-exactly-the-declared-count',
                 z3.If(declared,
                       z3.If(cnt <= z3.Length(q0), z3.And(z3.Length(q0) == z3.Length(q1) + cnt, z3.SuffixOf(q1, q0)), z3.Length(q1) == 0),
                       q1 == q0))]

    class Models20(TxModels):
        def __init__(self, world):
            super().__init__(world)

    def recv_hook(cx):
        return []

    contract(w, 'txdbus.protocol.BasicDBusProtocol.rawDBusMessageReceived', {'self': Ref(P), 'rawMsg': BYTES},
             ensures=recv_post, raises={Exception: lambda cx: z3.BoolVal(True)}, may_raise_any=True,
             modifies=lambda cx: [(cx.args['self'], P + '._receivedFDs'), (cx.args['self'], P + '.g_dispatched'),
                                  ('*', MSG + '.unix_fds'), ('*', MSG + '.unix_fds?set'), ('*', MSG + '._messageType'),
                                  ('*', MSG + '.oobFDs'), ('*', MSG + '.oobFDs?set'), ('*', MSG + '.rawMessage')])
    return w, Models20


# --------------------------------------------------------------------------- concrete side
def run_case(spec_msgs, lead, chunk, fd_start=100):
    """spec_msgs: list of (kind, nfds); descriptors arrive `lead` messages ahead of their bytes; reads of `chunk` bytes"""
    from twisted.internet.testing import StringTransport
    from txdbus import protocol, message, marshal

    class Tr(StringTransport):
        def __init__(self):
            StringTransport.__init__(self)
            self.events = []
        def sendFileDescriptor(self, fd): self.events.append(('fd', fd))
        def write(self, data): self.events.append(('bytes', bytes(data)))

    class Sender(protocol.BasicDBusProtocol):
        pass

    class BigEndianCall(message.MethodCallMessage):
        endian = ord('B')

    class Receiver(protocol.BasicDBusProtocol):
        def __init__(self): self.got = []
        def methodCallReceived(self, m): self.got.append(m)
        methodReturnReceived = errorReceived = signalReceived = methodCallReceived

    s = Sender()
    s.transport = Tr()
    expect = []
    arrays = []
    fd_counter = [fd_start]            # descriptor numbers are small non-negative integers: 0 (the process's standard input) is one of them
    shapes = []
    for kind, nf in spec_msgs:
        fds = [fd_counter[0] + i for i in range(nf)]
        if nf >= 2 and (fd_counter[0] // 10) % 3 == 0:
            fds[-1] = fds[0]                 # the same descriptor passed for two arguments: still one transmitted entry per argument
        fd_counter[0] += 10
        # descriptors travel as separate 'h' arguments or, every other time, as ONE array argument 'ah': the number of
        # descriptors of a message is not the number of 'h' codes in its signature
        as_array = nf >= 2 and (fd_counter[0] // 10) % 2 == 0
        # ... or nested in structs after a first plain one: the position of a descriptor in the message counts on across containers
        as_struct = (not as_array) and nf >= 2 and (fd_counter[0] // 10) % 3 == 1
        if as_struct:
            sig = 'sh' + '(hs)' * (nf - 1)
            body = ['x', fds[0]] + [[f, 't'] for f in fds[1:]]
        else:
            sig = 'sah' if as_array else 's' + 'h' * nf
            body = ['x', list(fds)] if as_array else ['x'] + fds
        arrays.append(as_array)
        shapes.append('struct' if as_struct else 'array' if as_array else 'flat')
        if kind == 'call':
            # every fourth call is written big-endian (a message class may choose its byte order): the positions of its descriptors are
            # numbers inside the message like any other
            cls_ = BigEndianCall if (fd_counter[0] // 10) % 4 == 3 else message.MethodCallMessage
            m = cls_('/o', 'M', interface='org.e.I', signature=sig, body=body, oobFDs=[])
        else:
            cls = {'ret': message.MethodReturnMessage, 'sig': message.SignalMessage}[kind]
            m = object.__new__(cls)
            m.signature, m.body = sig, body
            if kind == 'ret':
                m.reply_serial = marshal.UInt32(7)
            else:
                m.path, m.member, m.interface = '/o', 'S', 'org.e.I'
            m.oobFDs = []
            m._marshal(oobFDs=m.oobFDs)
        before = len(s.transport.events)
        s.sendMessage(m)
        ev = s.transport.events[before:]
        if [e for e in ev if e[0] == 'fd'] != [('fd', f) for f in fds] or ev[-1][0] != 'bytes' or any(e[0] == 'bytes' for e in ev[:-1]):
            return 'message %r: transmitted %r, expected descriptors %r then the bytes' % ((kind, nf), [(e[0], e[1] if e[0] == 'fd' else '...') for e in ev], fds)
        declared = getattr(m, 'unix_fds', 0) if nf else getattr(m, 'unix_fds', None)
        parsed = message.parseMessage(m.rawMessage, list(fds))
        if nf and getattr(parsed, 'unix_fds', None) != nf:
            return 'message %r declares %r descriptors in its header, carries %d' % ((kind, nf), getattr(parsed, 'unix_fds', None), nf)
        if not nf and hasattr(parsed, 'unix_fds'):
            return 'message %r without descriptors declares unix_fds=%r' % ((kind, nf), parsed.unix_fds)
        expect.append(fds)
    # receiver: descriptors of message i arrive when the bytes of message i-lead start (stream order kept)
    r = Receiver()
    r.transport = Tr()
    r._receivedFDs = []
    r._authenticated = True
    msgs = [e[1] for e in s.transport.events if e[0] == 'bytes']
    fd_groups = expect
    delivered_fd = 0
    if chunk == 'all':
        # one large read: every descriptor is already queued, all the messages complete within one dataReceived call
        for g in fd_groups:
            for f in g:
                r.fileDescriptorReceived(f)
        r.dataReceived(b''.join(msgs))
        msgs_iter = []
    else:
        msgs_iter = list(enumerate(msgs))
    for i, raw in msgs_iter:
        if chunk == 'mid':
            # the descriptors of a message arrive while it is being read: after its fixed header, before its last byte
            r.dataReceived(raw[:20])
            for f in fd_groups[i]:
                r.fileDescriptorReceived(f)
            r.dataReceived(raw[20:-1])
            r.dataReceived(raw[-1:])
            continue
        upto = min(len(msgs), i + 1 + lead)
        while delivered_fd < upto:
            for f in fd_groups[delivered_fd]:
                r.fileDescriptorReceived(f)
            delivered_fd += 1
        for j in range(0, len(raw), chunk):
            r.dataReceived(raw[j:j + chunk])
    if len(r.got) != len(msgs):
        return 'delivered %d of %d messages' % (len(r.got), len(msgs))
    for i, (m, fds) in enumerate(zip(r.got, expect)):
        got_fds = list(m.body[1]) if arrays[i] else ([m.body[1]] + [x[0] for x in m.body[2:]]) if shapes[i] == 'struct' else list(m.body[1:])
        if got_fds != fds:
            return 'message %d %r: descriptor arguments %r, expected %r (lead %d, read size %s)' % (i, spec_msgs[i], m.body[1:], fds, lead, chunk)
    if r._receivedFDs:
        return 'descriptors left in the queue after all messages: %r' % (r._receivedFDs,)
    return None


def auth_boundary_case():
    """the accepting side: the peer's last authentication line and its first descriptor-carrying messages arrive in ONE read (the
    descriptors are reported with that read, before its bytes): the messages get their descriptors"""
    from twisted.internet.testing import StringTransport
    from txdbus import protocol, message

    class Auth:
        done = False
        def handleAuthMessage(self, line): self.done = self.done or line == b'BEGIN'
        def authenticationSucceeded(self): return self.done
        def getGUID(self): return 'guid'

    class Receiver(protocol.BasicDBusProtocol):
        _client = False
        def methodCallReceived(self, m): self.got.append(m)
    m1 = message.MethodCallMessage('/o', 'M', interface='org.e.I', signature='hsh', body=[0, 'x', 1], oobFDs=[])
    m2 = message.MethodCallMessage('/o', 'N', interface='org.e.I', signature='h', body=[0], oobFDs=[])
    was = protocol._is_linux
    protocol._is_linux = False
    try:
        for how, reads in (('BEGIN and the messages in one read', [b'\0AUTH ANONYMOUS\r\n', b'BEGIN\r\n' + m1.rawMessage + m2.rawMessage]),
                           ('the whole stream in one read', [b'\0AUTH ANONYMOUS\r\nBEGIN\r\n' + m1.rawMessage + m2.rawMessage]),
                           ('BEGIN alone, then the messages', [b'\0AUTH ANONYMOUS\r\nBEGIN\r\n', m1.rawMessage + m2.rawMessage])):
            r = Receiver()
            r.got = []
            r.transport = StringTransport()
            r._receivedFDs = []
            r._dbusAuth = Auth()
            for k, data in enumerate(reads):
                if k == len(reads) - 1:
                    for f in (41, 42, 43):
                        r.fileDescriptorReceived(f)
                r.dataReceived(data)
            got = [list(m.body) for m in r.got]
            if got != [[41, 'x', 42], [43]]:
                return 'accepting side, %s: the descriptor arguments of the first messages resolve to %r, expected [[41, x, 42], [43]]' % (how, got)
    finally:
        protocol._is_linux = was
    return None


def unrouted_signal_case():
    """a client connection: a descriptor-carrying signal that no match rule asks for (none registered any more) still uses up ITS
    descriptors; the reply that follows gets its own"""
    from twisted.internet import task
    from twisted.internet.testing import StringTransport
    from txdbus import client, message
    client.reactor = task.Clock()
    p = client.DBusClientConnection()
    p.factory = client.DBusClientFactory()
    p.transport = StringTransport()
    p._receivedFDs = []
    p.setAuthenticationSucceeded()
    hello = list(p._pendingCalls)[0]
    p.dataReceived(message.MethodReturnMessage(hello, signature='s', body=[':1.42']).rawMessage)
    out = []
    p.callRemote('/o', 'Open', interface='org.e.I', destination='org.e').addBoth(out.append)
    serial = max(p._pendingCalls)
    sig = object.__new__(message.SignalMessage)
    sig.signature, sig.body = 'sh', ['stray', 0]
    sig.path, sig.member, sig.interface = '/o', 'Stray', 'org.e.I'
    sig._marshal(oobFDs=[])
    ret = object.__new__(message.MethodReturnMessage)
    ret.signature, ret.body = 'h', [0]
    from txdbus import marshal as _m
    ret.reply_serial = _m.UInt32(serial)
    ret._marshal(oobFDs=[])
    p.fileDescriptorReceived(60)
    p.dataReceived(sig.rawMessage)
    p.fileDescriptorReceived(70)
    p.dataReceived(ret.rawMessage)
    if out != [70]:
        return 'a reply carrying descriptor 70, received after a signal with descriptor 60 that no rule asked for: the call completed with %r' % (out,)
    if p._receivedFDs:
        return 'descriptors left in the queue: %r' % (p._receivedFDs,)
    return None


def foreign_index_case():
    """messages written by another implementation (reference codec): a descriptor argument holds the POSITION of its descriptor
    among those attached to the message - two arguments may name the same position, positions may come in any order - and
    exactly the declared count is consumed, so the next message still finds its own descriptors"""
    from twisted.internet.testing import StringTransport
    from txdbus import protocol
    from .message_harness import ref_message
    from . import wire_ref as W

    class Receiver(protocol.BasicDBusProtocol):
        def __init__(self): self.got = []
        def methodCallReceived(self, m): self.got.append(m)
        methodReturnReceived = errorReceived = signalReceived = methodCallReceived

    cases = [('hh', [0, 0], [50], [50, 50]), ('hhh', [1, 0, 1], [60, 61], [61, 60, 61]), ('hsh', [1, 'x', 0], [70, 71], [71, 'x', 70]),
             ('ah', [[0, 0, 1]], [80, 81], [[80, 80, 81]]), ('h', [0], [90], [90]),
             # descriptors nested in dict entries and structs (option tables of real services): resolved like any other
             ('a{sh}', [{'out': 0, 'err': 1}], [100, 101], [{'out': 100, 'err': 101}]), ('a{u(hs)}', [{7: [0, 'x']}], [110], [{7: [110, 'x']}]),
             ('a(sh)', [[['p', 1], ['q', 0]]], [120, 121], [[['p', 121], ['q', 120]]]), ('(s(ih))', [['n', [3, 0]]], [130], [['n', [3, 130]]]),
             # a descriptor as the direct content of a VARIANT (option tables a{sv} of real services), alone and beside plain descriptors
             ('v', [W.Variant('h', 0)], [140], [140]), ('a{sv}', [{'fd': W.Variant('h', 1), 'n': W.Variant('u', 7)}], [150, 151], [{'fd': 151, 'n': 7}]),
             ('hvh', [1, W.Variant('h', 2), 0], [160, 161, 162], [161, 162, 160]), ('av', [[W.Variant('h', 0), W.Variant('s', 'x'), W.Variant('h', 0)]], [170], [[170, 'x', 170]])]
    for le in (True, False):
        for lead in (False, True):
            r = Receiver()
            r.transport = StringTransport()
            r._receivedFDs = []
            r._authenticated = True
            raws = []
            for k, (sig, idx, fds, want) in enumerate(cases):
                # (every other message carries a header field of a code this library does not know, ahead of the fields that matter)
                raws.append(ref_message(1, 0, k + 1, [(1, '/o'), (2, 'org.e.I'), (3, 'M'), (8, sig), (9, len(fds))], sig, idx, le,
                                        extra_fields=[(10, 's', 'container-instance')] if k % 2 else (), extras_first=True))
            if lead:                      # every descriptor is already queued when the first byte is read
                for _s, _i, fds, _w in cases:
                    for f in fds:
                        r.fileDescriptorReceived(f)
            for raw, (_s, _i, fds, _w) in zip(raws, cases):
                if not lead:
                    for f in fds:
                        r.fileDescriptorReceived(f)
                r.dataReceived(raw)
            if len(r.got) != len(cases):
                return 'foreign descriptor messages (le=%s, descriptors %s): delivered %d of %d' % (le, 'all ahead' if lead else 'with each message', len(r.got), len(cases))
            for m, (sig, idx, fds, want) in zip(r.got, cases):
                if list(m.body) != want:
                    return 'message %r with position arguments %r and attached descriptors %r (le=%s, descriptors %s) delivered as %r, expected %r' % (
                        sig, idx, fds, le, 'all ahead' if lead else 'with each message', m.body, want)
            if r._receivedFDs:
                return 'descriptors left in the queue: %r' % (r._receivedFDs,)
    return None


def two_connections_case():
    """two connections in one process, each set up the normal way (makeConnection, handshake): the descriptors queued on one are
    never seen by the other - also when the first connection still holds descriptors no message has claimed"""
    from twisted.internet.testing import StringTransport
    from txdbus import protocol, authentication
    from .message_harness import ref_message

    class Receiver(protocol.BasicDBusProtocol):
        authenticator = authentication.ClientAuthenticator

        def __init__(self): self.got = []
        def methodCallReceived(self, m): self.got.append(m)
        methodReturnReceived = errorReceived = signalReceived = methodCallReceived

    def connect():
        r = Receiver()
        r.makeConnection(StringTransport())
        r.dataReceived(b'OK 1234deadbeef\r\n')
        if not r._authenticated:
            return None
        return r
    a = connect()
    if a is None:
        return 'could not set up a connection through the normal handshake'
    a.fileDescriptorReceived(40)                    # arrives early: its message is still on the way
    b = connect()
    for f in (50, 51):
        b.fileDescriptorReceived(f)
    b.dataReceived(ref_message(1, 0, 1, [(1, '/o'), (2, 'org.e.I'), (3, 'M'), (8, 'hh'), (9, 2)], 'hh', [0, 1], True))
    a.fileDescriptorReceived(41)
    a.dataReceived(ref_message(1, 0, 2, [(1, '/o'), (2, 'org.e.I'), (3, 'M'), (8, 'hh'), (9, 2)], 'hh', [0, 1], True))
    c = connect()
    c.fileDescriptorReceived(60)
    c.dataReceived(ref_message(1, 0, 3, [(1, '/o'), (2, 'org.e.I'), (3, 'M'), (8, 'h'), (9, 1)], 'h', [0], True))
    got = [[list(m.body) for m in x.got] for x in (a, b, c)]
    if got != [[[40, 41]], [[50, 51]], [[60]]]:
        return 'three connections in one process received the descriptor arguments %r, each was sent [[40, 41]], [[50, 51]], [[60]]' % (got,)
    if a._receivedFDs or b._receivedFDs or c._receivedFDs:
        return 'descriptors left queued: %r' % ([a._receivedFDs, b._receivedFDs, c._receivedFDs],)
    return None


def callremote_fresh_list_case():
    from twisted.internet.testing import StringTransport
    from txdbus import client, message
    c = client.DBusClientConnection()
    c.transport = StringTransport()
    c._pendingCalls = {}
    sent = []
    c.sendMessage = sent.append
    c.callRemote('/o', 'M', interface='org.e.I', signature='h', body=[5])
    c.callRemote('/o', 'N', interface='org.e.I', signature='s', body=['x'])
    c.callRemote('/o', 'O', interface='org.e.I', signature='hh', body=[6, 7])
    got = [(list(m.oobFDs), getattr(m, 'unix_fds', None)) for m in sent]
    if got != [([5], 1), ([], None), ([6, 7], 2)]:
        return 'callRemote sequence carried %r' % (got,)
    # through the real sendMessage, calls that expect no reply included: descriptors go to the transport ahead of the bytes
    from twisted.internet.testing import StringTransport

    class Tr(StringTransport):
        def __init__(self):
            StringTransport.__init__(self)
            self.events = []
        def sendFileDescriptor(self, fd): self.events.append(('fd', fd))
        def write(self, data): self.events.append(('bytes', len(data)))
    for expect in (True, False):
        c = client.DBusClientConnection()
        c.transport = Tr()
        c._pendingCalls = {}
        c.callRemote('/o', 'Take', interface='org.e.I', signature='hsh', body=[11, 'x', 12], expectReply=expect)
        c.callRemote('/o', 'Plain', interface='org.e.I', signature='s', body=['y'], expectReply=expect)
        c.callRemote('/o', 'One', interface='org.e.I', signature='h', body=[13], expectReply=expect)
        kinds = [e if e[0] == 'fd' else ('bytes',) for e in c.transport.events]
        if kinds != [('fd', 11), ('fd', 12), ('bytes',), ('bytes',), ('fd', 13), ('bytes',)]:
            return 'calls carrying descriptors (expectReply=%s): the transport saw %r, expected each call\'s descriptors ahead of its bytes' % (expect, kinds)
    return None


def bounded(tier, seed):
    n = 0
    kinds = ['call', 'ret', 'sig']
    base = [[('call', 1)], [('ret', 1), ('sig', 2)], [('call', 0), ('call', 3)], [('sig', 2), ('call', 0), ('ret', 1), ('call', 1)]]
    rnd = random.Random(seed)
    for _ in range(300 if tier == 'thorough' else 6):
        base.append([(rnd.choice(kinds), rnd.randrange(0, 4)) for _ in range(rnd.randrange(2, 7))])
    # a burst of small messages whose descriptors are all reported before the first byte is decoded (one large read):
    # more descriptors outstanding at once than any single message may carry
    base.append([('call', 3), ('call', 0), ('sig', 3), ('ret', 2), ('call', 3), ('call', 1), ('sig', 3), ('call', 3), ('ret', 3), ('call', 2)])
    base.append([(kinds[i % 3], 1 + i % 3) for i in range(24)])
    for seq in base:
        for lead in (0, 1, 2, len(seq)):
            for chunk in ((1, 3, 16, 17, 100, 10 ** 6, 'all', 'mid') if tier == 'thorough' else (1, 17, 10 ** 6, 'all', 'mid')):
                n += 1
                try:
                    f = run_case(seq, lead, chunk, fd_start=0 if (lead + len(seq)) % 2 == 0 else 100)
                except Exception as e:
                    f = 'raised %s: %s' % (type(e).__name__, e)
                if f:
                    return n, f, {'messages': seq, 'fd_lead': lead, 'read_size': chunk}
    n += 1
    try:
        f = auth_boundary_case()
    except Exception as e:
        f = 'descriptors at the end of the authentication exchange raised %s: %s' % (type(e).__name__, e)
    if f:
        return n, f, {'case': 'descriptors with the last authentication line'}
    n += 1
    try:
        f = unrouted_signal_case()
    except Exception as e:
        f = 'a descriptor-carrying signal without a rule raised %s: %s' % (type(e).__name__, e)
    if f:
        return n, f, {'case': 'descriptor-carrying signal no rule asks for'}
    n += 1
    try:
        f = foreign_index_case()
    except Exception as e:
        f = 'foreign descriptor messages raised %s: %s' % (type(e).__name__, e)
    if f:
        return n, f, {'case': 'descriptor positions written by another implementation'}
    n += 1
    try:
        f = two_connections_case()
    except Exception as e:
        f = 'two connections in one process raised %s: %s' % (type(e).__name__, e)
    if f:
        return n, f, {'case': 'two connections in one process'}
    n += 1
    f = callremote_fresh_list_case()
    if f:
        return n, f, {'case': 'callRemote fresh descriptor list'}
    return n, None, None


def replay(function, clause, model):
    n, f, inp = bounded('quick', 2)
    return {'reproduced': bool(f), 'input': inp, 'detail': f or 'no failing descriptor scenario among %d' % n}


def run_bounded(tier, seed):
    n, f, inp = bounded(tier, seed)
    return {'tool': 'message sequences with 0-3 descriptors x arrival lead x read size through the real sender/receiver protocol objects',
            'bound': '%d message sequences x 4 arrival leads x %d read sizes; callRemote fresh-list case' % (304 if tier == 'thorough' else 10, 6 if tier == 'thorough' else 3),
            'evaluations': n, 'failures': [] if not f else [{'function': 'txdbus.protocol', 'clause': 'descriptors', 'input': inp, 'detail': f}]}


def build(tier='quick'):
    w, Models20 = build_world()

    class M20(Models20):
        def function_model(self, fn):
            m = super().function_model(fn)
            return m

    def make(world):
        m = M20(world)
        return m
    sp = Spec('C20', w, make,
              ['txdbus.marshal.marshal_unix_fd', 'txdbus.marshal.unmarshal_unix_fd',
               'txdbus.protocol.BasicDBusProtocol.fileDescriptorReceived', 'txdbus.protocol.BasicDBusProtocol.sendMessage',
               'txdbus.protocol.BasicDBusProtocol.rawDBusMessageReceived'],
              replay=replay, bounded=[{'name': 'descriptor-scenarios', 'run': run_bounded}],
              trusted=['struct.pack/unpack "I" as uninterpreted functions of (byte order, value / 4 bytes)', 'z3 sequence theory'],
              assumed=['transport.sendFileDescriptor / write append to the ghost logs in call order (Twisted)',
                       'parseMessage decodes one frame against the list it is given and does not mutate it (its own correctness: C03/C01)',
                       'the per-type hooks do not touch the descriptor queue'],
              notes=['unix_fds header written by _marshal, callRemote fresh list and whole-stream attribution: bounded stand-in only'],
              explanation='encoder appends + encodes position, decoder resolves position, sender logs descriptors in order before the bytes (loop invariant), receiver consumes exactly the declared count from the queue head; stream scenarios by bounded enumeration',
              design_ref='DESIGN.md 4/C20')
    return sp
