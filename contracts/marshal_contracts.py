"""Contracts for txdbus.marshal (shared by C01, C02, C05, C19).

Specification side (from the DBus specification, chapter "Marshaling", independent of marshal.py):
  ALIGN     alignment per type code
  FIXED     type code -> (struct code, width)
  zeros(n)  n zero bytes (n in 0..7)
The byte order of one encoding is the path-global skolem `sk_le`: the entry contract fixes lendian == sk_le
and every nested (un)marshaller call is required to receive that same value ("the requested byte order is
used throughout").
"""
import struct

import z3

from pyvc.values import *  # noqa
from pyvc.engine import World, ClassSpec, LoopSpec
from pyvc.models import packed, unpacked, ufun, FMT, int_range
from pyvc import strings as S
from .base import contract, TxModels
from .wire_ref import ALIGN

FIXED = {'y': ('B', 1), 'n': ('h', 2), 'q': ('H', 2), 'i': ('i', 4), 'u': ('I', 4), 'x': ('q', 8), 't': ('Q', 8)}
ENC_NAME = {'y': 'byte', 'b': 'boolean', 'n': 'int16', 'q': 'uint16', 'i': 'int32', 'u': 'uint32', 'x': 'int64', 't': 'uint64',
            'd': 'double', 's': 'string', 'o': 'object_path', 'g': 'signature', 'a': 'array', '(': 'struct', 'v': 'variant',
            '{': 'dictionary', 'h': 'unix_fd'}
sv = z3.StringVal


def zeros(n):
    out = sv('')
    for k in range(7, 0, -1):
        out = z3.If(n == k, sv('\0' * k), out)
    return out


def padlen(a, off):
    """(a - off mod a) mod a for a in {1, 2, 4, 8}: by cases on a symbolic alignment, so every modulus is a constant"""
    if isinstance(a, int):
        return (a - off % a) % a
    return z3.If(a == 8, (8 - off % 8) % 8, z3.If(a == 4, (4 - off % 4) % 4, z3.If(a == 2, (2 - off % 2) % 2, 0)))


def is_aligned(a, off):
    if isinstance(a, int):
        return off % a == 0
    return z3.If(a == 8, off % 8 == 0, z3.If(a == 4, off % 4 == 0, z3.If(a == 2, off % 2 == 0, z3.BoolVal(True))))


def align_of(code_term):
    """alignment of the type whose code (1-char string term) is given - the specification's table"""
    out = z3.IntVal(1)
    for c, a in ALIGN.items():
        out = z3.If(code_term == sv(c), a, out)
    return out


# ---- the same three functions as seen by the container proofs: uninterpreted, with the consequences of their
# definitions that the proofs need supplied as instances (each consequence is proved from the definitions above
# as a lemma on every run: abstraction_lemmas)
def ZEROS(n):
    return ufun('zeros', IntSort, StringSort)(n)


def PADLEN(a, off):
    return ufun('padlen', IntSort, IntSort, IntSort)(a, off)


def ALIGNF(code):
    return ufun('align', StringSort, IntSort)(code)


def ALIGNED(a, off):
    return ufun('aligned', IntSort, IntSort, BoolSort)(a, off)


def pad_facts(ctx, a, off):
    p = PADLEN(a, off)
    ctx.assume(z3.And(p >= 0, p <= 7, z3.Length(ZEROS(p)) == p, ALIGNED(a, off + p), z3.Implies(ALIGNED(a, off), p == 0),
                      z3.Implies(ALIGNED(8, off), ALIGNED(a, off))))
    return p


def abstraction_lemmas():
    """zeros / padlen / align / aligned are DEFINED as zeros(), padlen(), align_of(), is_aligned(); the instances used
    by pad_facts follow from those definitions for every offset and each of the four alignments"""
    off, n = z3.Int('off'), z3.Int('n')
    out = []
    for a in (1, 2, 4, 8):
        pl = padlen(a, off)
        out.append(('padding to %d: 0 <= p < %d, off+p aligned, p = 0 when off is aligned' % (a, a),
                    z3.Implies(off >= 0, z3.And(pl >= 0, pl < a, pl <= 7, is_aligned(a, off + pl), z3.Implies(is_aligned(a, off), pl == 0),
                                                z3.Implies(is_aligned(8, off), is_aligned(a, off))))))
    out.append(('zeros(n) has n bytes for 0 <= n <= 7', z3.Implies(z3.And(n >= 0, n <= 7), z3.Length(zeros(n)) == n)))
    c = z3.String('code')
    out.append(('every alignment is 1, 2, 4 or 8', z3.Or([align_of(c) == a for a in (1, 2, 4, 8)])))
    out.append(('the symbolic-alignment forms agree with the arithmetic ones',
                z3.And([z3.And(padlen(z3.IntVal(a), off) == padlen(a, off), is_aligned(z3.IntVal(a), off) == is_aligned(a, off)) for a in (1, 2, 4, 8)])))
    return out


def le_skolem(cx):
    return cx.ctx.skolem('le', BoolSort)


def add_pad_contracts(w, targets):
    from txdbus import marshal
    for code, fn in marshal.pad.items():
        a = 8 if code == 'header' else ALIGN.get(code)
        if a is None:
            continue
        name = 'txdbus.marshal.pad[%s]' % code
        contract(w, name, {'x': INT}, fn=fn, result=BYTES,
                 requires=lambda cx: [('offset-non-negative', cx.a('x') >= 0)],
                 ensures=lambda cx, a=a: [('zero-padding-to-the-spec-alignment', cx.result.term == zeros(padlen(a, cx.a('x'))))],
                 pure=True)
        targets.append(name)


def add_fixed_contracts(w, targets):
    """the ten fixed-size encoders / decoders: exactly the struct image of the value, width by type, byte order as asked"""
    from txdbus import marshal
    for code, (ch, width) in list(FIXED.items()) + [('b', ('I', 4)), ('d', ('d', 8))]:
        nm = ENC_NAME[code]
        mfn = getattr(marshal, 'marshal_' + nm)
        ufn = getattr(marshal, 'unmarshal_' + nm)
        vty = BOOL if code == 'b' else OPAQUE if code == 'd' else INT
        lo, hi = (None, None) if code in 'bd' else int_range(ch)

        def m_post(cx, code=code, ch=ch, width=width):
            r = cx.result
            if not (isinstance(r, VTuple) and len(r.items) == 2 and isinstance(r.items[1], VChunks)):
                return [('shape', z3.BoolVal(False))]
            le = cx.args['lendian'].term
            if code == 'b':
                val = z3.If(cx.args['var'].term, 1, 0)
                img = packed('I', le, val)
            elif code == 'd':
                img = ufun('pack_d', BoolSort, IntSort, StringSort)(le, cx.args['var'].term)
            else:
                img = packed(ch, le, cx.args['var'].term)
            return [('width', r.items[0].term == width), ('bytes', r.items[1].flat == img), ('count-is-length', count_is_length(r))]

        def m_raises(cx, lo=lo, hi=hi):
            if lo is None:
                return z3.BoolVal(False)
            return z3.Or(cx.a('var') < lo, cx.a('var') > hi)

        contract(w, 'txdbus.marshal.marshal_' + nm, {'ct': STR, 'var': vty, 'start_byte': INT, 'lendian': BOOL, 'oobFDs': OPAQUE},
                 result=TupleT(INT, CHUNKS),
                 ensures=lambda cx, f=m_post, g=m_raises: f(cx) + [('in-range', z3.Not(g(cx)))],
                 raises={struct.error: m_raises}, pure=True)
        targets.append('txdbus.marshal.marshal_' + nm)

        if code == 'b':
            # BOOLEAN is 0 or 1 on the wire whatever truthy Python value was given: the same encoder, its argument an integer
            def mi_post(cx):
                r = cx.result
                if not (isinstance(r, VTuple) and len(r.items) == 2 and isinstance(r.items[1], VChunks)):
                    return [('shape', z3.BoolVal(False))]
                img = packed('I', cx.args['lendian'].term, z3.If(cx.a('var') != 0, 1, 0))
                return [('width', r.items[0].term == 4), ('bytes: 1 for any non-zero integer, 0 for zero', r.items[1].flat == img), ('count-is-length', count_is_length(r))]
            contract(w, 'txdbus.marshal.marshal_boolean#int', {'ct': STR, 'var': INT, 'start_byte': INT, 'lendian': BOOL, 'oobFDs': OPAQUE},
                     fn=mfn, result=TupleT(INT, CHUNKS), ensures=mi_post, pure=True)
            targets.append('txdbus.marshal.marshal_boolean#int')

        def u_post(cx, code=code, ch=ch, width=width):
            r = cx.result
            if not (isinstance(r, VTuple) and len(r.items) == 2):
                return [('shape', z3.BoolVal(False))]
            le = cx.args['lendian'].term
            sl = S.slice_(cx.ctx, cx.a('data'), cx.a('offset'), cx.a('offset') + width)
            out = [('width', r.items[0].term == width), ('read-within-data', cx.a('offset') + width <= z3.Length(cx.a('data')))]
            if code == 'b':
                out.append(('value', z3.BoolVal(isinstance(r.items[1], VBool)) if not isinstance(r.items[1], VBool) else
                            r.items[1].term == (unpacked('I', le, sl) != 0)))
            elif code == 'd':
                out.append(('value', z3.BoolVal(True)))
            else:
                out.append(('value', z3.BoolVal(isinstance(r.items[1], VInt)) if not isinstance(r.items[1], VInt) else
                            r.items[1].term == unpacked(ch, le, sl)))
            return out

        contract(w, 'txdbus.marshal.unmarshal_' + nm, {'ct': STR, 'data': BYTES, 'offset': INT, 'lendian': BOOL, 'oobFDs': OPAQUE},
                 requires=lambda cx: [('offset-non-negative', cx.a('offset') >= 0)], result=TupleT(INT, vty),
                 ensures=u_post, raises={struct.error: lambda cx, width=width: cx.a('offset') + width > z3.Length(cx.a('data'))}, pure=True)
        targets.append('txdbus.marshal.unmarshal_' + nm)


def enc_utf8(t):
    return ufun('enc_utf8', StringSort, StringSort)(t)


def add_string_contracts(w, targets):
    from txdbus import marshal
    from txdbus.error import MarshallingError
    nul = sv('\0')

    def str_post(cx):
        r = cx.result
        if not (isinstance(r, VTuple) and len(r.items) == 2 and isinstance(r.items[1], VChunks)):
            return [('shape', z3.BoolVal(False))]
        v = cx.args['var']
        u = enc_utf8(v.term)
        le = cx.args['lendian'].term
        return [('length-prefixed-and-nul-terminated', r.items[1].flat == z3.Concat(packed('I', le, z3.Length(u)), u, nul)),
                ('byte-count', r.items[0].term == 4 + z3.Length(u) + 1), ('count-is-length', count_is_length(r))]

    bad = lambda cx: z3.Or(z3.Contains(cx.a('var'), nul), z3.Not(ufun('encodable_utf8', StringSort, BoolSort)(cx.a('var'))),
                           z3.Length(enc_utf8(cx.a('var'))) > 2**32 - 1)
    contract(w, 'txdbus.marshal.marshal_string', {'ct': STR, 'var': STR, 'start_byte': INT, 'lendian': BOOL, 'oobFDs': OPAQUE},
             result=TupleT(INT, CHUNKS),
             ensures=lambda cx: str_post(cx) + [('no-embedded-nul', z3.Not(z3.Contains(cx.a('var'), nul)))],
             raises={MarshallingError: lambda cx: z3.Contains(cx.a('var'), nul),
                     UnicodeEncodeError: lambda cx: z3.Not(ufun('encodable_utf8', StringSort, BoolSort)(cx.a('var'))),
                     struct.error: lambda cx: z3.Length(enc_utf8(cx.a('var'))) > 2**32 - 1}, pure=True)
    targets.append('txdbus.marshal.marshal_string')

    def ustr_post(cx):
        r = cx.result
        if not (isinstance(r, VTuple) and len(r.items) == 2 and isinstance(r.items[1], VStr)):
            return [('shape', z3.BoolVal(False))]
        le = cx.args['lendian'].term
        data, off = cx.a('data'), cx.a('offset')
        n = unpacked('I', le, S.slice_(cx.ctx, data, off, off + 4))
        body = S.slice_(cx.ctx, data, off + 4, off + 4 + n)
        return [('consumes-length-text-nul', r.items[0].term == 4 + n + 1), ('length-is-32-bit', z3.And(n >= 0, n < 2**32)),
                ('read-within-data', off + 4 <= z3.Length(data)),
                ('text', r.items[1].term == ufun('dec_utf8', StringSort, StringSort)(body))]

    contract(w, 'txdbus.marshal.unmarshal_string', {'ct': STR, 'data': BYTES, 'offset': INT, 'lendian': BOOL, 'oobFDs': OPAQUE},
             requires=lambda cx: [('offset-non-negative', cx.a('offset') >= 0)],
             ensures=ustr_post, result=TupleT(INT, STR),
             raises={struct.error: lambda cx: cx.a('offset') + 4 > z3.Length(cx.a('data')),
                     UnicodeDecodeError: lambda cx: z3.BoolVal(True)}, pure=True)
    targets.append('txdbus.marshal.unmarshal_string')

    def sig_post(cx):
        r = cx.result
        if not (isinstance(r, VTuple) and len(r.items) == 2 and isinstance(r.items[1], VChunks)):
            return [('shape', z3.BoolVal(False))]
        u = ufun('enc_ascii', StringSort, StringSort)(cx.a('var'))
        le = cx.args['lendian'].term
        return [('one-byte-length-text-nul', r.items[1].flat == z3.Concat(packed('B', le, z3.Length(u)), u, nul)),
                ('byte-count', r.items[0].term == 2 + z3.Length(u)), ('count-is-length', count_is_length(r))]

    contract(w, 'txdbus.marshal.marshal_signature', {'ct': STR, 'var': STR, 'start_byte': INT, 'lendian': BOOL, 'oobFDs': OPAQUE},
             ensures=sig_post, result=TupleT(INT, CHUNKS),
             raises={UnicodeEncodeError: lambda cx: z3.Not(ufun('encodable_ascii', StringSort, BoolSort)(cx.a('var'))),
                     struct.error: lambda cx: z3.Length(ufun('enc_ascii', StringSort, StringSort)(cx.a('var'))) > 255}, pure=True)
    targets.append('txdbus.marshal.marshal_signature')

    def usig_post(cx):
        r = cx.result
        if not (isinstance(r, VTuple) and len(r.items) == 2 and isinstance(r.items[1], VStr)):
            return [('shape', z3.BoolVal(False))]
        le = cx.args['lendian'].term
        data, off = cx.a('data'), cx.a('offset')
        n = unpacked('B', le, S.slice_(cx.ctx, data, off, off + 1))
        body = S.slice_(cx.ctx, data, off + 1, off + 1 + n)
        return [('consumes-length-text-nul', r.items[0].term == 1 + n + 1), ('length-is-one-byte', z3.And(n >= 0, n <= 255)),
                ('read-within-data', off + 1 <= z3.Length(data)),
                ('text', z3.And(r.items[1].term == ufun('dec_ascii', StringSort, StringSort)(body), z3.Length(r.items[1].term) <= n))]

    contract(w, 'txdbus.marshal.unmarshal_signature', {'ct': STR, 'data': BYTES, 'offset': INT, 'lendian': BOOL, 'oobFDs': OPAQUE},
             requires=lambda cx: [('offset-non-negative', cx.a('offset') >= 0)],
             ensures=usig_post, result=TupleT(INT, STR),
             raises={struct.error: lambda cx: cx.a('offset') + 1 > z3.Length(cx.a('data')),
                     UnicodeDecodeError: lambda cx: z3.BoolVal(True)}, pure=True)
    targets.append('txdbus.marshal.unmarshal_signature')


# ------------------------------------------------------------------------------ containers
def MARSH(ct, var, start_byte, lendian, oobFDs): pass          # interface stub: "the marshallers entry for ct[0]"
def UNMARSH(ct, data, offset, lendian, oobFDs): pass           # "the unmarshallers entry for ct[0]"


class VTable(V):
    """marshallers[c] / unmarshallers[c] / pad[c] for a symbolic type code c"""
    def __init__(self, kind, key):
        self.kind, self.key = kind, key


def count_is_length(r):
    return z3.And(r.items[0].term == z3.Length(r.items[1].flat), r.items[0].term >= 0)


def shape_ok(r):
    return isinstance(r, VTuple) and len(r.items) == 2 and isinstance(r.items[0], VInt) and isinstance(r.items[1], VChunks)


class MarshalModels(TxModels):
    """Table dispatch on a symbolic type code goes through the generic table contracts (KeyError when the code is no
    key of the LIVE table).  pad[c](x) is zeros(padlen(ALIGN(c), x)): each live entry is proved equal to that (C02 pad
    obligations); marshallers[c] / unmarshallers[c] satisfy MARSH / UNMARSH: each live entry is proved against its own,
    stronger contract, whose clauses include the generic ones."""
    def const_lookup(self, I, obj, idx):
        from txdbus import marshal
        if not (isinstance(obj, VPyConst) and isinstance(idx, VStr)):
            return None
        kind = 'pad' if obj.obj is marshal.pad else 'marsh' if obj.obj is marshal.marshallers else \
            'unmarsh' if obj.obj is marshal.unmarshallers else None
        if kind is None:
            return None
        t = z3.simplify(idx.term)
        if z3.is_string_value(t):
            return None                      # a concrete key (pad['header'], marshallers['s']): the ordinary constant lookup
        keys = [k for k in obj.obj.keys() if isinstance(k, str) and len(k) == 1]
        if not I.ctx.branch(z3.Or([idx.term == sv(k) for k in keys])):
            I.raise_py(KeyError)
        return VTable(kind, idx)

    def call_other(self, I, f, args, kwargs):
        if isinstance(f, VTable):
            if f.kind == 'pad':
                x = args[0]
                I.ctx.oblige('call:pad[]/pre:offset-non-negative', x.term >= 0, kind='pre')
                return VBytes(ZEROS(pad_facts(I.ctx, ALIGNF(f.key.term), x.term)))
            c = I.world.by_name['table.marshallers[]' if f.kind == 'marsh' else 'table.unmarshallers[]']
            I.ctx.table_key = f.key
            return I.call_by_contract(c, list(args), kwargs)
        return super().call_other(I, f, args, kwargs)

    def isinstance_other(self, I, v, classes):
        if isinstance(v, VOpaque):
            raise OutOfSubset('isinstance of an opaque value')
        return None


# ---- specification functions (uninterpreted; their defining equations are instantiated where used)
SEQS, SEQI = z3.SeqSort(StringSort), z3.SeqSort(IntSort)
CODES = 'ybnqiuxtdsogavh({'


def ENC(ct, v, off, le):
    """wire image of value v of the single complete type ct placed at the (aligned) offset off"""
    return ufun('enc', StringSort, IntSort, IntSort, BoolSort, StringSort)(ct, v, off, le)


def ENCS(P, V, k, off, le):
    """image of the first k values V[i] of types P[i], the first byte landing at offset off:
         ENCS(P,V,0,off)   = ''
         ENCS(P,V,k+1,off) = F . zeros(padlen(ALIGN(P[k][0]), off+|F|)) . ENC(P[k], V[k], off+|F|+pad)    with F = ENCS(P,V,k,off)"""
    return ufun('encs', SEQS, SEQI, IntSort, IntSort, BoolSort, StringSort)(P, V, k, off, le)


def ENCA(et, V, k, off, le):
    """the same for k array elements, all of type et"""
    return ufun('enca', StringSort, SEQI, IntSort, IntSort, BoolSort, StringSort)(et, V, k, off, le)


def PIECES(sig):
    """the top-level complete types of a signature (C19 owns the proof that genCompleteTypes computes it)"""
    return ufun('pieces', StringSort, SEQS)(sig)


def VCT(t):
    return ufun('is_complete_type', StringSort, BoolSort)(t)


def VSIG(t):
    return ufun('is_signature', StringSort, BoolSort)(t)


def first(ct):
    return z3.SubString(ct, 0, 1)


def unfold_encs(ctx, P, V, k, off, le):
    F = ENCS(P, V, k, off, le)
    q = ZEROS(pad_facts(ctx, ALIGNF(first(P[k])), off + z3.Length(F)))
    ctx.assume(ENCS(P, V, 0, off, le) == sv(''))
    ctx.assume(z3.Implies(z3.And(k >= 0, k < z3.Length(P), k < z3.Length(V)),
                          ENCS(P, V, k + 1, off, le) == z3.Concat(F, q, ENC(P[k], V[k], off + z3.Length(F) + z3.Length(q), le))))


def unfold_enca(ctx, et, V, k, off, le):
    F = ENCA(et, V, k, off, le)
    q = ZEROS(pad_facts(ctx, ALIGNF(first(et)), off + z3.Length(F)))
    ctx.assume(ENCA(et, V, 0, off, le) == sv(''))
    ctx.assume(z3.Implies(z3.And(k >= 0, k < z3.Length(V)),
                          ENCA(et, V, k + 1, off, le) == z3.Concat(F, q, ENC(et, V[k], off + z3.Length(F) + z3.Length(q), le))))


def DLEN(ct, data, off, le):
    """bytes occupied by the value of the single complete type ct encoded at the (aligned) offset off of data"""
    return ufun('dlen', StringSort, StringSort, IntSort, BoolSort, IntSort)(ct, data, off, le)


def DEC(ct, data, off, le):
    return ufun('dec', StringSort, StringSort, IntSort, BoolSort, IntSort)(ct, data, off, le)


def DOFF(P, data, k, off, le):
    """offset reached after reading k values of types P[i] starting at off:  DOFF(0) = off,
       DOFF(k+1) = o + DLEN(P[k], data, o)  with  o = DOFF(k) + padlen(ALIGN(P[k][0]), DOFF(k))"""
    return ufun('doff', SEQS, StringSort, IntSort, IntSort, BoolSort, IntSort)(P, data, k, off, le)


def DVALS(P, data, k, off, le):
    return ufun('dvals', SEQS, StringSort, IntSort, IntSort, BoolSort, SEQI)(P, data, k, off, le)


def AOFF(et, data, k, off, le):
    return ufun('aoff', StringSort, StringSort, IntSort, IntSort, BoolSort, IntSort)(et, data, k, off, le)


def AVALS(et, data, k, off, le):
    return ufun('avals', StringSort, StringSort, IntSort, IntSort, BoolSort, SEQI)(et, data, k, off, le)


def unfold_dec(ctx, P, data, k, off, le):
    o = DOFF(P, data, k, off, le)
    o = o + pad_facts(ctx, ALIGNF(first(P[k])), o)
    ctx.assume(z3.And(DOFF(P, data, 0, off, le) == off, DVALS(P, data, 0, off, le) == z3.Empty(SEQI)))
    ctx.assume(z3.Implies(z3.And(k >= 0, k < z3.Length(P)),
                          z3.And(DOFF(P, data, k + 1, off, le) == o + DLEN(P[k], data, o, le),
                                 DVALS(P, data, k + 1, off, le) == z3.Concat(DVALS(P, data, k, off, le), z3.Unit(DEC(P[k], data, o, le))))))


def unfold_adec(ctx, et, data, k, off, le):
    o = AOFF(et, data, k, off, le)
    o = o + pad_facts(ctx, ALIGNF(first(et)), o)
    ctx.assume(z3.And(AOFF(et, data, 0, off, le) == off, AVALS(et, data, 0, off, le) == z3.Empty(SEQI)))
    ctx.assume(z3.Implies(k >= 0,
                          z3.And(AOFF(et, data, k + 1, off, le) == o + DLEN(et, data, o, le),
                                 AVALS(et, data, k + 1, off, le) == z3.Concat(AVALS(et, data, k, off, le), z3.Unit(DEC(et, data, o, le))))))


def grammar_facts(ctx, t):
    """instances at t of the type grammar (DBus specification, "Type System"); cross-checked against the reference
    grammar contracts/wire_ref.ctlen by enumeration (bounded part)"""
    n = z3.Length(t)
    c = first(t)
    rest = S.slice_(ctx, t, z3.IntVal(1), None)
    return z3.And(
        z3.Implies(VCT(t), z3.And(n >= 1, z3.Or([c == sv(x) for x in CODES]), VSIG(t), PIECES(t) == z3.Unit(t))),
        z3.Implies(z3.And(VCT(t), c == sv('a')), z3.And(n >= 2, VCT(rest))),
        z3.Implies(z3.And(VCT(t), z3.Or(c == sv('('), c == sv('{'))), n >= 3))


def grammar_inner(ctx, t):
    """a struct / dict-entry type encloses a signature"""
    n = z3.Length(t)
    c = first(t)
    inner = S.slice_(ctx, t, z3.IntVal(1), z3.IntVal(-1))
    return z3.Implies(z3.And(VCT(t), z3.Or(c == sv('('), c == sv('{'))), VSIG(inner))


def add_container_contracts(w, targets):
    from txdbus import marshal
    from txdbus.error import MarshallingError
    anyexc = {Exception: lambda cx: z3.BoolVal(True), struct.error: lambda cx: z3.BoolVal(True)}

    def marsh_pre(cx):
        ct = cx.a('ct')
        out = [('type-is-a-complete-type', VCT(ct)),
               ('value-starts-at-its-alignment', ALIGNED(ALIGNF(first(ct)), cx.a('start_byte'))),
               ('offset-non-negative', cx.a('start_byte') >= 0),
               ('byte-order-used-throughout', cx.args['lendian'].term == le_skolem(cx))]
        key = getattr(cx.ctx, 'table_key', None)
        if key is not None:
            out.append(('dispatched-on-the-first-type-code', key.term == first(ct)))
        return out

    contract(w, 'table.marshallers[]', {'ct': STR, 'var': OPAQUE, 'start_byte': INT, 'lendian': BOOL, 'oobFDs': OPAQUE}, fn=MARSH,
             requires=marsh_pre, result=TupleT(INT, CHUNKS),
             ensures=lambda cx: [('count-is-length', count_is_length(cx.result)),
                                 ('the-image-of-the-value', cx.result.items[1].flat == ENC(cx.a('ct'), cx.args['var'].term, cx.a('start_byte'), cx.args['lendian'].term))],
             raises=anyexc, may_raise_any=True, assumed=True)

    def unmarsh_pre(cx):
        ct = cx.a('ct')
        out = [('type-is-a-complete-type', VCT(ct)),
               ('value-read-at-its-alignment', ALIGNED(ALIGNF(first(ct)), cx.a('offset'))),
               ('offset-non-negative', cx.a('offset') >= 0),
               ('byte-order-used-throughout', cx.args['lendian'].term == le_skolem(cx))]
        key = getattr(cx.ctx, 'table_key', None)
        if key is not None:
            out.append(('dispatched-on-the-first-type-code', key.term == first(ct)))
        return out

    contract(w, 'table.unmarshallers[]', {'ct': STR, 'data': BYTES, 'offset': INT, 'lendian': BOOL, 'oobFDs': OPAQUE}, fn=UNMARSH,
             requires=unmarsh_pre, result=TupleT(INT, OPAQUE),
             ensures=lambda cx: [('consumed-non-negative', cx.result.items[0].term >= 0),
                                 ('the-decoding-at-this-place', z3.And(cx.result.items[0].term == DLEN(cx.a('ct'), cx.a('data'), cx.a('offset'), cx.args['lendian'].term),
                                                                       cx.result.items[1].term == DEC(cx.a('ct'), cx.a('data'), cx.a('offset'), cx.args['lendian'].term)))],
             raises=anyexc, may_raise_any=True, assumed=True)

    # signature helpers by contract (C19 owns them)
    def gct_post(cx):
        r = cx.result
        sig = cx.a('compoundSig')
        cx.ctx.elem_facts.append((r.seqs[0], lambda i, e, sig=sig, ctx=cx.ctx: z3.Implies(VSIG(sig), z3.And(VCT(e), grammar_facts(ctx, e)))))
        return [('the-top-level-complete-types', r.seqs[0] == PIECES(sig))]

    contract(w, 'txdbus.marshal.genCompleteTypes', {'compoundSig': STR}, result=ListT(STR), ensures=gct_post,
             raises=anyexc, may_raise_any=True, assumed=True)
    contract(w, 'txdbus.marshal.sigFromPy', {'pobj': OPAQUE}, result=STR,
             ensures=lambda cx: [('a-single-complete-type',
                                  z3.And(VCT(cx.result.term), grammar_facts(cx.ctx, cx.result.term),
                                         cx.result.term == ufun('sigof', IntSort, StringSort)(cx.args['pobj'].term)))],
             raises={MarshallingError: lambda cx: z3.BoolVal(True)}, assumed=True)

    le_pre = lambda cx: [('byte-order-of-this-encoding', cx.args['lendian'].term == le_skolem(cx))]

    # ---- driver: marshal(sig, values, startByte, lendian, oobFDs)
    def nmin(P, V):
        return z3.If(z3.Length(P) <= z3.Length(V), z3.Length(P), z3.Length(V))

    def driver_post(cx):
        r = cx.result
        if not shape_ok(r):
            return [('shape', z3.BoolVal(False))]
        P = PIECES(cx.a('compoundSignature'))
        V = cx.args['variableList'].seqs[0]
        return [('count-is-length', count_is_length(r)),
                ('each value at its alignment after zero padding, in order, nothing else',
                 r.items[1].flat == ENCS(P, V, nmin(P, V), cx.a('startByte'), cx.args['lendian'].term))]

    def driver_inv(cx):
        ch = cx.L['chunks']
        P = PIECES(cx.a('compoundSignature'))
        V = cx.args['variableList'].seqs[0]
        le = cx.args['lendian'].term
        k = cx.l('_k1')
        unfold_encs(cx.ctx, P, V, k, cx.l('bstart'), le)
        return [('bytes-so-far', ch.flat == ENCS(P, V, k, cx.l('bstart'), le)),
                ('offset-tracks-the-bytes-produced', cx.l('startByte') == cx.l('bstart') + z3.Length(ch.flat)),
                ('offsets', z3.And(cx.l('bstart') >= 0, cx.l('bstart') == cx.a('startByte'))),
                ('byte-order', le == le_skolem(cx))]

    contract(w, 'txdbus.marshal.marshal', {'compoundSignature': STR, 'variableList': ListT(OPAQUE), 'startByte': INT, 'lendian': BOOL, 'oobFDs': OPAQUE},
             requires=lambda cx: le_pre(cx) + [('offset-non-negative', cx.a('startByte') >= 0), ('valid-signature', VSIG(cx.a('compoundSignature')))],
             ensures=driver_post, result=TupleT(INT, CHUNKS), raises=anyexc, may_raise_any=True, locals_types={'chunks': CHUNKS},
             loops={1: LoopSpec(invariant=driver_inv, ghost_index='_k1')})
    targets.append('txdbus.marshal.marshal')

    # ---- array
    def array_parts(cx):
        ct = cx.a('ct')
        et = S.slice_(cx.ctx, ct, z3.IntVal(1), None)
        start = cx.a('start_byte')
        p = pad_facts(cx.ctx, ALIGNF(first(et)), start + 4)
        return ct, et, start, p

    def array_post(cx):
        r = cx.result
        if not shape_ok(r):
            return [('shape', z3.BoolVal(False))]
        ct, et, start, p = array_parts(cx)
        le = cx.args['lendian'].term
        V = cx.args['var'].seqs[0]
        B = ENCA(et, V, z3.Length(V), start + 4 + p, le)
        return [('count-is-length', count_is_length(r)),
                ('length word, zero padding to the element alignment, the elements; the length counts the element bytes only',
                 r.items[1].flat == z3.Concat(packed('I', le, z3.Length(B)), ZEROS(p), B))]

    def array_inv(cx):
        ch = cx.L['chunks']
        ct, et, start, p = array_parts(cx)
        le = cx.args['lendian'].term
        V = cx.args['var'].seqs[0]
        k = cx.l('_k1')
        unfold_enca(cx.ctx, et, V, k, start + 4 + p, le)
        B = ENCA(et, V, k, start + 4 + p, le)
        return [('initial-padding', cx.l('initial_padding') == ZEROS(p)),
                ('bytes-so-far', z3.And(ch.flat == z3.Concat(ZEROS(p), B), cx.l('data_len') == z3.Length(B))),
                ('offset-tracks-the-bytes-produced', cx.l('start_byte') == start + 4 + p + cx.l('data_len')),
                ('element-type', z3.And(cx.l('tsig') == et, cx.l('tcode') == first(et))),
                ('byte-order', le == le_skolem(cx))]

    contract(w, 'txdbus.marshal.marshal_array', {'ct': STR, 'var': ListT(OPAQUE), 'start_byte': INT, 'lendian': BOOL, 'oobFDs': OPAQUE},
             requires=lambda cx: le_pre(cx) + [('array-type', z3.And(VCT(cx.a('ct')), first(cx.a('ct')) == sv('a'))),
                                               ('offset-non-negative', cx.a('start_byte') >= 0),
                                               ('array-starts-at-4', cx.a('start_byte') % 4 == 0)],
             invariants=lambda cx: [('type-grammar', z3.And(grammar_facts(cx.ctx, cx.a('ct')),
                                                            grammar_facts(cx.ctx, S.slice_(cx.ctx, cx.a('ct'), z3.IntVal(1), None))))],
             ensures=array_post, result=TupleT(INT, CHUNKS), raises=anyexc, may_raise_any=True, locals_types={'chunks': CHUNKS},
             loops={1: LoopSpec(invariant=array_inv, ghost_index='_k1')})
    targets.append('txdbus.marshal.marshal_array')

    # ---- struct / dict entry
    def struct_post(cx):
        r = cx.result
        if not shape_ok(r):
            return [('shape', z3.BoolVal(False))]
        ct = cx.a('ct')
        P = PIECES(S.slice_(cx.ctx, ct, z3.IntVal(1), z3.IntVal(-1)))
        V = cx.args['var'].seqs[0]
        return [('count-is-length', count_is_length(r)),
                ('the fields in order, each at its alignment', r.items[1].flat == ENCS(P, V, nmin(P, V), cx.a('start_byte'), cx.args['lendian'].term))]

    contract(w, 'txdbus.marshal.marshal_struct', {'ct': STR, 'var': ListT(OPAQUE), 'start_byte': INT, 'lendian': BOOL, 'oobFDs': OPAQUE},
             requires=lambda cx: le_pre(cx) + [('struct-type', z3.And(VCT(cx.a('ct')), z3.Or(first(cx.a('ct')) == sv('('), first(cx.a('ct')) == sv('{')))),
                                               ('offset-non-negative', cx.a('start_byte') >= 0)],
             invariants=lambda cx: [('type-grammar', z3.And(grammar_facts(cx.ctx, cx.a('ct')), grammar_inner(cx.ctx, cx.a('ct'))))],
             ensures=struct_post, result=TupleT(INT, CHUNKS), raises=anyexc, may_raise_any=True)
    targets.append('txdbus.marshal.marshal_struct')

    # ---- variant
    def variant_post(cx):
        r = cx.result
        if not shape_ok(r):
            return [('shape', z3.BoolVal(False))]
        le = cx.args['lendian'].term
        v = cx.args['var'].term
        sg = ufun('sigof', IntSort, StringSort)(v)
        u = ufun('enc_ascii', StringSort, StringSort)(sg)
        head = z3.Concat(packed('B', le, z3.Length(u)), u, sv('\0'))
        at = cx.a('start_byte') + z3.Length(head)
        p = pad_facts(cx.ctx, ALIGNF(first(sg)), at)
        unfold_encs(cx.ctx, z3.Unit(sg), z3.Unit(v), z3.IntVal(0), at + p, le)
        return [('count-is-length', count_is_length(r)),
                ('the signature of the content, zero padding to the content alignment, the content',
                 r.items[1].flat == z3.Concat(head, ZEROS(p), ENC(sg, v, at + p, le)))]

    contract(w, 'txdbus.marshal.marshal_variant', {'ct': STR, 'var': OPAQUE, 'start_byte': INT, 'lendian': BOOL, 'oobFDs': OPAQUE},
             requires=lambda cx: le_pre(cx) + [('offset-non-negative', cx.a('start_byte') >= 0)],
             ensures=variant_post, result=TupleT(INT, CHUNKS), raises=anyexc, may_raise_any=True)
    targets.append('txdbus.marshal.marshal_variant')

    # =========================================================== decoders
    def gname(sfx):
        return sfx

    def u_common(cx, sig_arg):
        return le_pre(cx) + [('offset-non-negative', cx.a('offset') >= 0)]

    # ---- driver: unmarshal(sig, data, offset, lendian, oobFDs)
    def udriver_post(cx):
        r = cx.result
        if not (isinstance(r, VTuple) and len(r.items) == 2 and isinstance(r.items[0], VInt) and isinstance(r.items[1], VList)):
            return [('shape', z3.BoolVal(False))]
        P = PIECES(cx.a('compoundSignature'))
        data, off, le = cx.a('data'), cx.a('offset'), cx.args['lendian'].term
        n = z3.Length(P)
        return [('consumed: every value read at its alignment, in order', r.items[0].term == DOFF(P, data, n, off, le) - off),
                ('one value per complete type, each the decoding at its place', r.items[1].seqs[0] == DVALS(P, data, n, off, le))]

    def udriver_inv(cx):
        P = PIECES(cx.a('compoundSignature'))
        data, off, le = cx.a('data'), cx.a('offset'), cx.args['lendian'].term
        k = cx.l('_k1')
        unfold_dec(cx.ctx, P, data, k, off, le)
        vals = cx.L['values']
        return [('offset-is-the-spec-offset', cx.l('offset') == DOFF(P, data, k, off, le)),
                ('values-so-far', vals.seqs[0] == DVALS(P, data, k, off, le)),
                ('start', z3.And(cx.l('start_offset') == off, cx.l('offset') >= off)),
                ('byte-order', le == le_skolem(cx))]

    contract(w, 'txdbus.marshal.unmarshal', {'compoundSignature': STR, 'data': BYTES, 'offset': INT, 'lendian': BOOL, 'oobFDs': OPAQUE},
             requires=lambda cx: u_common(cx, 'compoundSignature') + [('valid-signature', VSIG(cx.a('compoundSignature')))],
             ensures=udriver_post, result=TupleT(INT, ListT(OPAQUE)), raises=anyexc, may_raise_any=True, locals_types={'values': ListT(OPAQUE)},
             loops={1: LoopSpec(invariant=udriver_inv, ghost_index='_k1')})
    targets.append('txdbus.marshal.unmarshal')

    # ---- array (element types other than dict entries: the final list -> dict conversion is outside this contract)
    def uarray_parts(cx):
        ct = cx.a('ct')
        et = S.slice_(cx.ctx, ct, z3.IntVal(1), None)
        data, off, le = cx.a('data'), cx.a('offset'), cx.args['lendian'].term
        n = unpacked('I', le, S.slice_(cx.ctx, data, off, off + 4))
        p = pad_facts(cx.ctx, ALIGNF(first(et)), off + 4)
        return ct, et, data, off, le, n, off + 4 + p

    def uarray_post(cx):
        r = cx.result
        if not (isinstance(r, VTuple) and len(r.items) == 2 and isinstance(r.items[0], VInt) and isinstance(r.items[1], VList)):
            return [('shape', z3.BoolVal(False))]
        ct, et, data, off, le, n, o0 = uarray_parts(cx)
        cnt = z3.Length(r.items[1].seqs[0])
        return [('consumed: length word, padding to the element alignment (not counted), then exactly the declared element bytes',
                 r.items[0].term == o0 + n - off),
                ('the elements end exactly at the declared length', AOFF(et, data, cnt, o0, le) == o0 + n),
                ('each element the decoding at its place', r.items[1].seqs[0] == AVALS(et, data, cnt, o0, le))]

    def uarray_inv(cx):
        ct, et, data, off, le, n, o0 = uarray_parts(cx)
        vals = cx.L['values']
        j = z3.Length(vals.seqs[0])
        unfold_adec(cx.ctx, et, data, j, o0, le)
        return [('offset-is-the-spec-offset', cx.l('offset') == AOFF(et, data, j, o0, le)),
                ('values-so-far', vals.seqs[0] == AVALS(et, data, j, o0, le)),
                ('bounds', z3.And(cx.l('end_offset') == o0 + n, cx.l('data_len') == n, cx.l('start_offset') == off, cx.l('offset') >= o0)),
                ('element-type', z3.And(cx.l('tsig') == et, cx.l('tcode') == first(et))),
                ('byte-order', le == le_skolem(cx))]

    contract(w, 'txdbus.marshal.unmarshal_array', {'ct': STR, 'data': BYTES, 'offset': INT, 'lendian': BOOL, 'oobFDs': OPAQUE},
             requires=lambda cx: u_common(cx, 'ct') + [('array-type', z3.And(VCT(cx.a('ct')), first(cx.a('ct')) == sv('a'))),
                                                       ('not-a-dict-entry-array', first(S.slice_(cx.ctx, cx.a('ct'), z3.IntVal(1), None)) != sv('{'))],
             invariants=lambda cx: [('type-grammar', z3.And(grammar_facts(cx.ctx, cx.a('ct')),
                                                            grammar_facts(cx.ctx, S.slice_(cx.ctx, cx.a('ct'), z3.IntVal(1), None))))],
             ensures=uarray_post, result=TupleT(INT, ListT(OPAQUE)), raises=anyexc, may_raise_any=True, locals_types={'values': ListT(OPAQUE)},
             loops={1: LoopSpec(invariant=uarray_inv)})
    targets.append('txdbus.marshal.unmarshal_array')

    # ---- struct
    def ustruct_post(cx):
        r = cx.result
        if not (isinstance(r, VTuple) and len(r.items) == 2 and isinstance(r.items[0], VInt) and isinstance(r.items[1], VList)):
            return [('shape', z3.BoolVal(False))]
        P = PIECES(S.slice_(cx.ctx, cx.a('ct'), z3.IntVal(1), z3.IntVal(-1)))
        data, off, le = cx.a('data'), cx.a('offset'), cx.args['lendian'].term
        n = z3.Length(P)
        return [('consumed', r.items[0].term == DOFF(P, data, n, off, le) - off),
                ('the fields in order', r.items[1].seqs[0] == DVALS(P, data, n, off, le))]

    contract(w, 'txdbus.marshal.unmarshal_struct', {'ct': STR, 'data': BYTES, 'offset': INT, 'lendian': BOOL, 'oobFDs': OPAQUE},
             requires=lambda cx: u_common(cx, 'ct') + [('struct-type', z3.And(VCT(cx.a('ct')), z3.Or(first(cx.a('ct')) == sv('('), first(cx.a('ct')) == sv('{'))))],
             invariants=lambda cx: [('type-grammar', z3.And(grammar_facts(cx.ctx, cx.a('ct')), grammar_inner(cx.ctx, cx.a('ct'))))],
             ensures=ustruct_post, result=TupleT(INT, ListT(OPAQUE)), raises=anyexc, may_raise_any=True)
    targets.append('txdbus.marshal.unmarshal_struct')

    # ---- variant
    def carried_sig(cx):
        data, off, le = cx.a('data'), cx.a('offset'), cx.args['lendian'].term
        n = unpacked('B', le, S.slice_(cx.ctx, data, off, off + 1))
        return ufun('dec_ascii', StringSort, StringSort)(S.slice_(cx.ctx, data, off + 1, off + 1 + n))

    def uvariant_unfold(cx):
        data, off, le = cx.a('data'), cx.a('offset'), cx.args['lendian'].term
        n = unpacked('B', le, S.slice_(cx.ctx, data, off, off + 1))
        sg = carried_sig(cx)
        at = off + 1 + n + 1
        p = pad_facts(cx.ctx, ALIGNF(first(sg)), at)
        unfold_dec(cx.ctx, z3.Unit(sg), data, z3.IntVal(0), at + p, le)
        return z3.BoolVal(True)

    def uvariant_post(cx):
        r = cx.result
        if not (isinstance(r, VTuple) and len(r.items) == 2 and isinstance(r.items[0], VInt) and isinstance(r.items[1], VOpaque)):
            return [('shape: (count, the single content value)', z3.BoolVal(False))]
        data, off, le = cx.a('data'), cx.a('offset'), cx.args['lendian'].term
        n = unpacked('B', le, S.slice_(cx.ctx, data, off, off + 1))
        sg = ufun('dec_ascii', StringSort, StringSort)(S.slice_(cx.ctx, data, off + 1, off + 1 + n))
        at = off + 1 + n + 1
        p = pad_facts(cx.ctx, ALIGNF(first(sg)), at)
        unfold_dec(cx.ctx, z3.Unit(sg), data, z3.IntVal(0), at + p, le)
        return [('consumed: signature, padding to the content alignment, the content', r.items[0].term == at + p + DLEN(sg, data, at + p, le) - off),
                ('the content decoded under the carried signature', r.items[1].term == DEC(sg, data, at + p, le))]

    contract(w, 'txdbus.marshal.unmarshal_variant', {'ct': STR, 'data': BYTES, 'offset': INT, 'lendian': BOOL, 'oobFDs': OPAQUE},
             requires=lambda cx: u_common(cx, 'ct') + [('the carried signature is one complete type (conformant encodings only)',
                                                        VCT(carried_sig(cx)))],
             invariants=lambda cx: [('type-grammar', grammar_facts(cx.ctx, carried_sig(cx))), ('spec-unfolding', uvariant_unfold(cx))],
             ensures=uvariant_post, result=TupleT(INT, OPAQUE), raises=anyexc, may_raise_any=True)
    targets.append('txdbus.marshal.unmarshal_variant')

    # ---- the live dispatch tables bind each type code to the function whose contract specifies that type
    binding = []
    for code, nm in ENC_NAME.items():
        for tab, pre in ((marshal.marshallers, 'marshal_'), (marshal.unmarshallers, 'unmarshal_')):
            binding.append(('%sers[%s] is %s%s' % (pre.rstrip('_'), code, pre, nm),
                            z3.BoolVal(tab.get(code) is getattr(marshal, pre + nm, None))))
        binding.append(('pad[%s] is the padding function under contract' % code,
                        z3.BoolVal(w.by_name.get('txdbus.marshal.pad[%s]' % code) is not None
                                   and w.by_name['txdbus.marshal.pad[%s]' % code].fn is getattr(marshal.pad.get(code), '__func__', marshal.pad.get(code)))))
    return binding + abstraction_lemmas()
