"""Shared helpers for the contract modules: resolving live objects, txdbus-specific models."""
import importlib
import z3

from pyvc.values import *  # noqa
from pyvc.engine import World, Contract, ClassSpec, LoopSpec
from pyvc.models import Models
from pyvc import strings as S


def resolve(dotted):
    """'txdbus.marshal.validateBusName' / 'txdbus.bus.Bus.dbus_RequestName' -> live object."""
    parts = dotted.split('.')
    for i in range(len(parts), 0, -1):
        try:
            obj = importlib.import_module('.'.join(parts[:i]))
        except ImportError:
            continue
        for p in parts[i:]:
            obj = obj.__dict__[p] if isinstance(obj, type) and p in obj.__dict__ else getattr(obj, p)
        return getattr(obj, '__func__', obj)
    raise ImportError(dotted)


def contract(world, dotted, params, fn=None, **kw):
    fn = fn if fn is not None else resolve(dotted)
    c = Contract(dotted, fn, params, **kw)
    world.add_contract(c)
    return c


def inline(world, dotted):
    world.inline.add(id(resolve(dotted)))


class TxModels(Models):
    def __init__(self, world):
        super().__init__(world)
        from txdbus import marshal
        # typed wrapper classes (int / str subclasses): the value itself; the DBus type tag they
        # carry (dbusSignature) is tracked where a contract needs it (C19 / C02), not here
        for cls in (marshal.Byte, marshal.Boolean, marshal.Int16, marshal.UInt16, marshal.Int32,
                    marshal.UInt32, marshal.Int64, marshal.UInt64):
            self.instantiators[cls] = self.wrap_int
        for cls in (marshal.Signature, marshal.ObjectPath):
            self.instantiators[cls] = self.wrap_str
        from twisted.python import log
        self.register(log.msg, lambda I, a, k: VNone())
        self.register(log.err, lambda I, a, k: VNone())

    def wrap_int(self, I, a, k):
        v = a[0]
        if isinstance(v, VBool):
            return VInt(z3.If(v.term, 1, 0))
        if isinstance(v, (VInt, VOpaque)):
            return v
        raise OutOfSubset('int wrapper of %r' % (v,))

    def wrap_str(self, I, a, k):
        v = a[0]
        if isinstance(v, (VStr, VOpaque)):
            return v
        raise OutOfSubset('str wrapper of %r' % (v,))


def make_models(world):
    return TxModels(world)


def in_re(t, r):
    return z3.InRe(t, r)


def opt_ok(view_none, pred):
    """optional field: None or pred"""
    return z3.Or(view_none, pred)
