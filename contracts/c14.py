"""C14 - built-in bus: each message goes to the right peer with the true sender.

Deductive part, every state of the connection / name tables and every message (each handler atomic):
  Bus.clientConnected     unique name ':1.<next_id>', next_id strictly increases (never reused), table updated at that key only
  Bus.sendMessage         a message with a destination is written exactly once to the connection that owns the
                          destination at that moment (unique name -> that connection, well-known -> head of its queue)
                          and to no other connection (skolem p0); no owner -> nobody; no destination -> match rules only
  Bus.messageReceived     requires sender == the originating connection's unique name (call-site obligation in
                          rawDBusMessageReceived: "whatever the originator wrote"); a message for the bus is handled by
                          the bus object handler and NOT forwarded; anything else goes through sendMessage, nothing is
                          additionally offered to the match rules
  BusProtocol.rawDBusMessageReceived   sender overwritten with the true unique name, same serial re-marshalled,
                          Hello answered to the caller and not forwarded, anything else before Hello closes and is dropped
Per-sender order: each forward happens before the handler returns (the ghost logs are appended in call order).
Bounded (labelled): histories of connects, disconnects, name changes, unicasts of all four types with forged senders and
broadcasts among up to 4 clients through the real Bus / BusProtocol objects, wire bytes parsed back.
"""
import itertools
import random

import z3

from pyvc.values import *  # noqa
from pyvc.engine import World, ClassSpec, LoopSpec, select_store
from pyvc.runner import Spec
from .base import contract, TxModels, inline
from .classes import message_classes
from .c18 import add_validator_contracts, add_constructor_contracts

B, BP, M = 'Bus', 'BusProtocol', 'DBusMessage'


def routeMessage(self, m): pass
def handleMethodCallMessage(self, msg): pass
def loseConnection(self): pass
def delMatch(self, rule_id): pass


def build_world():
    from txdbus import bus, message
    w = World()
    message_classes(w)
    add_validator_contracts(w)
    add_constructor_contracts(w)
    w.add_class(ClassSpec('Router', None, {'g_routed': INT, 'g_lastrouted': Ref(M), 'g_deleted': ListT(INT)}, methods={'routeMessage': routeMessage, 'delMatch': delMatch}))
    w.add_class(ClassSpec('Handler', None, {'g_handled': INT}, methods={'handleMethodCallMessage': handleMethodCallMessage}))
    w.add_class(ClassSpec('Transport', None, {'g_closed': BOOL}, methods={'loseConnection': loseConnection}))
    w.add_class(ClassSpec(BP, bus.BusProtocol, {
        'uniqueName': Opt(STR), '_called_hello': BOOL, 'bus': Ref(B), 'transport': Ref('Transport'), '_receivedFDs': OPAQUE,
        'g_nrecv': INT, 'g_lastrecv': Ref(M), 'matchRules': ListT(INT), 'busNames': DictT(STR, BOOL)}))
    w.add_class(ClassSpec(B, bus.Bus, {
        'clients': DictT(STR, Ref(BP)), 'busNames': DictT(STR, ListT(Ref(BP))), 'router': Ref('Router'),
        'obj_handler': Ref('Handler'), 'next_id': INT, 'g_received': INT}))

    contract(w, 'iface.Router.routeMessage', {'self': Ref('Router'), 'm': Ref(M)}, fn=routeMessage,
             modifies=lambda cx: [(cx.args['self'], 'Router.g_routed'), (cx.args['self'], 'Router.g_lastrouted')],
             ensures=lambda cx: [('offered-to-the-rules-once', z3.And(cx.new(cx.args['self']).g_routed == cx.old(cx.args['self']).g_routed + 1,
                                                                     cx.new(cx.args['self']).g_lastrouted == cx.a('m')))], assumed=True)
    contract(w, 'iface.Handler.handleMethodCallMessage', {'self': Ref('Handler'), 'msg': Ref(M)}, fn=handleMethodCallMessage,
             modifies=lambda cx: [(cx.args['self'], 'Handler.g_handled'), ('*', BP + '.g_nrecv'), ('*', BP + '.g_lastrecv')],
             ensures=lambda cx: [('handled', cx.new(cx.args['self']).g_handled == cx.old(cx.args['self']).g_handled + 1)],
             raises={bus.DError: lambda cx: z3.BoolVal(True), Exception: lambda cx: z3.BoolVal(True)}, may_raise_any=True, assumed=True,
             # g_handled counts invocations: a handler that answers by raising a DBus error has handled the call as well
             raises_post={bus.DError: lambda cx: [('handled', cx.new(cx.args['self']).g_handled == cx.old(cx.args['self']).g_handled + 1)]})
    contract(w, 'iface.Transport.loseConnection', {'self': Ref('Transport')}, fn=loseConnection,
             modifies=lambda cx: [(cx.args['self'], 'Transport.g_closed')],
             ensures=lambda cx: [('closed', cx.new(cx.args['self']).g_closed)], assumed=True)
    contract(w, 'txdbus.protocol.BasicDBusProtocol.sendMessage', {'self': Ref(BP), 'msg': Ref(M)},
             modifies=lambda cx: [(cx.args['self'], BP + '.g_nrecv'), (cx.args['self'], BP + '.g_lastrecv')],
             ensures=lambda cx: [('written-once', z3.And(cx.new(cx.args['self']).g_nrecv == cx.old(cx.args['self']).g_nrecv + 1,
                                                         cx.new(cx.args['self']).g_lastrecv == cx.a('msg')))], assumed=True)
    contract(w, 'txdbus.message.parseMessage', {'rawMessage': BYTES, 'oobFDs': OPAQUE}, result=Ref(M),
             ensures=lambda cx: [('has-a-serial', z3.Not(cx.new(cx.result).serial.none)),
                                 ('names validated on the wire are non-empty', z3.Implies(z3.Not(cx.new(cx.result).destination.none), z3.Length(cx.new(cx.result).destination.val.term) >= 1))],
             raises={Exception: lambda cx: z3.BoolVal(True)}, may_raise_any=True, assumed=True)

    sv = z3.StringVal
    BUSNAME = sv('org.freedesktop.DBus')

    def owner_of(cx, bv, dest):
        """(exists, connection) owning destination name dest at this moment"""
        cl, bn = bv.clients, bv.busNames
        uniq = z3.PrefixOf(sv(':'), dest)
        q = select_store(bn.vals[0], dest)
        exists = z3.If(uniq, select_store(cl.dom, dest), z3.And(select_store(bn.dom, dest), z3.Length(q) >= 1))
        conn = z3.If(uniq, select_store(cl.vals[0], dest), q[0])
        return exists, conn

    def delivered_only_to(cx, target_exists, target):
        """exactly one write to target (if any) and none to the arbitrary other connection p0"""
        p0t = cx.ctx.skolem('p0_conn', IntSort)
        p0 = VRef(p0t, BP)
        t = VRef(target, BP)
        return z3.And(z3.Implies(target_exists, cx.new(t).g_nrecv == cx.old(t).g_nrecv + 1),
                      z3.Implies(z3.Or(z3.Not(target_exists), p0t != target), cx.new(p0).g_nrecv == cx.old(p0).g_nrecv))

    def send_pre(cx):
        mv = cx.old(cx.args['msg'])
        bv = cx.old(cx.args['self'])
        q = select_store(bv.busNames.vals[0], mv.destination.val.term)
        return [('destination names are non-empty (validated on construction / parsing)', z3.Implies(z3.Not(mv.destination.none), z3.Length(mv.destination.val.term) >= 1))]

    def nt_inv(cx):
        mv = cx.old(cx.args['msg'])
        bv = cx.old(cx.args['self'])
        q = select_store(bv.busNames.vals[0], mv.destination.val.term)
        return [('NT: queues are non-empty (C13)', z3.Implies(select_store(bv.busNames.dom, mv.destination.val.term), z3.Length(q) >= 1))]

    def send_post(cx):
        s = cx.args['self']
        bv = cx.old(s)
        mv = cx.old(cx.args['msg'])
        r = VRef(bv.router, 'Router')
        exists, conn = owner_of(cx, bv, mv.destination.val.term)
        return [('addressed: exactly once to the owner of the destination, to nobody else, not to the match rules',
                 z3.Implies(z3.Not(mv.destination.none),
                            z3.And(delivered_only_to(cx, exists, conn), cx.new(r).g_routed == cx.old(r).g_routed,
                                   z3.Implies(exists, cx.new(VRef(conn, BP)).g_lastrecv == cx.a('msg'))))),
                ('broadcast: to the match rules only', z3.Implies(mv.destination.none,
                                                                   z3.And(cx.new(r).g_routed == cx.old(r).g_routed + 1, cx.new(r).g_lastrouted == cx.a('msg'),
                                                                          cx.unchanged(BP + '.g_nrecv'))))]

    mods = lambda cx: [('*', BP + '.g_nrecv'), ('*', BP + '.g_lastrecv'), ('*', 'Router.g_routed'), ('*', 'Router.g_lastrouted')]
    contract(w, 'txdbus.bus.Bus.sendMessage', {'self': Ref(B), 'msg': Ref(M)}, requires=send_pre, invariants=nt_inv, ensures=send_post, modifies=mods,
             raises={AssertionError: lambda cx: z3.And(z3.Or(cx.old(cx.args['msg'])._messageType == 1, cx.old(cx.args['msg'])._messageType == 2),
                                                          z3.Or(cx.old(cx.args['msg']).destination.none, z3.Length(cx.old(cx.args['msg']).destination.val.term) == 0))},
             asserts_raise=True)

    def recv_pre(cx):
        out = send_pre(cx)
        pv = cx.old(cx.args['p'])
        mv = cx.old(cx.args['msg'])
        out.append(('true sender', z3.And(z3.Not(pv.uniqueName.none), z3.Not(mv.sender.none), mv.sender.val.term == pv.uniqueName.val.term)))
        out.append(('has-a-serial', z3.Not(mv.serial.none)))
        return out

    def recv_post(cx):
        s = cx.args['self']
        bv = cx.old(s)
        mv = cx.old(cx.args['msg'])
        h = VRef(bv.obj_handler, 'Handler')
        r = VRef(bv.router, 'Router')
        tobus = z3.And(z3.Not(mv.destination.none), mv.destination.val.term == BUSNAME)
        exists, conn = owner_of(cx, bv, mv.destination.val.term)
        return [('for the bus: handled by the bus, not forwarded, not broadcast',
                 z3.Implies(tobus, z3.And(z3.Implies(mv._messageType == 1, cx.new(h).g_handled == cx.old(h).g_handled + 1),
                                          cx.new(r).g_routed == cx.old(r).g_routed))),
                ('addressed to a peer: once to its owner and to no other',
                 z3.Implies(z3.And(z3.Not(mv.destination.none), z3.Not(tobus)),
                            z3.And(delivered_only_to(cx, exists, conn), cx.new(r).g_routed == cx.old(r).g_routed,
                                   cx.new(h).g_handled == cx.old(h).g_handled))),
                ('broadcast: match rules, once', z3.Implies(mv.destination.none, z3.And(cx.new(r).g_routed == cx.old(r).g_routed + 1,
                                                                                       cx.new(r).g_lastrouted == cx.a('msg'))))]

    contract(w, 'txdbus.bus.Bus.messageReceived', {'self': Ref(B), 'p': Ref(BP), 'msg': Ref(M)},
             requires=recv_pre, invariants=nt_inv, ensures=recv_post,
             raises={Exception: lambda cx: z3.BoolVal(True)}, may_raise_any=True, asserts_raise=True,
             modifies=lambda cx: mods(cx) + [('*', 'Handler.g_handled')] + [('*', M + '.' + f) for f in MSGF])

    def conn_post(cx):
        s = cx.args['self']
        o, n = cx.old(s), cx.new(s)
        p = cx.args['proto']
        from pyvc.models import ufun
        name = cx.new(p).uniqueName
        return [('unique name from the counter', z3.And(z3.Not(name.none), z3.PrefixOf(sv(':1.'), name.val.term),
                                                        name.val.term == z3.Concat(sv(':1.'), z3.IntToStr(o.next_id)))),
                ('counter strictly increases (names are never reused)', n.next_id == o.next_id + 1),
                ('registered under that name only', z3.And(n.clients.dom == z3.Store(o.clients.dom, name.val.term, True),
                                                           n.clients.vals[0] == z3.Store(o.clients.vals[0], name.val.term, cx.a('proto'))))]

    contract(w, 'txdbus.bus.Bus.clientConnected', {'self': Ref(B), 'proto': Ref(BP)},
             requires=lambda cx: [('counter-positive', cx.old(cx.args['self']).next_id >= 1)], ensures=conn_post,
             modifies=lambda cx: [(cx.args['self'], B + '.clients'), (cx.args['self'], B + '.next_id'), (cx.args['proto'], BP + '.uniqueName')])

    # ---- clientDisconnected: the rules of the connection are removed, its names released, its entry dropped - and the
    #      unique-name counter is not touched (a name is never reused)
    contract(w, 'iface.Router.delMatch', {'self': Ref('Router'), 'rule_id': INT}, fn=delMatch,
             modifies=lambda cx: [(cx.args['self'], 'Router.g_deleted')],
             ensures=lambda cx: [('removed', cx.new(cx.args['self']).g_deleted.seqs[0] == z3.Concat(cx.old(cx.args['self']).g_deleted.seqs[0], z3.Unit(cx.a('rule_id'))))],
             assumed=True)
    contract(w, 'txdbus.bus.Bus.dbus_ReleaseName', {'self': Ref(B), 'name': STR, 'dbusCaller': Opt(STR)}, result=INT,
             modifies=lambda cx: [(cx.args['self'], B + '.busNames'), ('*', BP + '.busNames'), ('*', BP + '.g_nrecv'), ('*', BP + '.g_lastrecv')],
             raises={Exception: lambda cx: z3.BoolVal(True)}, may_raise_any=True, assumed=True)

    def disc_post(cx):
        s, pr = cx.args['self'], cx.args['proto']
        o, n = cx.old(s), cx.new(s)
        po = cx.old(pr)
        r = VRef(o.router, 'Router')
        named = z3.And(z3.Not(po.uniqueName.none), po.uniqueName.val.term != sv(''))
        return [('every match rule of the connection is removed from the router, once, in order',
                 cx.new(r).g_deleted.seqs[0] == z3.Concat(cx.old(r).g_deleted.seqs[0], po.matchRules.seqs[0])),
                ('the connection leaves the client table; no other entry changes',
                 z3.If(named, z3.And(n.clients.dom == z3.Store(o.clients.dom, po.uniqueName.val.term, False), n.clients.vals[0] == o.clients.vals[0]),
                       z3.And(n.clients.dom == o.clients.dom, n.clients.vals[0] == o.clients.vals[0])))]

    def disc_inv1(cx):
        s, pr = cx.args['self'], cx.args['proto']
        o = cx.old(s)
        r = VRef(o.router, 'Router')
        lst = cx.L['_seq1'].seqs[0]
        k = cx.l('_k1')
        pre, suf = cx.ctx.prefix_of(lst, k)
        cx.ctx.prefix_of(lst, k + 1)
        return [('removed-so-far', cx.new(r).g_deleted.seqs[0] == z3.Concat(cx.old(r).g_deleted.seqs[0], pre)),
                ('rules-being-removed', lst == cx.old(pr).matchRules.seqs[0]),
                ('tables-untouched', cx.unchanged(B + '.clients', B + '.next_id', B + '.router', BP + '.uniqueName', BP + '.matchRules'))]

    def disc_inv2(cx):
        s, pr = cx.args['self'], cx.args['proto']
        o = cx.old(s)
        r = VRef(o.router, 'Router')
        return [('rules-removed', cx.new(r).g_deleted.seqs[0] == z3.Concat(cx.old(r).g_deleted.seqs[0], cx.old(pr).matchRules.seqs[0])),
                ('tables-untouched', cx.unchanged(B + '.clients', B + '.next_id', B + '.router', BP + '.uniqueName', BP + '.matchRules'))]

    contract(w, 'txdbus.bus.Bus.clientDisconnected', {'self': Ref(B), 'proto': Ref(BP)},
             requires=lambda cx: [('a named connection is in the client table', z3.Implies(z3.And(z3.Not(cx.old(cx.args['proto']).uniqueName.none), cx.old(cx.args['proto']).uniqueName.val.term != sv('')),
                                                                                        z3.Select(cx.old(cx.args['self']).clients.dom, cx.old(cx.args['proto']).uniqueName.val.term)))],
             ensures=disc_post,
             modifies=lambda cx: [(cx.args['self'], B + '.clients'), (cx.args['self'], B + '.busNames'), ('*', 'Router.g_deleted'), ('*', BP + '.busNames'), ('*', BP + '.g_nrecv'), ('*', BP + '.g_lastrecv')],
             raises={Exception: lambda cx: z3.BoolVal(True)}, may_raise_any=True,
             loops={1: LoopSpec(invariant=disc_inv1, ghost_index='_k1'), 2: LoopSpec(invariant=disc_inv2, ghost_index='_k2')})

    # ---- signals originated by the bus itself: sendSignal reaches the one connection it is meant for (addressed to its unique
    #      name), broadcastSignal is offered to the match rules once and written to nobody directly
    def sig_fields(cx, mref):
        mv = cx.new(mref)
        return z3.And(z3.Not(mv.member.none), mv.member.val.term == cx.a('member'),
                      z3.Not(mv.path.none), mv.path.val.term == cx.a('path'), z3.Not(mv.interface.none), mv.interface.val.term == cx.a('interface'))

    def sendsig_post(cx):
        p = cx.args['p']
        po, pn = cx.old(p), cx.new(p)
        r = VRef(cx.old(cx.args['self']).router, 'Router')
        p0t = cx.ctx.skolem('p0_conn', IntSort)
        p0 = VRef(p0t, BP)
        m = VRef(pn.g_lastrecv, M)
        return [('written once to the connection it is meant for', pn.g_nrecv == po.g_nrecv + 1),
                ('to no other connection', z3.Implies(p0t != p.term, cx.new(p0).g_nrecv == cx.old(p0).g_nrecv)),
                ('not to the match rules', cx.new(r).g_routed == cx.old(r).g_routed),
                ('what is written is the signal asked for', sig_fields(cx, m)),
                ('it is addressed to that connection', z3.And(cx.new(m).destination.none == po.uniqueName.none,
                        z3.Implies(z3.Not(po.uniqueName.none), cx.new(m).destination.val.term == po.uniqueName.val.term)))]
    SIGP = {'self': Ref(B), 'p': Ref(BP), 'member': STR, 'signature': Opt(STR), 'body': STR, 'path': STR, 'interface': STR}
    contract(w, 'txdbus.bus.Bus.sendSignal', SIGP, ensures=sendsig_post,
             raises={Exception: lambda cx: z3.BoolVal(True)}, may_raise_any=True,
             modifies=lambda cx: mods(cx) + [('*', M + '.' + f) for f in MSGF])

    def bcast_post(cx):
        r = VRef(cx.old(cx.args['self']).router, 'Router')
        m = VRef(cx.new(r).g_lastrouted, M)
        return [('offered to the match rules once', cx.new(r).g_routed == cx.old(r).g_routed + 1),
                ('written to no connection directly', cx.unchanged(BP + '.g_nrecv')),
                ('what is offered is the signal asked for', sig_fields(cx, m)), ('it has no destination', cx.new(m).destination.none)]
    contract(w, 'txdbus.bus.Bus.broadcastSignal', {k: v for k, v in SIGP.items() if k != 'p'}, ensures=bcast_post,
             raises={Exception: lambda cx: z3.BoolVal(True)}, may_raise_any=True,
             modifies=lambda cx: mods(cx) + [('*', M + '.' + f) for f in MSGF])

    def raw_post(cx):
        s = cx.args['self']
        o, n = cx.old(s), cx.new(s)
        bv = cx.old(VRef(o.bus, B))
        m = getattr(cx.ctx, 'call_results', {}).get('txdbus.message.parseMessage', [None])[-1]
        if m is None:
            return [('parsed', z3.BoolVal(False))]
        mo = cx.old(m)
        h, r = VRef(bv.obj_handler, 'Handler'), VRef(bv.router, 'Router')
        p0t = cx.ctx.skolem('p0_conn', IntSort)
        p0 = VRef(p0t, BP)
        nowhere_else = z3.And(cx.new(r).g_routed == cx.old(r).g_routed, cx.new(h).g_handled == cx.old(h).g_handled,
                              z3.Implies(p0t != s.term, cx.new(p0).g_nrecv == cx.old(p0).g_nrecv))
        first_call = z3.And(z3.Not(o._called_hello), mo._messageType == 1)
        hello = z3.And(first_call, z3.Not(mo.destination.none), mo.destination.val.term == BUSNAME,
                       z3.Not(mo.member.none), mo.member.val.term == sv('Hello'))
        stray = z3.And(first_call, z3.Or(mo.destination.none, mo.destination.val.term != BUSNAME))
        tr = VRef(o.transport, 'Transport')
        return [('named', z3.Not(n.uniqueName.none)),
                ('Hello is answered to the caller and not forwarded',
                 z3.Implies(hello, z3.And(nowhere_else, n._called_hello, n.g_nrecv == o.g_nrecv + 1))),
                ('before Hello nothing else is accepted from a peer: closed and dropped',
                 z3.Implies(stray, z3.And(nowhere_else, n.g_nrecv == o.g_nrecv, cx.new(tr).g_closed)))]

    MSGF = ['expectReply', 'autoStart', 'signature', 'body', 'bodyLength', 'serial', 'headers', 'rawMessage', 'rawHeader', 'rawPadding',
            'rawBody', 'interface', 'path', 'sender', 'destination', 'member', 'error_name', 'reply_serial', 'unix_fds', 'unix_fds?set',
            'oobFDs', '_messageType']

    def raw_pre(cx):
        return []
    contract(w, 'txdbus.bus.BusProtocol.rawDBusMessageReceived', {'self': Ref(BP), 'raw_msg': BYTES},
             requires=lambda cx: [('counter-positive', cx.old(VRef(cx.old(cx.args['self']).bus, B)).next_id >= 1),
                                  ('bus name table invariant at every destination (C13)', z3.BoolVal(True))] + raw_pre(cx),
             ensures=raw_post, raises={Exception: lambda cx: z3.BoolVal(True)}, may_raise_any=True,
             modifies=lambda cx: [(cx.args['self'], BP + '.uniqueName'), (cx.args['self'], BP + '._called_hello'),
                                  ('*', B + '.clients'), ('*', B + '.next_id'), ('*', 'Transport.g_closed'), ('*', 'Handler.g_handled')] +
             mods(cx) + [('*', M + '.' + f) for f in MSGF])
    return w


# --------------------------------------------------------------------------- concrete side
class Net:
    def __init__(self):
        from twisted.internet.protocol import Factory
        from txdbus import bus
        self.bus = bus.Bus()
        self.f = Factory()
        self.f.protocol = bus.BusProtocol
        self.f.bus = self.bus
        self.peers = []

    def connect(self):
        p = Peer(self)
        self.peers.append(p)
        return p


class Peer:
    def __init__(self, net):
        from twisted.internet.testing import StringTransport
        from txdbus import message
        self.net = net
        self.tr = StringTransport()
        self.proto = net.f.buildProtocol(None)
        self.proto.makeConnection(self.tr)
        self.proto.guid = 'nobody'
        self.proto.setAuthenticationSucceeded()
        self.alive = True
        r = self.call_bus('Hello')
        self.name = r.body[0]

    def send(self, m):
        self.proto.dataReceived(m.rawMessage)

    def drain(self):
        import struct
        from txdbus import message
        data = self.tr.value()
        self.tr.clear()
        out = []
        while data:
            e = '<' if data[:1] == b'l' else '>'
            blen = struct.unpack(e + 'I', data[4:8])[0]
            hlen = 16 + struct.unpack(e + 'I', data[12:16])[0]
            hlen += (-hlen) % 8
            raw, data = data[:hlen + blen], data[hlen + blen:]
            pm = message.parseMessage(raw, None)
            pm._wire = raw
            out.append(pm)
        return out

    def call_bus(self, member, sig=None, body=None):
        from txdbus import message
        m = message.MethodCallMessage('/org/freedesktop/DBus', member, interface='org.freedesktop.DBus',
                                      destination='org.freedesktop.DBus', signature=sig, body=body)
        self.send(m)
        rs = [r for r in self.drain() if getattr(r, 'reply_serial', None) == m.serial]
        if len(rs) != 1:
            raise AssertionError('bus call %s got %d replies' % (member, len(rs)))
        return rs[0]


def history(seed, steps):
    """random history; returns failure text or None"""
    from txdbus import message
    rnd = random.Random(seed)
    net = Net()
    names_seen = set()
    peers = [net.connect() for _ in range(3)]
    for p in peers:
        if p.name in names_seen:
            return 'unique name %s reused' % p.name
        names_seen.add(p.name)
    # the name table follows C13's reference model (request flags: 1 allow replacement, 2 replace existing, 4 do not queue)
    from .c13 import Model
    mdl = Model()
    queues = mdl.q       # well-known name -> claimants, head = owner

    class Owners:
        def __contains__(self, n): return n in queues
        def __iter__(self): return iter(queues)
        def get(self, n): return queues[n][0] if n in queues else None
    owners = Owners()
    rules = {}           # peer -> set of interfaces it subscribed to
    counter = [0]
    for step in range(steps):
        live = [p for p in peers if p.alive]
        if not live:
            break
        op = rnd.choice(['uni', 'uni', 'uni', 'name', 'name', 'release', 'bcast', 'match', 'connect', 'disconnect', 'tobus'])
        a = rnd.choice(live)
        try:
            if op == 'connect' and len(peers) < 5:
                p = net.connect()
                if p.name in names_seen:
                    return 'unique name %s reused' % p.name
                names_seen.add(p.name)
                peers.append(p)
            elif op == 'disconnect' and len(live) > 2:
                a.alive = False
                a.proto.connectionLost(None)
                mdl.disconnect(a)
                rules.pop(a, None)
            elif op == 'name':
                n = 'org.e.N%d' % rnd.randrange(3)
                flags = rnd.choice([0, 0, 1, 1, 2, 3, 4, 5, 6, 7])
                before = [x.name for x in queues.get(n, [])]
                mdl.alt = None
                want = mdl.request(a, n, flags)
                got = a.call_bus('RequestName', 'su', [n, flags]).body[0]
                if got not in want:
                    return 'step %d: RequestName(%s, flags %d) by %s answered %r, expected %r (claimants before %r)' % (step, n, flags, a.name, got, sorted(want), before)
                if mdl.alt is not None:
                    # the statement leaves open whether a replaced owner waits behind the new one: take what the bus did
                    listed = a.call_bus('ListQueuedOwners', 's', [n]).body[0]
                    if listed == [x.name for x in mdl.alt]:
                        queues[n] = list(mdl.alt)
                    elif listed != [x.name for x in queues[n]]:
                        return 'step %d: after %s replaced the owner of %s the claimants are %r (before %r)' % (step, a.name, n, listed, before)
            elif op == 'release':
                n = 'org.e.N%d' % rnd.randrange(3)
                before = [x.name for x in queues.get(n, [])]
                want = mdl.release(a, n)
                got = a.call_bus('ReleaseName', 's', [n]).body[0]
                if got not in want:
                    return 'step %d: ReleaseName(%s) by %s answered %r, expected %r (claimants before %r)' % (step, n, a.name, got, sorted(want), before)
            elif op == 'match':
                iface = 'org.e.I%d' % rnd.randrange(2)
                if iface not in rules.get(a, ()):          # one rule per (connection, interface): copies per rule are C12's subject
                    a.call_bus('AddMatch', 's', ["type='signal',interface='%s'" % iface])
                    rules.setdefault(a, set()).add(iface)
            elif op == 'tobus':
                for q in live:
                    q.drain()
                r = a.call_bus('GetNameOwner', 's', [a.name])
                if r.body[0] != a.name:
                    return 'GetNameOwner(%s) answered %r' % (a.name, r.body)
                for q in live:
                    if q is not a and q.drain():
                        return 'a call addressed to the bus reached connection %s' % q.name
            elif op == 'uni':
                counter[0] += 1
                dests = [p.name for p in live if p is not a] + list(owners)
                dest = rnd.choice(dests)
                target = owners.get(dest) or [p for p in live if p.name == dest][0]
                kind = rnd.randrange(4)
                body = ['payload-%d' % counter[0]]
                bsig = 's'
                if rnd.random() < 0.5:
                    # typed values inside variants (property tables): passed on with the types they were sent with
                    from txdbus import marshal as _ms
                    typed = rnd.choice([_ms.UInt64(2**40), _ms.UInt32(2**31 + 5), _ms.UInt16(5), _ms.Int64(-2**40), _ms.ObjectPath('/x/y'), _ms.Signature('a{sv}'), _ms.Byte(200), 1.5, True])
                    if rnd.random() < 0.5:
                        bsig, body = 'sv', body + [typed]
                    else:
                        bsig, body = 'sa{sv}', body + [{'k': typed, 'plain': 7}]
                if kind == 0:
                    m = message.MethodCallMessage('/o', 'M', interface='org.e.I0', destination=dest, signature=bsig, body=body)
                elif kind == 1:
                    rs = rnd.choice([77, 1, 2**31 - 1, 2**31, 2**32 - 1])       # any serial a caller may have used (UINT32)
                    m = message.MethodReturnMessage(rs, destination=dest, signature=bsig, body=body)
                elif kind == 2:
                    rs = rnd.choice([77, 1, 2**31 - 1, 2**31, 2**32 - 1])
                    m = message.ErrorMessage('org.e.Err', rs, destination=dest, signature=bsig, body=body)
                else:
                    m = message.SignalMessage('/o', 'S', 'org.e.I0', destination=dest, signature=bsig, body=body)
                if rnd.random() < 0.25:
                    m.endian = ord('B')                   # a big-endian sender
                m.sender = ':1.999'                       # forged
                # header flags are part of the message whatever its type: forwarded as they were sent
                m.expectReply = rnd.random() < 0.6
                m.autoStart = rnd.random() < 0.6
                m._marshal(False)
                for q in live:
                    q.drain()
                a.send(m)
                for q in live:
                    got = [x for x in q.drain() if getattr(x, 'body', None) == body]
                    want = 1 if q is target else 0
                    if len(got) != want:
                        return 'step %d: message %d (type %d) for %s from %s: connection %s received %d copies, expected %d' % (
                            step, counter[0], kind + 1, dest, a.name, q.name, len(got), want)
                    for x in got:
                        if x.sender != a.name or x.serial != m.serial or x._messageType != m._messageType:
                            return 'step %d: delivered with sender %r serial %r (true sender %s, serial %d)' % (step, x.sender, x.serial, a.name, m.serial)
                        if (x.expectReply, x.autoStart) != (m.expectReply, m.autoStart):
                            return 'step %d: message of type %d sent with the flags expectReply=%r autoStart=%r arrived with %r %r' % (
                                step, kind + 1, m.expectReply, m.autoStart, x.expectReply, x.autoStart)
                        if m.rawBody and not x._wire.endswith(m.rawBody):
                            return 'step %d: the body of a forwarded message (signature %r, %s-endian sender) differs from what was sent: sent %s, delivered %s' % (
                                step, bsig, 'big' if m.endian == ord('B') else 'little', m.rawBody.hex(), x._wire[-len(m.rawBody):].hex())
                        if kind in (1, 2) and x.reply_serial != rs:
                            return 'step %d: a reply to serial %d delivered as a reply to %r' % (step, rs, x.reply_serial)
                        # unchanged except for the sender: the reply-serial header keeps its wire type (UINT32)
                        if kind in (1, 2) and m.endian == ord('l') and b'\x05\x01u\x00' not in x._wire[:x._wire.index(b'payload')]:
                            return 'step %d: the reply serial of a forwarded reply is not written as UINT32: %s' % (step, x._wire[:64].hex())
            elif op == 'bcast':
                counter[0] += 1
                iface = 'org.e.I%d' % rnd.randrange(2)
                body = ['bcast-%d' % counter[0]]
                m = message.SignalMessage('/o', 'S', iface, signature='s', body=body)
                for q in live:
                    q.drain()
                a.send(m)
                for q in live:
                    got = [x for x in q.drain() if getattr(x, 'body', None) == body]
                    want = 1 if iface in rules.get(q, ()) else 0
                    if len(got) != want:
                        return 'step %d: broadcast on %s from %s: connection %s (rules %r) received %d copies, expected %d' % (
                            step, iface, a.name, q.name, sorted(rules.get(q, ())), len(got), want)
                    if got and got[0].sender != a.name:
                        return 'broadcast delivered with sender %r' % got[0].sender
        except Exception as e:
            return 'step %d (%s) raised %s: %s' % (step, op, type(e).__name__, e)
    return None


def order_case():
    from txdbus import message
    net = Net()
    a, b = net.connect(), net.connect()
    sent = []
    for i in range(20):
        m = message.SignalMessage('/o', 'S', 'org.e.I', destination=b.name, signature='u', body=[i])
        a.send(m)
        sent.append(i)
    got = [x.body[0] for x in b.drain() if getattr(x, 'member', None) == 'S']
    if got != sent:
        return 'messages from one sender to one destination arrived as %r' % got
    # the same when the sender pipelines: several messages arrive in ONE read, or cut into reads at arbitrary places
    for how, cuts in (('one read', []), ('two reads cut inside the third message', [None]), ('reads of 50 bytes', 50)):
        raws = [message.SignalMessage('/o', 'P', 'org.e.I', destination=b.name, signature='u', body=[100 + i]).rawMessage for i in range(7)]
        data = b''.join(raws)
        if cuts == []:
            pieces = [data]
        elif cuts == [None]:
            k = len(raws[0]) + len(raws[1]) + 20
            pieces = [data[:k], data[k:]]
        else:
            pieces = [data[i:i + cuts] for i in range(0, len(data), cuts)]
        for piece in pieces:
            a.proto.dataReceived(piece)
        got = [x.body[0] for x in b.drain() if getattr(x, 'member', None) == 'P']
        if got != [100 + i for i in range(7)]:
            return 'seven messages from one sender to one destination sent in %s arrived as %r' % (how, got)
    return None


def prehello_case():
    from twisted.internet.testing import StringTransport
    from txdbus import message
    net = Net()
    b = net.connect()
    tr = StringTransport()
    p = net.f.buildProtocol(None)
    p.makeConnection(tr)
    p.guid = 'x'
    p.setAuthenticationSucceeded()
    m = message.MethodCallMessage('/o', 'M', interface='org.e.I', destination=b.name, signature='s', body=['sneak'])
    p.dataReceived(m.rawMessage)
    if not tr.disconnecting:
        return 'a call to a peer before Hello did not close the connection'
    if any(getattr(x, 'body', None) == ['sneak'] for x in b.drain()):
        return 'a call sent before Hello was forwarded although the connection was dropped'
    return None


def dead_subscriber_case():
    """rules of a vanished client must vanish with it: nothing is written to its transport afterwards"""
    from txdbus import message
    net = Net()
    a, b = net.connect(), net.connect()
    b.call_bus('AddMatch', 's', ["type='signal',interface='org.e.I'"])
    b.proto.connectionLost(None)
    b.tr.clear()
    a.send(message.SignalMessage('/o', 'S', 'org.e.I', signature='s', body=['late']))
    if b.tr.value():
        return 'a broadcast after the subscriber disconnected was still written to its (dead) connection'
    if net.bus.router._rules:
        return 'match rules of a disconnected client are still registered: %r' % list(net.bus.router._rules)
    return None


def takeover_case():
    """a message to a well-known name goes to the connection that owns it NOW: after a takeover to the new owner only;
    after that owner released the name, not to it any more"""
    from txdbus import message
    net = Net()
    a, b, c = net.connect(), net.connect(), net.connect()
    N = 'org.verif.Name'
    if a.call_bus('RequestName', 'su', [N, 1]).body[0] != 1:                  # ALLOW_REPLACEMENT
        return 'first RequestName did not make the caller primary owner'
    if b.call_bus('RequestName', 'su', [N, 2]).body[0] != 1:                  # REPLACE_EXISTING
        return 'RequestName with REPLACE_EXISTING over a replaceable owner did not take the name'
    for p in (a, b, c):
        p.drain()
    c.send(message.MethodCallMessage('/o', 'M', interface='org.e.I', destination=N, signature='s', body=['after takeover']))
    got = {p.name: [x.body for x in p.drain() if getattr(x, 'member', None) == 'M'] for p in (a, b, c)}
    if got[b.name] != [['after takeover']] or got[a.name] or got[c.name]:
        return 'after %s took %s over from %s a call to the name was delivered as %r' % (b.name, N, a.name, got)
    b.call_bus('ReleaseName', 's', [N])
    for p in (a, b, c):
        p.drain()
    c.send(message.MethodCallMessage('/o', 'M', interface='org.e.I', destination=N, signature='s', body=['after release']))
    got = {p.name: [x.body for x in p.drain() if getattr(x, 'member', None) == 'M'] for p in (a, b, c)}
    # (whether the replaced owner waits in the queue is not stated by the properties: only that a client that released the
    #  name no longer receives what is addressed to it, and bystanders never do)
    if got[b.name] or got[c.name]:
        return 'after %s released %s a call to the name was delivered as %r' % (b.name, N, got)
    return None


def namespace_subscription_case():
    """broadcasts reach the subscribers whose rule they satisfy: a path_namespace rule matches the namespace path itself,
    paths below it, and nothing that merely shares the text prefix"""
    from txdbus import message
    net = Net()
    a, b = net.connect(), net.connect()
    b.call_bus('AddMatch', 's', ["type='signal',path_namespace='/a/b'"])
    b.drain()
    want = []
    for path, hit in (('/a/b', True), ('/a/b/c', True), ('/a/bc', False), ('/a', False)):
        a.send(message.SignalMessage(path, 'S', 'org.e.I', signature='s', body=[path]))
        if hit:
            want.append([path])
    got = [x.body for x in b.drain() if getattr(x, 'member', None) == 'S']
    if got != want:
        return "a subscriber with path_namespace='/a/b' received %r, expected %r" % (got, want)
    return None


def forged_wellknown_sender_case():
    """whatever the originator wrote into the sender field - even a well-known name it owns or waits for - the destination
    sees the true unique name"""
    from txdbus import message
    net = Net()
    a, b, c = net.connect(), net.connect(), net.connect()
    N = 'org.verif.Owned'
    a.call_bus('RequestName', 'su', [N, 0])
    c.call_bus('RequestName', 'su', [N, 0])          # c waits in the queue
    for p in (a, b, c):
        p.drain()
    for who in (a, c):
        for forged in (N, b.name, 'org.verif.Unrelated', who.name):          # the last: a sender field that happens to be TRUE
            m = message.SignalMessage('/o', 'S', 'org.e.I', destination=b.name, signature='s', body=['x'])
            m.sender = forged
            m._marshal(False)
            who.send(m)
            got = [x for x in b.drain() if getattr(x, 'member', None) == 'S']
            if len(got) != 1 or got[0].sender != who.name:
                return 'a message from %s carrying sender=%r arrived with sender %r' % (who.name, forged, [x.sender for x in got])
    return None


def sender_rule_case():
    """a rule that names the emitter - by the well-known name it owns or by its unique name - matches the emitter's broadcasts"""
    from txdbus import message
    net = Net()
    a, b, c = net.connect(), net.connect(), net.connect()
    N = 'org.verif.Service'
    a.call_bus('RequestName', 'su', [N, 0])
    b.call_bus('AddMatch', 's', ["type='signal',sender='%s'" % N])
    c.call_bus('AddMatch', 's', ["type='signal',sender='%s',member='S'" % a.name])
    for p in (a, b, c):
        p.drain()
    a.send(message.SignalMessage('/o', 'S', 'org.e.I', signature='s', body=['x']))
    for who, how in ((b, 'the well-known name %s it owns' % N), (c, 'its unique name')):
        got = [x for x in who.drain() if getattr(x, 'member', None) == 'S']
        if len(got) != 1 or got[0].sender != a.name:
            return 'a subscriber whose rule names the emitter by %s received %r of its broadcast' % (how, [(x.sender, x.body) for x in got])
    return None


def spaced_rule_text_case():
    """blanks between the items of a rule text (as dbus-daemon accepts them) do not loosen the rule"""
    from txdbus import message
    for text in ("type='signal', interface='org.e.I', member='S'", "type='signal' ,interface='org.e.I' , member='S'", " type='signal',  interface = 'org.e.I',member= 'S'"):
        net = Net()
        a, b = net.connect(), net.connect()
        b.call_bus('AddMatch', 's', [text])
        b.drain()
        a.send(message.SignalMessage('/o', 'S', 'org.e.I', signature='s', body=['hit']))
        a.send(message.SignalMessage('/o', 'S', 'org.e.Other', signature='s', body=['other interface']))
        a.send(message.SignalMessage('/o', 'T', 'org.e.I', signature='s', body=['other member']))
        got = [x.body for x in b.drain() if getattr(x, 'member', None) in ('S', 'T')]
        if got not in ([['hit']], []):
            return 'a subscriber whose rule text is %r received %r (the rule selects interface org.e.I member S only)' % (text, got)
        if got == [] and text.count(' ') == 2:
            return 'a subscriber whose rule text is %r received nothing of the signal it selects' % (text,)
    return None


def argument_rule_case():
    """rules with exact-argument constraints, through AddMatch: a broadcast reaches the holder only if it HAS that argument with that
    value - a signal without arguments does not satisfy arg0='foo', and arg1='' asks for an empty string, not for anything"""
    from txdbus import message
    net = Net()
    a, b, c = net.connect(), net.connect(), net.connect()
    b.call_bus('AddMatch', 's', ["type='signal',arg0='foo'"])
    c.call_bus('AddMatch', 's', ["type='signal',arg1=''"])
    d = net.connect()
    d.call_bus('AddMatch', 's', ["type='signal',arg10='k10'"])          # argument indices have up to two digits (0 .. 63)
    d.drain()
    for p in (a, b, c):
        p.drain()
    sent = [(None, None), ('s', ['foo']), ('s', ['bar']), ('ss', ['foo', '']), ('ss', ['x', 'y']), ('ss', ['x', '']), ('u', [5]),
            ('s' * 11, ['a%d' % i for i in range(10)] + ['k10']), ('s' * 11, ['a%d' % i for i in range(10)] + ['other'])]
    for k, (sig, body) in enumerate(sent):
        a.send(message.SignalMessage('/o', 'S%d' % k, 'org.e.I', signature=sig, body=body))
    want_b = ['S1', 'S3']
    want_c = ['S3', 'S5']
    for who, want, rule in ((b, want_b, "arg0='foo'"), (c, want_c, "arg1=''"), (d, ['S7'], "arg10='k10'")):
        got = [x.member for x in who.drain() if getattr(x, 'member', '').startswith('S')]
        if got != want:
            return 'a subscriber with the rule %s received the signals %r of %r, expected %r' % (rule, got, [(('S%d' % k), body) for k, (_s, body) in enumerate(sent)], want)
    return None


def empty_rule_case():
    """the rule without any constraint (the text a client sends for addMatch(callback) alone is empty) matches every broadcast"""
    from txdbus import message
    net = Net()
    a, b = net.connect(), net.connect()
    try:
        r = b.call_bus('AddMatch', 's', [''])
    except Exception as e:
        return 'AddMatch with the empty rule text made the bus raise %s: %s' % (type(e).__name__, e)
    if getattr(r, 'error_name', None):
        return 'AddMatch with the empty rule text was refused: %s' % r.error_name
    b.drain()
    a.send(message.SignalMessage('/o', 'Any', 'org.e.I', signature='s', body=['x']))
    got = [x.member for x in b.drain() if getattr(x, 'member', None) == 'Any']
    if got != ['Any']:
        return 'a connection holding the rule without constraints received %r of a broadcast' % (got,)
    return None


def self_addressed_case():
    """a connection may address a message to itself - by its unique name or by a well-known name it owns: delivered once"""
    from txdbus import message
    net = Net()
    a = net.connect()
    a.call_bus('RequestName', 'su', ['org.verif.Self', 0])
    a.drain()
    for dest in (a.name, 'org.verif.Self'):
        for what, m in (('a signal', message.SignalMessage('/o', 'Own', 'org.e.I', destination=dest, signature='s', body=['x'])),
                        ('a call', message.MethodCallMessage('/o', 'Own', interface='org.e.I', destination=dest)),
                        ('a return', message.MethodReturnMessage(77, destination=dest))):
            a.send(m)
            got = [x for x in a.drain() if getattr(x, 'member', None) == 'Own' or getattr(x, 'reply_serial', None) == 77]
            if len(got) != 1 or got[0].sender != a.name:
                return '%s a connection addressed to itself (%s) was delivered %d times' % (what, dest, len(got))
    return None


def to_the_bus_case():
    """messages of every type addressed to the bus itself are not forwarded - not even to a connection that asked for the bus's name"""
    from txdbus import message
    net = Net()
    a, b = net.connect(), net.connect()
    try:
        b.call_bus('RequestName', 'su', ['org.freedesktop.DBus', 0])
    except Exception:
        pass
    b.call_bus('AddMatch', 's', ["type='signal'"])
    for p in (a, b):
        p.drain()
    BUS = 'org.freedesktop.DBus'
    for what, m in (('a signal', message.SignalMessage('/o', 'ToBus', 'org.e.I', destination=BUS, signature='s', body=['x'])),
                    ('a method return', message.MethodReturnMessage(4242, destination=BUS, signature='s', body=['x'])),
                    ('an error', message.ErrorMessage('org.e.Err', 4243, destination=BUS, signature='s', body=['x']))):
        try:
            a.send(m)
        except Exception as e:
            return '%s addressed to the bus itself made the bus raise %s: %s' % (what, type(e).__name__, e)
        got_b = [x for x in b.drain() if getattr(x, 'member', None) == 'ToBus' or getattr(x, 'reply_serial', None) in (4242, 4243)]
        if got_b:
            return '%s addressed to the bus itself was forwarded to a connection (%d copies)' % (what, len(got_b))
    return None


def big_endian_client_case():
    """a message encoded big-endian by its sender arrives decodable with the same header fields and body"""
    from . import message_harness as MH
    from . import wire_ref as W
    net = Net()
    a, b = net.connect(), net.connect()
    for body_sig, body_vals in (('s', ['text']), ('ai', [[1, 2, 3]]), ('a{sv}', [{'k': W.Variant('u', 7)}]), ('(ix)y', [[5, -2], 9])):
        for le in (False, True):
            raw = MH.ref_message(4, 0, 4242, [(1, '/o'), (2, 'org.e.I'), (3, 'Sig'), (6, b.name), (8, body_sig)], body_sig, body_vals, le)
            a.proto.dataReceived(raw)
            got = [x for x in b.drain() if getattr(x, 'member', None) == 'Sig']
            want = [W.canon(ct, v) for ct, v in zip(W.split(body_sig), body_vals)]
            if len(got) != 1 or got[0].sender != a.name or got[0].serial != 4242 or not W.same(got[0].body, want):
                return 'a %s-endian signal with body %r %r arrived as %r' % ('little' if le else 'big', body_sig, body_vals, [(x.sender, x.serial, x.body) for x in got])
    return None


def late_loss_of_refused_connection_case():
    """unique names are never reused, whatever the order in which refused or half-open connections go away"""
    from twisted.internet.testing import StringTransport
    from txdbus import message
    net = Net()
    names = []
    a = net.connect(); names.append(a.name)
    # a connection that never says Hello: its first call goes to a peer, it is refused (closed), but the loss is reported late
    tr = StringTransport()
    half = net.f.buildProtocol(None)
    half.makeConnection(tr)
    half.guid = 'x'
    half.setAuthenticationSucceeded()
    half.dataReceived(message.MethodCallMessage('/o', 'M', interface='org.e.I', destination=a.name).rawMessage)
    b = net.connect(); names.append(b.name)
    half.connectionLost(None)                       # only now does the bus hear that the refused connection is gone
    c = net.connect(); names.append(c.name)
    b.proto.connectionLost(None)
    d = net.connect(); names.append(d.name)
    if len(set(names)) != len(names):
        return 'unique names handed out: %r (a name was reused)' % names
    for p in (a, c, d):
        p.drain()
    d.send(message.SignalMessage('/o', 'S', 'org.e.I', destination=c.name, signature='s', body=['x']))
    if [x.body for x in c.drain() if getattr(x, 'member', None) == 'S'] != [['x']] or any(getattr(x, 'member', None) == 'S' for x in a.drain() + d.drain()):
        return 'after connections came and went a message to %s did not arrive there exactly once' % c.name
    return None


def withdrawn_claim_case():
    """A owns a name, B and C wait for it; B withdraws (by ReleaseName or by disconnecting); when A gives the name up, a
    message addressed to the name reaches C - the next live claimant - and nobody else"""
    from txdbus import message
    for how in ('release', 'disconnect'):
        net = Net()
        a, b, c, d = [net.connect() for _ in range(4)]
        for p, want in ((a, 1), (b, 2), (c, 2)):
            got = p.call_bus('RequestName', 'su', ['org.e.W', 0]).body[0]
            if got != want:
                return 'RequestName by %s answered %r, expected %r' % (p.name, got, want)
        if how == 'release':
            b.call_bus('ReleaseName', 's', ['org.e.W'])
        else:
            b.alive = False
            b.proto.connectionLost(None)
        a.call_bus('ReleaseName', 's', ['org.e.W'])
        for p in (a, b, c, d):
            p.drain()
        m = message.MethodCallMessage('/o', 'M', interface='org.e.I0', destination='org.e.W', signature='s', body=['for-the-owner'])
        d.send(m)
        for p in (a, b, c, d):
            got = [x for x in p.drain() if getattr(x, 'body', None) == ['for-the-owner']]
            want = 1 if p is c else 0
            if len(got) != want:
                return 'waiter withdrew by %s, owner released: the call for the name reached %s %d times, expected %d' % (how, p.name, len(got), want)
    return None


def takeover_by_waiter_case():
    """A owns a name and allows replacement, B and C wait; B - already waiting - takes the name over with REPLACE_EXISTING, then
    releases it: from then on nothing addressed to the name reaches B, whoever of the remaining claimants owns it"""
    from txdbus import message
    net = Net()
    a, b, c, d = [net.connect() for _ in range(4)]
    for p, flags, want in ((a, 1, 1), (b, 0, 2), (c, 0, 2), (b, 2, 1)):
        got = p.call_bus('RequestName', 'su', ['org.e.T', flags]).body[0]
        if got != want:
            return 'RequestName(flags %d) by %s answered %r, expected %r' % (flags, p.name, got, want)
    for p in (a, b, c, d):
        p.drain()
    m = message.MethodCallMessage('/o', 'M', interface='org.e.I0', destination='org.e.T', signature='s', body=['to-the-new-owner'])
    d.send(m)
    got = {p.name: len([x for x in p.drain() if getattr(x, 'body', None) == ['to-the-new-owner']]) for p in (a, b, c, d)}
    if got != {a.name: 0, b.name: 1, c.name: 0, d.name: 0}:
        return 'after the waiter %s took the name over, a call for it was delivered %r' % (b.name, got)
    rc = b.call_bus('ReleaseName', 's', ['org.e.T']).body[0]
    if rc != 1:
        return 'ReleaseName by the owner answered %r' % rc
    for p in (a, b, c, d):
        p.drain()
    m = message.MethodCallMessage('/o', 'M', interface='org.e.I0', destination='org.e.T', signature='s', body=['after-the-release'])
    d.send(m)
    got = {p.name: len([x for x in p.drain() if getattr(x, 'body', None) == ['after-the-release']]) for p in (a, b, c, d)}
    if got[b.name] != 0 or got[d.name] != 0 or got[a.name] + got[c.name] != 1:
        return 'the waiter %s took the name over and released it; a later call for the name was delivered %r' % (b.name, got)
    return None


def bounded(tier, seed):
    n = 0
    for case in (late_loss_of_refused_connection_case, order_case, prehello_case, dead_subscriber_case, takeover_case, namespace_subscription_case, forged_wellknown_sender_case, sender_rule_case, spaced_rule_text_case, argument_rule_case, empty_rule_case, self_addressed_case, to_the_bus_case, big_endian_client_case, withdrawn_claim_case, takeover_by_waiter_case):
        n += 1
        try:
            f = case()
        except Exception as e:
            f = '%s raised %s: %s' % (case.__name__, type(e).__name__, e)
        if f:
            return n, f, {'case': case.__name__}
    for k in range(8000 if tier == 'thorough' else 60):
        n += 1
        try:
            f = history(seed * 1000 + k, 60 if tier == 'thorough' else 40)
        except Exception as e:
            f = 'history raised %s: %s' % (type(e).__name__, e)
        if f:
            return n, f, {'history_seed': seed * 1000 + k}
    return n, None, None


def replay(function, clause, model):
    n, f, inp = bounded('quick', 1)
    return {'reproduced': bool(f), 'input': inp, 'detail': f or 'no failing bus history among %d' % n}


def run_bounded(tier, seed):
    n, f, inp = bounded(tier, seed)
    return {'tool': 'random histories (connect, disconnect, RequestName with queueing, ReleaseName by owners and waiters, AddMatch, unicast of all four types with forged sender, broadcast, calls to the bus) among up to 5 clients through the real Bus / BusProtocol, wire bytes parsed back; ordering and pre-Hello cases',
            'bound': '%d histories of %d steps' % ((8000, 60) if tier == 'thorough' else (60, 40)),
            'evaluations': n, 'failures': [] if not f else [{'function': 'txdbus.bus', 'clause': 'delivery', 'input': inp, 'detail': f}]}


def build(tier='quick'):
    w = build_world()
    from txdbus.bus import DError

    class Models14(TxModels):
        def contract_exception(self, I, cls):
            if cls is DError:            # anticipated bus errors carry a valid error name and an optional text
                from . import grammar as G
                nm = I.ctx.fresh('derr_name', StringSort)
                I.ctx.assume(z3.InRe(nm, G.INTERFACE))
                msg = I.ctx.fresh('derr_msg', StringSort)
                has = I.ctx.fresh('derr_has_msg', BoolSort)
                return VExc(cls, [], fields={'errorName': VStr(nm), 'dbusErrorName': VStr(nm),
                                             'errorMessage': VStr(msg) if I.ctx.branch(has) else VNone()})
            return super().contract_exception(I, cls)
    return Spec('C14', w, lambda world: Models14(world),
                ['txdbus.bus.Bus.sendSignal', 'txdbus.bus.Bus.broadcastSignal', 'txdbus.bus.Bus.sendMessage', 'txdbus.bus.Bus.messageReceived', 'txdbus.bus.Bus.clientConnected', 'txdbus.bus.Bus.clientDisconnected',
                 'txdbus.bus.BusProtocol.rawDBusMessageReceived'],
                replay=replay, bounded=[{'name': 'bus-histories', 'run': run_bounded}],
                trusted=['dict = array + domain; queues = Seq(Ref); int -> decimal string by z3 int.to.str (injective on naturals)'],
                assumed=['BusProtocol.sendMessage writes the message once to that connection\'s transport and to no other',
                         'router.routeMessage offers the message to the match rules (C12); the bus object handler answers bus calls (C10/C13)',
                         'parseMessage / _marshal(False) keep type, serial and fields (C03); name-table invariant NT (C13)'],
                explanation='per-handler contracts over the connection / name tables with a skolem "any other connection"; histories by bounded enumeration',
                design_ref='DESIGN.md 4/C14')
