"""C03 - every constructible message serialises well-formed and parses back intact.

Deductive part:
  * DBusMessage._marshal, for each of the four message classes (their _headerAttrs tables are read from the live classes):
    flags byte from expectReply / autoStart; header field list = the set attributes in table order with path / signature /
    unix_fds wrapped in their DBus types; bodyLength == len(body bytes); a fresh serial (the class counter, incremented,
    non-zero while the counter invariant _nextSerial >= 1 holds); rawMessage == header . zero padding to 8 . body;
    normal return only within the 128 MiB limit measured on the whole message; the header is the marshalling of
    [endian, type, flags, 1, bodyLength, serial, fields] under 'yyyyuua(yv)' in the message's byte order (marshal() by its
    C02 contract).
  * parseMessage: message class by type code (MarshallingError for unknown codes), serial, both flags, the three raw parts
    split at the header length + padding to 8, body decoded under the parsed signature in the byte order of the first byte
    (unmarshal() by its C02 contract).
  * constructor validation of path / interface / member / destination / error name: C18.
Bounded part (labelled): construct -> check layout against the reference codec -> parse -> compare, over 4 types x subsets of
optional fields x flags x bodies; foreign spec-conformant bytes in both byte orders with permuted and unknown header fields;
the 128 MiB boundary including header padding.
"""
import z3

from pyvc.values import *  # noqa
from pyvc.engine import World, ClassSpec, LoopSpec
from pyvc.runner import Spec
from pyvc.models import ufun
from pyvc import strings as S
from .base import contract, TxModels
from . import marshal_contracts as MC
from . import message_harness as MH


def replay(function, clause, model):
    n, f, inp = MH.bounded('quick', 1)
    return {'reproduced': bool(f), 'input': inp, 'detail': f or 'no malformed or mis-parsed message among %d cases' % n}


def run_bounded(tier, seed):
    n, f, inp = MH.bounded(tier, seed)
    return {'tool': 'construct / layout check against the reference codec / parse / compare on the real txdbus.message',
            'bound': '4 message types x 8 optional-field subsets x flags x %d bodies; %d foreign messages (both byte orders, permuted fields, unknown field codes); 128 MiB boundary incl. header padding' % (408 if tier == 'thorough' else 22, 32000 if tier == 'thorough' else 120),
            'evaluations': n, 'failures': [] if not f else [{'function': 'txdbus.message', 'clause': 'message-format', 'input': inp, 'detail': f}]}


sv = z3.StringVal
HDR = 'yyyyuua(yv)'
HDR_PIECES = ['y', 'y', 'y', 'y', 'u', 'u', 'a(yv)']
KINDS = ['MethodCallMessage', 'MethodReturnMessage', 'ErrorMessage', 'SignalMessage']
FIELD_T = {'path': Opt(STR), 'interface': Opt(STR), 'member': Opt(STR), 'error_name': Opt(STR), 'reply_serial': Opt(INT),
           'destination': Opt(STR), 'sender': Opt(STR), 'signature': Opt(STR)}
GLOBALS = VRef(z3.IntVal(990001), 'MsgGlobals')


def seq_of(sort, terms):
    units = [z3.Unit(t) for t in terms]
    return z3.Empty(z3.SeqSort(sort)) if not units else units[0] if len(units) == 1 else z3.Concat(*units)


def list_id(seqs):
    """identity of a list value as a function of its contents (equal contents - equal identity): the engine's own function"""
    f = z3.Function('list_id_' + '_'.join(str(q.sort()) for q in seqs), *([q.sort() for q in seqs] + [IntSort]))
    return f(*seqs)


class Models03(MC.MarshalModels):
    """DBusMessage._nextSerial (a class attribute used as a process-wide counter) lives in the ghost object MsgGlobals"""
    def class_getattr(self, I, obj, name):
        from txdbus import message
        if obj.cls is message.DBusMessage and name == '_nextSerial':
            return I.ctx.heap_read(GLOBALS, 'nextSerial')
        return None

    def class_setattr(self, I, obj, name, v):
        from txdbus import message
        if obj.cls is message.DBusMessage and name == '_nextSerial':
            I.ctx.heap_write(GLOBALS, 'nextSerial', v)
            return
        return super().class_setattr(I, obj, name, v)


def message_world(w):
    from txdbus import message
    w.add_class(ClassSpec('MsgGlobals', None, {'nextSerial': INT}))
    fields = {'expectReply': BOOL, 'autoStart': BOOL, 'body': Opt(ListT(OPAQUE)), 'endian': INT, 'bodyLength': INT, 'serial': Opt(INT),
              'headers': ListT(TupleT(INT, DYN)), 'rawMessage': Opt(BYTES), 'rawHeader': BYTES, 'rawPadding': BYTES, 'rawBody': BYTES,
              'unix_fds': INT, 'unix_fds?set': BOOL, 'oobFDs': OPAQUE}
    fields.update(FIELD_T)
    w.add_class(ClassSpec('DBusMessage', message.DBusMessage, fields))
    for n in KINDS:
        w.add_class(ClassSpec(n, getattr(message, n), {}, bases=('DBusMessage',)))


def ground_grammar(ctx):
    """ground facts of the type grammar about the fixed header signature (checked against the reference grammar by the bounded part)"""
    ctx.assume(MC.VSIG(sv(HDR)))
    ctx.assume(MC.PIECES(sv(HDR)) == seq_of(StringSort, [sv(p) for p in HDR_PIECES]))


def add_marshal_contracts(w, targets):
    from txdbus import message
    from txdbus.error import MarshallingError
    LIMIT = 2 ** 27

    for kind in KINDS:
        cls = getattr(message, kind)
        attrs = list(cls._headerAttrs)
        mtype = cls._messageType

        def pre(cx, attrs=attrs):
            me = cx.old(cx.args['self'])
            ground_grammar(cx.ctx)
            sig = me.signature
            # (that the fields the message type requires are set is NOT assumed: serialising without one must fail - postcondition)
            return [('counter-invariant: the next serial is positive', cx.old(GLOBALS).nextSerial >= 1),
                    ('re-marshalling without a new serial needs the old one', z3.Or(cx.args['newSerial'].term, z3.Not(me.serial.none))),
                    ('a body accompanies its signature', z3.Implies(z3.And(z3.Not(sig.none), sig.val.term != sv('')), z3.Not(me.body.none))),
                    ('the body signature is a valid signature', z3.Implies(z3.Not(sig.none), MC.VSIG(sig.val.term))),
                    ('messages are built little-endian (the class default); a parsed message that is passed on keeps the byte order it came in',
                     me.endian == ord('l') if not isinstance(cx.args.get('rawBody'), VBytes) else z3.Or(me.endian == ord('l'), me.endian == ord('B'))),
                    ('byte-order-of-this-encoding', MC.le_skolem(cx) if not isinstance(cx.args.get('rawBody'), VBytes) else MC.le_skolem(cx) == (me.endian == ord('l')))]

        def expected_headers(cx, attrs=attrs):
            """the field list the table prescribes: one [code, value] per attribute that is set, in table order"""
            me = cx.old(cx.args['self'])
            codes, kinds, strs, ints = z3.Empty(z3.SeqSort(IntSort)), z3.Empty(z3.SeqSort(IntSort)), z3.Empty(z3.SeqSort(StringSort)), z3.Empty(z3.SeqSort(IntSort))
            for name, code, _req in attrs:
                fv = getattr(me, name)
                if FIELD_T[name].t is INT:
                    k, st, it = z3.IntVal(1), sv(''), fv.val.term
                else:
                    k, st, it = z3.IntVal(2), fv.val.term, z3.IntVal(0)
                codes = z3.If(fv.none, codes, z3.Concat(codes, z3.Unit(z3.IntVal(code))))
                kinds = z3.If(fv.none, kinds, z3.Concat(kinds, z3.Unit(k)))
                strs = z3.If(fv.none, strs, z3.Concat(strs, z3.Unit(st)))
                ints = z3.If(fv.none, ints, z3.Concat(ints, z3.Unit(it)))
            return [codes, kinds, strs, ints]

        def post(cx, mtype=mtype, expected_headers=expected_headers, cls_attrs=attrs):
            old, new = cx.old(cx.args['self']), cx.new(cx.args['self'])
            ground_grammar(cx.ctx)
            le = old.endian == ord('l')
            flags = z3.If(old.expectReply, 0, 1) + z3.If(old.autoStart, 0, 2)
            sig = old.signature
            has_body = z3.And(z3.Not(sig.none), sig.val.term != sv(''))
            if isinstance(cx.args.get('rawBody'), VBytes):
                # a message that is passed on: the encoded body is kept byte for byte
                body = cx.a('rawBody')
            else:
                body = z3.If(has_body, MC.ENCS(MC.PIECES(sig.val.term), old.body.val.seqs[0], MC_nmin(MC.PIECES(sig.val.term), old.body.val.seqs[0]), 0, z3.BoolVal(True)), sv(''))
            exp = expected_headers(cx)
            hs = new.headers.seqs
            V = seq_of(IntSort, [old.endian, z3.IntVal(mtype), flags, z3.IntVal(1), new.bodyLength, new.serial.val.term, list_id(hs)])
            newser = cx.args['newSerial'].term
            return [('a message that was serialised carries every header field its type requires',
                     z3.And([z3.Not(getattr(old, name).none) for name, code, required in cls_attrs if required] or [z3.BoolVal(True)])),
                    ('header-field list: exactly the set attributes, in table order, each [code, value]', z3.And([a == b for a, b in zip(hs, exp)])),
                    ('body: the marshalling of the body under its signature (little endian as marshal() is called), empty without a signature', new.rawBody == body),
                    ('declared body length is the length of the body', new.bodyLength == z3.Length(new.rawBody)),
                    ('fresh serial: the counter value, counter incremented', z3.Implies(newser, z3.And(z3.Not(new.serial.none), new.serial.val.term == cx.old(GLOBALS).nextSerial,
                                                                                                     new.serial.val.term >= 1, cx.new(GLOBALS).nextSerial == cx.old(GLOBALS).nextSerial + 1))),
                    ('serial kept when no new one is asked for', z3.Implies(z3.Not(newser), z3.And(new.serial.none == old.serial.none, new.serial.val.term == old.serial.val.term,
                                                                                                   cx.new(GLOBALS).nextSerial == cx.old(GLOBALS).nextSerial))),
                    ('header: the marshalling of [endian, type, flags, 1, body length, serial, fields] under yyyyuua(yv) from offset 0 in the byte order of the endian field',
                     new.rawHeader == MC.ENCS(MC.PIECES(sv(HDR)), V, 7, 0, le)),
                    ('zero padding to an 8-byte boundary', new.rawPadding == MC.zeros(MC.padlen(8, z3.Length(new.rawHeader)))),
                    ('message = header . padding . body', z3.And(z3.Not(new.rawMessage.none), new.rawMessage.val.term == z3.Concat(new.rawHeader, new.rawPadding, new.rawBody))),
                    ('within the 128 MiB limit, measured on the whole message', z3.Length(new.rawMessage.val.term) <= LIMIT)]

        def raises_limit(cx):
            return z3.BoolVal(True)

        contract(w, 'txdbus.message.DBusMessage._marshal#' + kind, {'self': Ref(kind), 'newSerial': BOOL, 'oobFDs': NONE, 'rawBody': NONE},
                 fn=message.DBusMessage._marshal,
                 requires=pre, ensures=post,
                 modifies=lambda cx: [(cx.args['self'], 'DBusMessage.' + f) for f in ('headers', 'bodyLength', 'serial', 'rawHeader', 'rawPadding', 'rawBody', 'rawMessage')] + [(GLOBALS, 'MsgGlobals.nextSerial')],
                 raises={Exception: lambda cx: z3.BoolVal(True)}, may_raise_any=True,
                 raises_post={})
        targets.append('txdbus.message.DBusMessage._marshal#' + kind)
        if kind == 'MethodReturnMessage':
            # the same function when a parsed message is passed on (the bus stamping the sender): body bytes given, kept as they are
            contract(w, 'txdbus.message.DBusMessage._marshal#' + kind + '+rawBody', {'self': Ref(kind), 'newSerial': BOOL, 'oobFDs': NONE, 'rawBody': BYTES},
                     fn=message.DBusMessage._marshal,
                     requires=pre, ensures=post,
                     modifies=lambda cx: [(cx.args['self'], 'DBusMessage.' + f) for f in ('headers', 'bodyLength', 'serial', 'rawHeader', 'rawPadding', 'rawBody', 'rawMessage')] + [(GLOBALS, 'MsgGlobals.nextSerial')],
                     raises={Exception: lambda cx: z3.BoolVal(True)}, may_raise_any=True,
                     raises_post={})
            targets.append('txdbus.message.DBusMessage._marshal#' + kind + '+rawBody')


# ------------------------------------------------------------------ parseMessage (its own world of contracts)
PARSE_ATTRS = ['path', 'interface', 'member', 'error_name', 'reply_serial', 'destination', 'sender', 'signature', 'unix_fds']


def hdr_int(raw, le, i):
    """i-th fixed header value of the spec decoding of raw under yyyyuua(yv) (0 endian .. 5 serial)"""
    return ufun('hdr_int', StringSort, BoolSort, IntSort, IntSort)(raw, le, z3.IntVal(i))


def hdr_len(raw, le):
    return ufun('hdr_len', StringSort, BoolSort, IntSort)(raw, le)


def hdr_fields(raw, le):
    return [ufun('hdr_fields_' + n, StringSort, BoolSort, z3.SeqSort(so))(raw, le)
            for n, so in (('code', IntSort), ('kind', IntSort), ('s', StringSort), ('i', IntSort))]


def pad8(n):
    """bytes to the next 8-byte boundary"""
    return z3.If(n % 8 != 0, 8 - n % 8, 0)


ATTR_CODE = {'path': 1, 'interface': 2, 'member': 3, 'error_name': 4, 'reply_serial': 5, 'destination': 6, 'sender': 7, 'signature': 8, 'unix_fds': 9}


def LAST(raw, le, k, c):
    """(present, kind, s, i): the value of the last header field with code c among the first k fields of the decoded header
       LAST(0, c) = absent ;  LAST(k+1, c) = field k if its code is c else LAST(k, c)"""
    key = (raw, le, k, z3.IntVal(c))
    return (ufun('last_present', StringSort, BoolSort, IntSort, IntSort, BoolSort)(*key),
            ufun('last_kind', StringSort, BoolSort, IntSort, IntSort, IntSort)(*key),
            ufun('last_s', StringSort, BoolSort, IntSort, IntSort, StringSort)(*key),
            ufun('last_i', StringSort, BoolSort, IntSort, IntSort, IntSort)(*key))


def unfold_last(ctx, raw, le, k):
    codes, kinds, strs, ints = hdr_fields(raw, le)
    for c in ATTR_CODE.values():
        p0 = LAST(raw, le, z3.IntVal(0), c)
        ctx.assume(z3.Not(p0[0]))
        cur, nxt = LAST(raw, le, k, c), LAST(raw, le, k + 1, c)
        hit = codes[k] == c
        ctx.assume(z3.Implies(z3.And(k >= 0, k < z3.Length(codes)),
                              z3.And(nxt[0] == z3.Or(hit, cur[0]), nxt[1] == z3.If(hit, kinds[k], cur[1]),
                                     nxt[2] == z3.If(hit, strs[k], cur[2]), nxt[3] == z3.If(hit, ints[k], cur[3]))))


def attr_is_last(mv, raw, le, k):
    out = []
    for a, c in ATTR_CODE.items():
        pres, kd, st, it = LAST(raw, le, k, c)
        fv = getattr(mv, a)
        out.append(z3.If(pres, z3.And(fv.kind == kd, fv.s == st, fv.i == it), fv.kind == 0))
    return z3.And(out)


def parse_world():
    from txdbus import message, marshal
    from txdbus.error import MarshallingError
    w = World()
    fields = {'expectReply': BOOL, 'autoStart': BOOL, 'body': Opt(ListT(OPAQUE)), 'endian': INT, 'bodyLength': INT, 'serial': Opt(INT),
              'headers': OPAQUE, 'rawMessage': Opt(BYTES), 'rawHeader': BYTES, 'rawPadding': BYTES, 'rawBody': BYTES, 'oobFDs': OPAQUE}
    for a in PARSE_ATTRS:
        fields[a] = DYN            # whatever the wire carried
    w.add_class(ClassSpec('DBusMessage', message.DBusMessage, fields, init={'expectReply': True, 'autoStart': True}))
    for n in KINDS:
        w.add_class(ClassSpec(n, getattr(message, n), {}, bases=('DBusMessage',)))

    hdr_ty = TupleT(INT, TupleT(INT, INT, INT, INT, INT, INT, ListT(TupleT(INT, DYN))))

    def is_hdr(cx):
        t = z3.simplify(cx.a('compoundSignature'))
        return z3.is_string_value(t) and t.as_string() == HDR

    def u_result(cx):
        return hdr_ty if is_hdr(cx) else TupleT(INT, ListT(OPAQUE))

    def u_post(cx):
        r = cx.result
        data, off, le = cx.a('data'), cx.a('offset'), cx.args['lendian'].term
        if is_hdr(cx):
            hv = r.items[1]
            fl = hv.items[6]
            cx.ctx.elem_facts.append((fl.seqs[0], lambda i, e, fl=fl: z3.Implies(fl.seqs[0][i] == 8, fl.seqs[1][i] == 2)))
            return [('header-decoding', z3.And([r.items[0].term == hdr_len(data, le), hdr_len(data, le) >= 16] +
                                                [hv.items[i].term == hdr_int(data, le, i) for i in range(6)] +
                                                [a == b for a, b in zip(fl.seqs, hdr_fields(data, le))]))]
        P = MC.PIECES(cx.a('compoundSignature'))
        return [('body-decoding', z3.And(r.items[0].term == MC.DOFF(P, data, z3.Length(P), off, le) - off,
                                         r.items[1].seqs[0] == MC.DVALS(P, data, z3.Length(P), off, le)))]

    anyexc = {Exception: lambda cx: z3.BoolVal(True)}
    contract(w, 'txdbus.marshal.unmarshal', {'compoundSignature': STR, 'data': BYTES, 'offset': INT, 'lendian': BOOL, 'oobFDs': OPAQUE},
             requires=lambda cx: [('offset-non-negative', cx.a('offset') >= 0)],
             result=u_result, ensures=u_post, raises=anyexc, may_raise_any=True, assumed=True)

    def le_of(raw):
        return z3.SubString(raw, 0, 1) == sv('l')

    def post(cx):
        raw = cx.a('rawMessage')
        le = le_of(raw)
        r = cx.result
        if not isinstance(r, VRef):
            return [('returns-a-message', z3.BoolVal(False))]
        m = cx.new(r)
        mt, fl, n = hdr_int(raw, le, 1), hdr_int(raw, le, 2), hdr_len(raw, le)
        npad = pad8(n)
        kind = KINDS.index(r.cls) + 1 if r.cls in KINDS else 0
        sig = m.signature
        P = MC.PIECES(sig.s)
        body_ok = z3.Implies(z3.And(sig.kind == 2, sig.s != sv('')),
                             z3.And(z3.Not(m.body.none), m.body.val.seqs[0] == MC.DVALS(P, m.rawBody, z3.Length(P), 0, le)))
        return [('message class chosen by the type code', mt == kind),
                ('serial recovered', z3.And(z3.Not(m.serial.none), m.serial.val.term == hdr_int(raw, le, 5))),
                ('flags recovered: bit 0 = no reply expected, bit 1 = no auto start', z3.And(m.expectReply == (fl % 2 == 0), m.autoStart == ((fl / 2) % 2 == 0))),
                ('raw header / padding to 8 / body split at the decoded header length',
                 z3.And(m.rawHeader == S.slice_(cx.ctx, raw, z3.IntVal(0), n), m.rawPadding == S.slice_(cx.ctx, raw, n, n + npad),
                        m.rawBody == S.slice_(cx.ctx, raw, n + npad, None))),
                ('body decoded under the parsed signature in the byte order of the first byte', body_ok),
                ('the byte order of the message is recorded (kept when the message is serialised again)', m.endian == z3.If(le, ord('l'), ord('B'))),
                ('no body is decoded under a signature longer than 255 characters (decoding costs signature length x elements)',
                 z3.Implies(sig.kind == 2, z3.Length(sig.s) <= 255)),
                ('every header attribute is the value of the LAST header field carrying its code (unknown codes ignored), unset when there is none',
                 attr_is_last(m, raw, le, z3.Length(hdr_fields(raw, le)[0])))]

    def long_signature(cx):
        """the body signature the header carries (last field with code 8, whatever string type it was sent with) exceeds 255 characters"""
        raw = cx.a('rawMessage')
        le = le_of(raw)
        pres, kd, st, _it = LAST(raw, le, z3.Length(hdr_fields(raw, le)[0]), ATTR_CODE['signature'])
        return z3.And(pres, kd == 2, z3.Length(st) > 255)

    def nonstring_signature(cx):
        """the header carries a field with code 8 whose value is not a string at all (a number, an array - also a falsy one)"""
        raw = cx.a('rawMessage')
        le = le_of(raw)
        pres, kd, _st, _it = LAST(raw, le, z3.Length(hdr_fields(raw, le)[0]), ATTR_CODE['signature'])
        return z3.And(pres, kd != 2)

    def loop_inv(cx):
        m = cx.L['m']
        mv = cx.new(m)
        raw = cx.a('rawMessage')
        le = le_of(raw)
        unfold_last(cx.ctx, raw, le, cx.l('_k1'))
        fl, n = hdr_int(raw, le, 2), hdr_len(raw, le)
        return [('signature-is-unset-or-a-string', z3.Or(mv.signature.kind == 0, mv.signature.kind == 2)),
                ('serial-kept', z3.And(z3.Not(mv.serial.none), mv.serial.val.term == hdr_int(raw, le, 5))),
                ('flags-kept', z3.And(mv.expectReply == (fl % 2 == 0), mv.autoStart == ((fl / 2) % 2 == 0))),
                ('raw-header-kept', mv.rawHeader == S.slice_(cx.ctx, raw, z3.IntVal(0), n)),
                ('raw-padding-kept', mv.rawPadding == S.slice_(cx.ctx, raw, n, n + pad8(n))),
                ('raw-body-kept', mv.rawBody == S.slice_(cx.ctx, raw, n + pad8(n), None)),
                ('no-body-yet', mv.body.none),
                ('each header attribute holds the last field seen so far with its code, or is unset', attr_is_last(mv, raw, le, cx.l('_k1'))),
                ('byte-order', cx.l('lendian') == le)]

    contract(w, 'txdbus.message.parseMessage', {'rawMessage': BYTES, 'oobFDs': OPAQUE}, result=Ref('DBusMessage'),
             requires=lambda cx: [],
             ensures=post,
             raises={MarshallingError: lambda cx: z3.Or(hdr_int(cx.a('rawMessage'), le_of(cx.a('rawMessage')), 1) < 1, hdr_int(cx.a('rawMessage'), le_of(cx.a('rawMessage')), 1) > 4,
                                                        long_signature(cx), nonstring_signature(cx)),
                     IndexError: lambda cx: z3.Length(cx.a('rawMessage')) == 0,
                     TypeError: lambda cx: z3.BoolVal(False),
                     Exception: lambda cx: z3.BoolVal(True)},
             may_raise_any=True,
             loops={1: LoopSpec(invariant=loop_inv, ghost_index='_k1',
                                modifies=lambda cx: [(cx.L['m'], 'DBusMessage.' + a) for a in PARSE_ATTRS])})
    return w


def MC_nmin(P, V):
    return z3.If(z3.Length(P) <= z3.Length(V), z3.Length(P), z3.Length(V))


def build(tier='quick'):
    w = World()
    targets = []
    message_world(w)
    junk = []
    MC.add_pad_contracts(w, junk)
    MC.add_fixed_contracts(w, junk)
    MC.add_string_contracts(w, junk)
    MC.add_container_contracts(w, junk)
    add_marshal_contracts(w, targets)
    w2 = parse_world()
    targets.append('txdbus.message.parseMessage')
    sp = Spec('C03', w, lambda world: Models03(world), targets, replay=replay,
              bounded=[{'name': 'message-format', 'run': run_bounded}],
              trusted=['struct / codecs as in C02; the reference codec contracts/wire_ref.py for the bounded part'],
              assumed=['marshal.marshal / marshal.unmarshal by their C02 contracts (ENCS / DOFF / DVALS); in the parseMessage world the header call of unmarshal returns the typed header tuple named by hdr_int / hdr_len / hdr_fields of the raw bytes',
                       'DBusMessage._nextSerial >= 1 (counter invariant: starts at 1, only incremented) and endian == "l" (class default, never assigned) as preconditions of _marshal',
                       'required header attributes are set when _marshal runs (the constructors assign them; constructor validation is C18); oobFDs None (the unix_fds header is C20)',
                       'ground facts of the type grammar about the fixed header signature yyyyuua(yv)',
                       'conformant input to parseMessage: header field 8, if present, carries a string',
                       'parseMessage: header attributes are dynamically typed (whatever variant the field carried); the typed header tuple is the decoding named by hdr_int / hdr_fields'],
              notes=['serial wrap-around after 2^32 messages is not considered (struct.error at that point)'],
              explanation='_marshal of all four message classes and parseMessage verified against the message layout of the specification for every field combination, flag and body; construct/parse comparison with a reference codec on top',
              design_ref='DESIGN.md 4/C03')
    sp.worlds = {'txdbus.message.parseMessage': w2}
    return sp
