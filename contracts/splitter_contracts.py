"""Contracts for txdbus.marshal.genCompleteTypes and its inner function find_end - every string, no validity assumption.

genCompleteTypes is a generator; it is verified in its eager reading (the list it yields when run to completion; an
exception raised part-way is an exception of the call).  Proved:
  * find_end(idx, b, e): returns None or an index r with idx <= r < end and compoundSig[r] == e; the scan loop terminates
    (variant end - idx)
  * genCompleteTypes(sig): every piece is non-empty and no longer than sig; the first piece, if any, is a prefix of sig
    (what the array branch relies on when it recurses on the rest); the main loop terminates (variant end - i, i only
    grows) and the recursion is on a strictly shorter string (decreases len(sig))
ALLP(pieces, sig) is the ghost predicate 'every piece p has 1 <= len(p) <= len(sig)': unfolded at each yield, instantiated at
element reads by the callers (elem_facts).
Not proved here: that the pieces concatenate to the input and that each piece is one complete type of the grammar (C19's
bounded enumeration decides those).
"""
import z3

from pyvc.values import *  # noqa
from pyvc.engine import LoopSpec
from pyvc.models import ufun
from pyvc import strings as S
from .base import contract

sv = z3.StringVal
SEQS = z3.SeqSort(StringSort)


def ALLP(pieces, n):
    """every piece p has 1 <= len(p) <= n"""
    return ufun('all_pieces_within', SEQS, IntSort, BoolSort)(pieces, n)


def JOIN(pieces):
    """concatenation of the pieces:  JOIN([]) = '' ,  JOIN(L . [x]) = JOIN(L) . x"""
    return ufun('join_pieces', SEQS, StringSort)(pieces)


def add_splitter_contracts(w, targets=None, assumed=False):
    from txdbus import marshal
    allowed = {Exception: lambda cx: z3.BoolVal(True), TypeError: lambda cx: z3.BoolVal(True), IndexError: lambda cx: z3.BoolVal(True),
               StopIteration: lambda cx: z3.BoolVal(True), RuntimeError: lambda cx: z3.BoolVal(True)}

    # ---- find_end (inner function; free variables compoundSig, end)
    def fe_post(cx):
        r = cx.result
        if isinstance(r, VNone):
            return []
        sig = cx.a('compoundSig')
        return [('an index of the closing character inside the signature',
                 z3.And(r.term >= cx.a('idx'), r.term < cx.a('end'), z3.SubString(sig, r.term, 1) == cx.a('e')))]

    contract(w, 'nested:genCompleteTypes.find_end', {'idx': INT, 'b': STR, 'e': STR, 'compoundSig': STR, 'end': INT},
             fn=marshal.genCompleteTypes, nested='find_end',
             requires=lambda cx: [('scan starts inside or at the end', z3.And(cx.a('idx') >= 0, cx.a('end') == z3.Length(cx.a('compoundSig'))))],
             ensures=fe_post, result=Opt(INT), assumed=assumed,
             loops={1: LoopSpec(invariant=lambda cx: [('scan position only grows', z3.And(cx.l('idx') >= cx.a('idx'), cx.l('idx') >= 0))],
                                variant=lambda cx: cx.a('end') - cx.l('idx'))})
    if targets is not None and not assumed:
        targets.append('nested:genCompleteTypes.find_end')

    # ---- genCompleteTypes
    def on_yield(cx, lst, v):
        # ALLP(L . [x], n) == ALLP(L, n) and 1 <= len(x) <= n ;  ALLP([], n)
        n = z3.Length(cx.a('compoundSig'))
        L = lst.seqs[0]
        cx.ctx.assume(ALLP(z3.Empty(SEQS), n))
        cx.ctx.assume(ALLP(z3.Concat(L, z3.Unit(v.term)), n) == z3.And(ALLP(L, n), z3.Length(v.term) >= 1, z3.Length(v.term) <= n))
        cx.ctx.assume(JOIN(z3.Empty(SEQS)) == sv(''))
        cx.ctx.assume(JOIN(z3.Concat(L, z3.Unit(v.term))) == z3.Concat(JOIN(L), v.term))

    def first_is_prefix(pieces, sig):
        return z3.Implies(z3.Length(pieces) >= 1, z3.And(z3.PrefixOf(pieces[0], sig), z3.Length(pieces[0]) >= 1))

    def g_post(cx):
        sig = cx.a('compoundSig')
        r = cx.result
        if not isinstance(r, VList):
            return [('a list of pieces', z3.BoolVal(False))]
        n = z3.Length(sig)
        cx.ctx.elem_facts.append((r.seqs[0], lambda i, e, n=n, q=r.seqs[0]: z3.Implies(ALLP(q, n), z3.And(z3.Length(e) >= 1, z3.Length(e) <= n))))
        return [('every piece is non-empty and no longer than the signature', ALLP(r.seqs[0], n)),
                ('the first piece is a prefix of the signature', first_is_prefix(r.seqs[0], sig)),
                ('the pieces concatenate to the signature', JOIN(r.seqs[0]) == sig)]

    def g_inv(cx):
        sig = cx.a('compoundSig')
        n = z3.Length(sig)
        ys = cx.L['_yields'].seqs[0]
        i = cx.l('i')
        cx.ctx.assume(ALLP(z3.Empty(SEQS), n))
        cx.ctx.assume(JOIN(z3.Empty(SEQS)) == sv(''))
        return [('position', z3.And(i >= 0, i <= n, cx.l('end') == n)),
                ('pieces-so-far', ALLP(ys, n)),
                ('nothing yielded yet exactly at the start', (z3.Length(ys) == 0) == (i == 0)),
                ('the first piece is a prefix', first_is_prefix(ys, sig)),
                ('the pieces so far concatenate to the part already consumed', JOIN(ys) == S.slice_(cx.ctx, sig, z3.IntVal(0), i))]

    contract(w, 'txdbus.marshal.genCompleteTypes', {'compoundSig': STR}, result=ListT(STR),
             ensures=g_post, raises=allowed, may_raise_any=True, assumed=assumed, on_yield=on_yield,
             decreases=lambda cx: z3.Length(cx.a('compoundSig')),
             loops={1: LoopSpec(invariant=g_inv, variant=lambda cx: z3.Length(cx.a('compoundSig')) - cx.l('i'))})
    if targets is not None and not assumed:
        targets.append('txdbus.marshal.genCompleteTypes')
