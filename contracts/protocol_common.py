"""Contracts shared by C04 / C06 / C07 / C20: BasicDBusProtocol.dataReceived in both modes, with the
interface contracts of the objects it talks to (transport, authenticator, per-message hook).

Ghost state
  BasicDBusProtocol.g_flat / g_count : concatenation / number of raw messages handed to rawDBusMessageReceived
  IAuth.g_in   : concatenation of (line + delimiter) for every line handed to handleAuthMessage
  IAuth.g_ok   : what authenticationSucceeded() answers
  Transport.g_closed / g_out : loseConnection() was called / bytes written
Stream equation, both modes (nothing lost, duplicated or reordered while the connection stays open):
  g_in(auth) . g_flat . _buffer   grows by exactly the bytes received.
"""
import z3

from pyvc.values import *  # noqa
from pyvc.engine import World, LoopSpec, ClassSpec
from pyvc import strings as S
from pyvc.models import unpacked
from .base import contract, inline

P = 'BasicDBusProtocol'
DELIM = z3.StringVal('\r\n')


# ---- interface stubs (signatures only; behaviour is the contract)
def loseConnection(self): pass
def write(self, data): pass
def writeSequence(self, seq): pass
def sendFileDescriptor(self, fd): pass
def getsockopt(self, level, opt, size): pass
def handleAuthMessage(self, line): pass
def authenticationSucceeded(self): pass
def getGUID(self): pass
def beginAuthentication(self, protocol): pass


def classes(world):
    from txdbus import protocol
    world.add_class(ClassSpec('Socket', None, {}, methods={'getsockopt': getsockopt}))
    world.add_class(ClassSpec('Transport', None, {
        'disconnecting': BOOL, 'socket': Ref('Socket'),
        'g_out': BYTES, 'g_closed': BOOL, 'g_fds': INT,
    }, methods={'loseConnection': loseConnection, 'write': write, 'writeSequence': writeSequence,
                'sendFileDescriptor': sendFileDescriptor}))
    world.add_class(ClassSpec('IAuth', None, {'g_in': BYTES, 'g_ok': BOOL},
                              methods={'handleAuthMessage': handleAuthMessage,
                                       'authenticationSucceeded': authenticationSucceeded,
                                       'getGUID': getGUID, 'beginAuthentication': beginAuthentication}))
    world.add_class(ClassSpec(P, protocol.BasicDBusProtocol, {
        '_buffer': BYTES, '_authenticated': BOOL, '_nextMsgLen': INT, '_endian': STR,
        '_client': BOOL, '_firstByte': BOOL, '_receivedFDs': OPAQUE, '_unix_creds': OPAQUE,
        '_dbusAuth': Opt(Ref('IAuth')), 'transport': Ref('Transport'), 'guid': OPAQUE,
        'g_flat': BYTES, 'g_count': INT,
    }))


# ---- DBus spec: length of a frame from its fixed header
def header_fields(ctx, b):
    key = ('hdr', b.get_id())
    if key in ctx.slice_cache:
        return ctx.slice_cache[key]
    ctx.keep.append(b)
    f = [ctx.fresh('hdr_' + n, StringSort) for n in ('e', 'x', 'blen', 'serial', 'hlen', 'rest')]
    ctx.assume(z3.Implies(z3.Length(b) >= 16, z3.And(
        b == z3.Concat(*f), z3.Length(f[0]) == 1, z3.Length(f[1]) == 3, z3.Length(f[2]) == 4,
        z3.Length(f[3]) == 4, z3.Length(f[4]) == 4)), defines=f)
    ctx.slice_cache[key] = f
    return f


def msglen(ctx, b):
    """total length of the message whose fixed header is b[:16] (meaningful when len(b) >= 16):
    16 + header-field-array length, padded to 8, + body length; byte 0 == 'l' means little endian."""
    e, _, blen, _, hlen, _ = header_fields(ctx, b)
    le = e == z3.StringVal('l')
    body = unpacked('I', le, blen)
    harr = unpacked('I', le, hlen)
    ctx.assume(z3.And(body >= 0, harr >= 0, body < 2**32, harr < 2**32), defines=[blen, hlen])
    h = 16 + harr
    return h + (8 - h % 8) % 8 + body


def inv(ctx, buf, L):
    return z3.Or(L == 0, z3.And(z3.Length(buf) >= 16, L == msglen(ctx, buf)))


def rest(buf, L):
    return z3.Or(z3.And(L == 0, z3.Length(buf) < 16), z3.And(L != 0, z3.Length(buf) < L))


SELF_FIELDS = ('_buffer', '_nextMsgLen', '_endian', 'g_flat', 'g_count', '_receivedFDs',
               '_authenticated', '_firstByte', '_unix_creds', '_dbusAuth', 'guid')


def add(world, hook_assumed=True):
    from txdbus.error import DBusAuthenticationFailed
    classes(world)
    T = 'Transport'
    # ---------------- transport (Twisted; assumed)
    contract(world, 'iface.Transport.loseConnection', {'self': Ref(T)}, fn=loseConnection,
             modifies=lambda cx: [(cx.args['self'], T + '.disconnecting'), (cx.args['self'], T + '.g_closed')],
             ensures=lambda cx: [('closed', z3.And(cx.new(cx.args['self']).disconnecting, cx.new(cx.args['self']).g_closed))],
             assumed=True)
    contract(world, 'iface.Transport.write', {'self': Ref(T), 'data': BYTES}, fn=write,
             modifies=lambda cx: [(cx.args['self'], T + '.g_out')],
             ensures=lambda cx: [('appended', cx.new(cx.args['self']).g_out == z3.Concat(cx.old(cx.args['self']).g_out, cx.a('data')))],
             assumed=True)
    contract(world, 'iface.Socket.getsockopt', {'self': Ref('Socket'), 'level': OPAQUE, 'opt': OPAQUE, 'size': OPAQUE},
             fn=getsockopt, result=BYTES, assumed=True)
    # ---------------- authenticator interface (IDBusAuthenticator)
    A = 'IAuth'

    def handled(cx):
        a = cx.args['self']
        return [('line-logged', cx.new(a).g_in == z3.Concat(cx.old(a).g_in, cx.a('line'), DELIM))]

    from txdbus import protocol as _protocol
    MAXLINE = _protocol.BasicDBusProtocol.MAX_AUTH_LENGTH
    contract(world, 'iface.IAuth.handleAuthMessage', {'self': Ref(A), 'line': BYTES}, fn=handleAuthMessage,
             requires=lambda cx: [('line-at-most-16KiB', z3.Length(cx.a('line')) <= 16384)] if MAXLINE == 16384 else [('limit-is-16KiB', z3.BoolVal(False))],
             modifies=lambda cx: [(cx.args['self'], A + '.g_in'), (cx.args['self'], A + '.g_ok'), ('*', T + '.g_out')],
             ensures=handled, raises={DBusAuthenticationFailed: lambda cx: z3.BoolVal(True)},
             raises_post={DBusAuthenticationFailed: handled}, assumed=True)
    contract(world, 'iface.IAuth.authenticationSucceeded', {'self': Ref(A)}, fn=authenticationSucceeded, result=BOOL,
             ensures=lambda cx: [('is-ok', cx.result.term == cx.old(cx.args['self']).g_ok)], assumed=True)
    contract(world, 'iface.IAuth.getGUID', {'self': Ref(A)}, fn=getGUID, result=OPAQUE, assumed=True)
    # ---------------- protocol hooks
    contract(world, 'txdbus.protocol.BasicDBusProtocol.rawDBusMessageReceived',
             {'self': Ref(P), 'rawMsg': BYTES},
             requires=lambda cx: [('well-framed', z3.And(z3.Length(cx.a('rawMsg')) >= 16,
                                                          z3.Length(cx.a('rawMsg')) == msglen(cx.ctx, cx.a('rawMsg'))))],
             modifies=lambda cx: [(cx.args['self'], P + '.g_flat'), (cx.args['self'], P + '.g_count'),
                                  (cx.args['self'], P + '._receivedFDs'), ('*', T + '.g_out')],
             ensures=lambda cx: [('logged', z3.And(cx.new(cx.args['self']).g_flat == z3.Concat(cx.old(cx.args['self']).g_flat, cx.a('rawMsg')),
                                                   cx.new(cx.args['self']).g_count == cx.old(cx.args['self']).g_count + 1))],
             raises={Exception: lambda cx: z3.BoolVal(True)}, may_raise_any=True, assumed=hook_assumed)
    contract(world, 'txdbus.protocol.BasicDBusProtocol.connectionAuthenticated', {'self': Ref(P)},
             modifies=lambda cx: [('*', T + '.g_out')], assumed=True)
    inline(world, 'txdbus.protocol.BasicDBusProtocol.setAuthenticationSucceeded')
    inline(world, 'txdbus.protocol.BasicDBusProtocol.authMessageLengthExceeded')

    # ---------------- dataReceived
    def line_mode_ok(cx, s_view, tr_view, data):
        return z3.And(z3.Not(s_view._dbusAuth.none), s_view._nextMsgLen == 0, s_view.g_flat == z3.StringVal(''),
                      s_view.g_count == 0, tr_view.disconnecting == tr_view.g_closed)

    def requires(cx):
        s = cx.args['self']
        o = cx.old(s)
        tr = cx.old(VRef(o.transport, T))
        return [('mode', z3.If(o._authenticated,
                               inv(cx.ctx, o._buffer, o._nextMsgLen),
                               z3.And(line_mode_ok(cx, o, tr, cx.a('data')), z3.Length(cx.a('data')) >= 1)))]

    def total(view, auth_view):
        return z3.Concat(auth_view.g_in, view.g_flat, view._buffer)

    def data_eff(cx):
        o = cx.old(cx.args['self'])
        d = cx.a('data')
        tail = S.slice_(cx.ctx, d, z3.IntVal(1), None)
        return z3.If(z3.And(z3.Not(o._authenticated), z3.Not(o._client), o._firstByte), tail, d)

    def ensures(cx):
        s = cx.args['self']
        o, n = cx.old(s), cx.new(s)
        trn = cx.new(VRef(o.transport, T))
        a0 = VRef(o._dbusAuth.val.term, A)
        return [
            ('binary:stream', z3.Implies(o._authenticated, z3.Concat(n.g_flat, n._buffer) == z3.Concat(o.g_flat, o._buffer, cx.a('data')))),
            ('binary:inv', z3.Implies(n._authenticated, inv(cx.ctx, n._buffer, n._nextMsgLen))),
            ('binary:rest', z3.Implies(n._authenticated, rest(n._buffer, n._nextMsgLen))),
            ('monotone', n.g_count >= o.g_count),
            ('mode-monotone', z3.Implies(o._authenticated, n._authenticated)),
            ('binary:frame', z3.Implies(o._authenticated, cx.unchanged('IAuth.g_in', 'IAuth.g_ok', T + '.g_closed', T + '.disconnecting'))),
            ('handshake:stream', z3.Implies(z3.And(z3.Not(o._authenticated), z3.Not(trn.g_closed)),
                                            total(n, cx.new(a0)) == z3.Concat(total(o, cx.old(a0)), data_eff(cx)))),
            ('handshake:first-byte-must-be-NUL',
             z3.Implies(z3.And(z3.Not(o._authenticated), z3.Not(o._client), o._firstByte,
                               z3.StrToCode(z3.SubString(cx.a('data'), 0, 1)) != 0),
                        z3.And(trn.g_closed, z3.Not(n._authenticated)))),
            # the unterminated rest of a line may not exceed 16 KiB - a trailing CR, which may be the first half of the line end, not
            # counted: whether a line of exactly 16 KiB is cut before or inside its CRLF must not matter
            ('handshake:oversized-pending-line-closes',
             z3.Implies(z3.And(z3.Not(o._authenticated), z3.Not(n._authenticated),
                               z3.Length(n._buffer) > 16384 + z3.If(z3.SuffixOf(z3.StringVal('\r'), n._buffer), 1, 0)), trn.g_closed)),
            ('handshake:only-when-authenticator-succeeded',
             z3.Implies(z3.And(z3.Not(o._authenticated), n._authenticated), cx.new(a0).g_ok)),
            ('handshake:line-mode-inv', z3.Implies(z3.Not(n._authenticated),
                                                   z3.And(n._nextMsgLen == 0, n.g_flat == z3.StringVal(''), n.g_count == 0,
                                                          trn.disconnecting == trn.g_closed,
                                                          z3.Or(trn.g_closed, z3.Not(n._dbusAuth.none))))),
        ]

    def modifies(cx):
        s = cx.args['self']
        return [(s, P + '.' + f) for f in SELF_FIELDS] + \
               [('*', 'IAuth.g_in'), ('*', 'IAuth.g_ok'), ('*', T + '.g_out'), ('*', T + '.g_closed'), ('*', T + '.disconnecting')]

    def bin_loop_inv(cx):
        s = cx.args['self']
        n, o = cx.new(s), cx.old(s)
        # the loop runs in binary mode: either we entered in it, or the handshake just completed
        return [
            ('stream', z3.Concat(n.g_flat, n._buffer) == z3.Concat(o.g_flat, o._buffer, cx.a('data'))),
            ('inv', inv(cx.ctx, n._buffer, n._nextMsgLen)),
            ('rest-when-done', z3.Or(cx.l('more'), rest(n._buffer, n._nextMsgLen))),
            ('authenticated', z3.And(n._authenticated, o._authenticated)),
            ('count', n.g_count >= o.g_count),
        ]

    def line_loop_inv(cx):
        s = cx.args['self']
        n, o = cx.new(s), cx.old(s)
        a0 = VRef(o._dbusAuth.val.term, A)
        trn = cx.new(VRef(o.transport, T))
        rec = cx.ctx.splits[-1]
        k = cx.l('_k2')
        rec.step(k)
        rec.suffix(k)
        rec.suffix(k + 1)
        return [
            ('still-line-mode', z3.And(z3.Not(n._authenticated), z3.Not(o._authenticated), z3.Not(n._dbusAuth.none),
                                       n._dbusAuth.val.term == a0.term, n._nextMsgLen == 0,
                                       n.g_flat == z3.StringVal(''), n.g_count == 0, o.g_flat == z3.StringVal(''))),
            ('lines-in-order', cx.new(a0).g_in == z3.Concat(cx.old(a0).g_in, rec.P(k))),
            ('tail-buffered', n._buffer == rec.L[rec.n - 1]),
            ('k-lines', k <= rec.n - 1),
            ('split-of-input', rec.s == z3.Concat(o._buffer, data_eff(cx))),
            ('transport', z3.And(trn.disconnecting == trn.g_closed, n.transport == o.transport)),
        ]

    line_mods = lambda cx: [(cx.args['self'], P + '.guid'), ('*', 'IAuth.g_in'), ('*', 'IAuth.g_ok'),
                            ('*', T + '.g_out'), ('*', T + '.g_closed'), ('*', T + '.disconnecting')]
    bin_mods = lambda cx: [(cx.args['self'], P + '.' + f) for f in
                           ('_buffer', '_nextMsgLen', '_endian', 'g_flat', 'g_count', '_receivedFDs')] + [('*', T + '.g_out')]

    contract(world, 'txdbus.protocol.BasicDBusProtocol.dataReceived', {'self': Ref(P), 'data': BYTES},
             requires=requires, ensures=ensures, modifies=modifies,
             raises={Exception: lambda cx: z3.BoolVal(True)}, may_raise_any=True,
             depth=(lambda cx: z3.If(cx.old(cx.args['self'])._authenticated, 0, 1), 1),
             loops={1: LoopSpec(invariant=bin_loop_inv, modifies=bin_mods,
                                variant=lambda cx: z3.If(cx.l('more'), z3.Length(cx.new(cx.args['self'])._buffer) + 1, 0)),
                    2: LoopSpec(invariant=line_loop_inv, modifies=line_mods, ghost_index='_k2')})
