"""C02 - encoded bytes are exactly the DBus wire format, in both directions.

Deductive part (every value / offset / byte order; contracts/marshal_contracts.py):
  * pad[c](x) for the 17 type codes and the header: zero bytes up to the specification's alignment of c, for every x >= 0
    (the alignment is read from the closure cell of the live function, so an edit of the type table is seen)
  * the ten fixed-size encoders: exactly the struct image of the value, width by type, in the byte order asked;
    struct.error exactly outside the type's range; their decoders: width and the value of the 'width' bytes at the offset
  * string / object-path / signature encoders and decoders: length prefix, text, NUL; byte counts
  * marshal (driver), marshal_array, marshal_struct, marshal_variant: the output equals the specification's encoding
    functions ENCS / ENCA / ENC (defined by the recursion of the DBus "Marshaling" chapter: each value after zero padding
    to ITS alignment measured from the message start, array = length word . padding (not counted) . elements (padding
    between them counted), variant = signature . padding . content), every nested call receives the same byte order and
    an aligned offset, the reported count is the number of bytes
  * unmarshal (driver), unmarshal_array (non-dict element types), unmarshal_struct, unmarshal_variant: offsets and values
    equal the specification's decoding recursion DOFF / DVALS / AOFF / AVALS, arrays end exactly at the declared length
  * the live dispatch tables bind each type code to the function whose contract specifies that code (lemmas)
Dispatch through marshallers[c] / unmarshallers[c] with a symbolic code goes through one generic table contract (result ==
ENC / DEC of its arguments): modular reasoning about the mutually recursive codec, partial correctness.
Bounded stand-in (labelled): byte-for-byte comparison with an encoder/decoder written independently from the specification
(contracts/wire_ref.py) over enumerated signatures x conforming values x 8 offsets x both byte orders, both directions.
"""
import z3

from pyvc.values import *  # noqa
from pyvc.engine import World
from pyvc.runner import Spec
from .base import TxModels
from . import marshal_contracts as MC
from . import marshal_harness as H


def bounded(tier, seed):
    n = 1
    f = H.alignment_table_case()
    if f:
        return n, f, {'case': 'alignment table'}
    n += 1
    f = header_variant_case()
    if f:
        return n, f, {'case': 'header field variants'}
    n += 1
    f = inferred_content_case()
    if f:
        return n, f, {'case': 'variants of plain Python values'}
    m, f, inp = H.bounded_roundtrip(tier, seed)
    return n + m, f, inp


def inferred_content_case():
    """'variants carry the signature of their content' when the content is a plain Python value: instances of the plain types AND of their
    subclasses that declare no DBus type (enum members, application string / number / byte-array classes) are written as a variant of
    the base type - byte for byte what the specification gives for that variant"""
    import enum
    from txdbus import marshal
    from . import wire_ref as W
    Colour = enum.IntEnum('Colour', 'RED GREEN')
    Flag = enum.IntFlag('Flag', 'A B')
    Name = type('Name', (str,), {})
    Ratio = type('Ratio', (float,), {})
    Blob = type('Blob', (bytearray,), {})
    cases = [(7, 'i', 7), (True, 'b', True), (1.5, 'd', 1.5), ('s', 's', 's'), (bytearray(b'ab'), 'ay', [97, 98]),
             (Colour.GREEN, 'i', 2), (Flag.A | Flag.B, 'i', 3), (Name('n'), 's', 'n'), (Ratio(2.5), 'd', 2.5), (Blob(b'xy'), 'ay', [120, 121]),
             ([Colour.RED, Colour.GREEN], 'ai', [1, 2]), ({'k': Name('v')}, 'a{ss}', {'k': 'v'})]
    for pyv, vsig, plain in cases:
        for le in (True, False):
            for off in (0, 3):
                want = W.encode('v', [W.Variant(vsig, plain)], off, le)
                try:
                    n_, chunks = marshal.marshal('v', [pyv], off, le)
                except Exception as e:
                    return 'marshal of the Python value %r (a %s) as a variant raised %s: %s' % (pyv, type(pyv).__name__, type(e).__name__, e)
                got = b''.join(chunks)
                if got != want or n_ != len(want):
                    return 'the Python value %r (a %s) as a variant at offset %d: bytes %s, the specification gives %s for a variant of type %r' % (pyv, type(pyv).__name__, off, got.hex(), want.hex(), vsig)
    return None


def header_variant_case():
    """'variants carry the signature of their content' for the variants of a message header (txdbus/message.py): every header field of a
    message that is built, and of one that was parsed and is serialised again (what the bus does with every message), is written as a
    variant of the type the specification gives that field - in either byte order, for serials up to 2^32 - 1"""
    from txdbus import message
    from . import message_harness as MH
    from . import wire_ref as W
    built = [('a method return', message.MethodReturnMessage(2 ** 32 - 1, destination=':1.5', signature='s', body=['x'])),
             ('an error', message.ErrorMessage('a.b.E', 2 ** 31, destination=':1.5', signature='s', body=['x'])),
             ('a call', message.MethodCallMessage('/p', 'M', interface='a.b', destination='a.b', signature='ai', body=[[1, 2]])),
             ('a call with descriptors', message.MethodCallMessage('/p', 'M', signature='h', body=[3], oobFDs=[])),
             ('a signal', message.SignalMessage('/p', 'S', 'a.b', signature='u', body=[7]))]
    for what, m in built:
        f = MH.header_types_ok(m.rawMessage, what + ' as built')
        if f:
            return f
    for le in (True, False):
        for rs in (1, 2 ** 31 - 1, 2 ** 31, 2 ** 32 - 1):
            for mtype, fields in ((2, [(5, rs), (6, ':1.5'), (8, 'su')]), (3, [(4, 'a.b.E'), (5, rs), (6, ':1.5'), (8, 'su')])):
                raw = MH.ref_message(mtype, 0, 77, fields, 'su', ['x', 9], le)
                try:
                    back = message.parseMessage(raw, [])
                    back.sender = ':1.9'
                    back._marshal(False, rawBody=back.rawBody)
                    again = back.rawMessage
                except Exception as e:
                    return 'serialising a parsed %s-endian reply (reply serial %d) again raised %s: %s' % ('little' if le else 'big', rs, type(e).__name__, e)
                f = MH.header_types_ok(again, 'a parsed %s-endian reply to serial %d, serialised again' % ('little' if le else 'big', rs))
                if f:
                    return f
                vals, _n = W.decode(MH.HDR, again, 0, again[:1] == b'l')
                if dict((c, v) for c, v in vals[6]).get(5) != rs:
                    return 'a parsed reply to serial %d, serialised again, names the serial %r' % (rs, dict((c, v) for c, v in vals[6]).get(5))
    return None


def replay(function, clause, model):
    n, f, inp = bounded('quick', 1)
    return {'reproduced': bool(f), 'input': inp, 'detail': f or 'no difference from the specification codec among %d cases' % n}


def run_bounded(tier, seed):
    n, f, inp = bounded(tier, seed)
    return {'tool': 'differential comparison with a reference DBus codec written from the specification (contracts/wire_ref.py): encoder bytes, decoder on specification bytes, round trip, byte counts',
            'bound': 'every (type code, offset < 64) pair for alignment; 23 hand-picked container cases (incl. 32-level nesting, a 255-byte signature, NaN) x 8 offsets x 2 byte orders; variants of one Python type with different content types in sequence; %d random (signature, value, offset, byte order) cases over all single complete types up to length %d' % (80000 if tier == 'thorough' else 3000, 6 if tier == 'thorough' else 5),
            'evaluations': n, 'failures': [] if not f else [{'function': 'txdbus.marshal', 'clause': 'wire-format', 'input': inp, 'detail': f}]}


def build(tier='quick'):
    w = World()
    targets = []
    MC.add_pad_contracts(w, targets)
    MC.add_fixed_contracts(w, targets)
    MC.add_string_contracts(w, targets)
    binding = MC.add_container_contracts(w, targets)
    sp = Spec('C02', w, lambda world: MC.MarshalModels(world), targets, replay=replay,
                bounded=[{'name': 'wire-format-differential', 'run': run_bounded}],
                trusted=['struct.pack / unpack_from for the nine formats as uninterpreted functions of (byte order, value / bytes) with the type ranges; IEEE-754 image of doubles uninterpreted',
                         'codecs utf-8 / ascii encode and decode as uninterpreted functions'],
                assumed=['genCompleteTypes(sig) returns the top-level complete types of a valid signature, each non-empty with a known type code (C19 owns that contract)',
                         'sigFromPy(value) is a function of the value and returns one complete type (C19)',
                         'type grammar facts used: a complete type is non-empty and starts with a type code; "a"+T is complete iff T is; a struct / dict entry encloses a signature; a complete type is its own single piece (cross-checked against the reference grammar in the bounded part)',
                         'the table contract: marshallers[c] / unmarshallers[c] return ENC / DEC of their arguments - each live entry is verified against its own contract and the binding lemmas tie codes to functions; the induction over the type structure that combines them is the usual modular argument, not a machine-checked step',
                         'values are opaque identities; array arguments are modelled as Python lists (dict / bytearray / tuple inputs and the list -> dict conversion of decoded dict-entry arrays: bounded part only)',
                         'the inverse relation between the specification encoder and decoder (DEC(ENC(v)) == v) is not derived here: C01'],
                notes=['zeros / padlen / align are uninterpreted in the container proofs; the facts used about them are proved from their definitions on every run (lemmas)'],
                explanation='every encoder and decoder of txdbus.marshal proved equal to the specification functions for all inputs (leaves: struct images; containers: the recursive layout rules); bounded differential comparison against an independent codec on top',
                design_ref='DESIGN.md 4/C01-C02')
    sp.lemmas = binding
    return sp
