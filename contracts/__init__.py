"""Sidecar contracts for txdbus (no edit of /repo): one module per property."""
