"""C08 - each remote call completes exactly once, with the reply that belongs to it.

Abstract view: pending : serial -> (deferred, timer?)  (DBusClientConnection._pendingCalls).
Invariant PC, used in instantiated form at the entry an event touches: its Deferred is unfired and its
timer, if any, is active.  Each event handler is verified from EVERY state satisfying PC (all interleavings
of replies, errors, expiries, duplicates and unsolicited replies = all sequences of handler calls, each
atomic in the single-threaded reactor):
  methodReturnReceived / errorReceived: if reply_serial is pending -> exactly that Deferred is fired (with the
     message / with RemoteError(name, message, values)), its timer cancelled while still active, the entry
     removed, every other entry and every other Deferred untouched (skolem d0);  else nothing changes.
  _onMethodTimeout(serial, d): entry removed, d failed with TimeOut.
  callRemoteMessage: entry (fresh unfired Deferred, active timer bound to (serial, d)) registered before the
     message is written; expectReply false -> no entry, already-succeeded Deferred.
  _cbCvtReply: the documented value convention and the RemoteError cases as a total function.
Bounded stand-in (labelled): all interleavings of N <= 3 calls x {return, error, empty error, expiry} with
duplicates and a clock run, through the real connection object (also covers connectionLost, callRemote).
"""
import itertools
import random

import z3

from pyvc.values import *  # noqa
from pyvc.engine import World, ClassSpec
from pyvc.runner import Spec
from .base import contract, TxModels

C, D, T, MSG = 'DBusClientConnection', 'Deferred', 'DelayedCall', 'Msg'


def callback(self, result): pass
def errback(self, fail): pass
def cancel(self): pass
def sendMessage(self, msg): pass
def addCallback(self, cb, *a): pass


class Models08(TxModels):
    def __init__(self, world):
        super().__init__(world)
        from twisted.internet import defer
        self.instantiators[defer.Deferred] = lambda I, a, k: I.ctx.new_ref(D)
        self.register(defer.succeed, self.m_succeed)

    def m_succeed(self, I, a, k):
        d = I.ctx.new_ref(D)
        I.ctx.heap_write(d, 'g_fired', VBool(True))
        I.ctx.heap_write(d, 'g_ok', VBool(True))
        I.ctx.heap_write(d, 'g_none', VBool(isinstance(a[0], VNone)))
        return d

    def pyconst_method(self, I, recv, name, args, kwargs):
        from twisted.internet import reactor
        if recv.obj is reactor and name == 'callLater':
            # reactor.callLater(t, fn, serial, d): a new active timer bound to its arguments (Twisted, assumed)
            t = I.ctx.new_ref(T)
            I.ctx.heap_write(t, 'g_active', VBool(True))
            if len(args) == 4 and isinstance(args[2], VInt) and isinstance(args[3], VRef):
                I.ctx.heap_write(t, 'g_serial', args[2])
                I.ctx.heap_write(t, 'g_d', args[3])
                fn = args[1]
                I.ctx.heap_write(t, 'g_is_timeout_handler',
                                 VBool(isinstance(fn, VFunc) and getattr(fn.fn, '__name__', '') == '_onMethodTimeout'))
            return t
        return super().pyconst_method(I, recv, name, args, kwargs)


def build_world():
    from txdbus import client, message, error
    w = World()
    w.add_class(ClassSpec(MSG, message.DBusMessage, {
        'reply_serial': INT, 'error_name': STR, 'serial': INT, 'expectReply': BOOL,
        'signature': Opt(STR), 'body': Opt(ListT(DYN))}))
    w.add_class(ClassSpec('MethodCallMessage', message.MethodCallMessage, {}, bases=(MSG,)))
    w.add_class(ClassSpec(D, None, {'g_fired': BOOL, 'g_ok': BOOL, 'g_val': INT, 'g_none': BOOL, 'g_errcls': INT,
                                    'g_errname': STR, 'g_errmsg': STR, 'g_nvalues': INT},
                          methods={'callback': callback, 'errback': errback, 'addCallback': addCallback},
                          init={'g_fired': False}))
    w.add_class(ClassSpec(T, None, {'g_active': BOOL, 'g_serial': INT, 'g_d': Ref(D), 'g_is_timeout_handler': BOOL},
                          methods={'cancel': cancel}))
    w.add_class(ClassSpec(C, client.DBusClientConnection, {
        '_pendingCalls': DictT(INT, TupleT(Ref(D), Opt(Ref(T)))), 'g_written': INT}))

    dfields = ['g_fired', 'g_ok', 'g_val', 'g_none', 'g_errcls', 'g_errname', 'g_errmsg', 'g_nvalues']
    dmods = lambda cx: [(cx.args['self'], D + '.' + f) for f in dfields]

    contract(w, 'iface.Deferred.callback', {'self': Ref(D), 'result': OPAQUE}, fn=callback,
             requires=lambda cx: [('fires-once', z3.Not(cx.old(cx.args['self']).g_fired))],
             modifies=dmods,
             ensures=lambda cx: [('fired', z3.And(cx.new(cx.args['self']).g_fired, cx.new(cx.args['self']).g_ok,
                                                  cx.new(cx.args['self']).g_val == (cx.args['result'].term if isinstance(cx.args['result'], VRef) else -999)))],
             assumed=True)

    def errback_post(cx):
        n = cx.new(cx.args['self'])
        e = cx.args['fail']
        out = [n.g_fired, z3.Not(n.g_ok)]
        if isinstance(e, VExc):
            out.append(n.g_errcls == (1 if issubclass(e.cls, error.RemoteError) else 2 if issubclass(e.cls, error.TimeOut) else 3))
            if issubclass(e.cls, error.RemoteError):
                en, em, ev = e.fields.get('errName'), e.fields.get('message'), e.fields.get('values')
                if isinstance(en, VStr): out.append(n.g_errname == en.term)
                if isinstance(em, VStr): out.append(n.g_errmsg == em.term)
                elif isinstance(em, VDyn): out.append(z3.And(em.kind == 2, n.g_errmsg == em.s))
                if isinstance(ev, VEmptyList): out.append(n.g_nvalues == 0)
                elif isinstance(ev, VList): out.append(n.g_nvalues == ev.length())
        return [('failed', z3.And(out))]

    contract(w, 'iface.Deferred.errback', {'self': Ref(D), 'fail': OPAQUE}, fn=errback,
             requires=lambda cx: [('fires-once', z3.Not(cx.old(cx.args['self']).g_fired))],
             modifies=dmods, ensures=errback_post, assumed=True)
    contract(w, 'iface.DelayedCall.cancel', {'self': Ref(T)}, fn=cancel,
             requires=lambda cx: [('cancel-only-an-active-timer', cx.old(cx.args['self']).g_active)],
             modifies=lambda cx: [(cx.args['self'], T + '.g_active')],
             ensures=lambda cx: [('inactive', z3.Not(cx.new(cx.args['self']).g_active))], assumed=True)
    contract(w, 'txdbus.protocol.BasicDBusProtocol.sendMessage', {'self': Ref(C), 'msg': Ref(MSG)},
             modifies=lambda cx: [(cx.args['self'], C + '.g_written')],
             ensures=lambda cx: [('written', cx.new(cx.args['self']).g_written == cx.old(cx.args['self']).g_written + 1)],
             # writing may fail (a descriptor argument on a transport that cannot pass descriptors, a transport error): nothing is written then
             raises={Exception: lambda cx: z3.BoolVal(True)},
             raises_post={Exception: lambda cx: [('nothing written', cx.new(cx.args['self']).g_written == cx.old(cx.args['self']).g_written)]},
             assumed=True)

    # ---------------- reply handlers
    def entry(cx, view_fn, serial):
        pc = view_fn(cx.args['self'])._pendingCalls
        from pyvc.engine import select_store
        return (select_store(pc.dom, serial), select_store(pc.vals[0], serial), select_store(pc.vals[1], serial),
                select_store(pc.vals[2], serial), pc)

    def pc_instance(cx, serial):
        present, d, tnone, t, _ = entry(cx, cx.old, serial)
        dv, tv = cx.old(VRef(d, D)), cx.old(VRef(t, T))
        d0 = cx.ctx.d0 = cx.ctx.fresh('d0_deferred', IntSort)
        return [('PC@entry: deferred unfired, timer active', z3.Implies(present, z3.And(z3.Not(dv.g_fired), z3.Implies(z3.Not(tnone), tv.g_active)))),
                ('refs', z3.And(d0 >= 0, z3.Implies(present, z3.And(d >= 0, z3.Implies(z3.Not(tnone), t >= 0)))))]

    def others_untouched(cx, d):
        d0 = VRef(cx.ctx.d0, D)
        o, n = cx.old(d0), cx.new(d0)
        return z3.Implies(cx.ctx.d0 != d, z3.And([getattr(o, f) == getattr(n, f) for f in dfields]))

    def reply_post(kind):
        def post(cx):
            m = cx.args['mret' if kind == 'ret' else 'merr']
            serial = cx.old(m).reply_serial
            present, d, tnone, t, pco = entry(cx, cx.old, serial)
            pcn = cx.new(cx.args['self'])._pendingCalls
            dn, tn = cx.new(VRef(d, D)), cx.new(VRef(t, T))
            unchanged = z3.And([a == b for a, b in zip(pcn.terms(), pco.terms())])
            removed = z3.And(pcn.dom == z3.Store(pco.dom, serial, False), z3.And([a == b for a, b in zip(pcn.vals, pco.vals)]))
            if kind == 'ret':
                fired = z3.And(dn.g_fired, dn.g_ok, dn.g_val == m.term)
            else:
                mv = cx.old(m)
                b = mv.body
                bs = b.val.seqs
                has = z3.And(z3.Not(b.none), z3.Length(bs[0]) > 0)
                fired = z3.And(dn.g_fired, z3.Not(dn.g_ok), dn.g_errcls == 1, dn.g_errname == mv.error_name,
                               dn.g_errmsg == z3.If(z3.And(has, bs[0][0] == 2), bs[1][0], z3.StringVal('')),
                               dn.g_nvalues == z3.If(has, z3.Length(bs[0]), 0))
            return [('matching-call-completed', z3.Implies(present, z3.And(fired, removed, z3.Implies(z3.Not(tnone), z3.Not(tn.g_active))))),
                    ('unmatched-reply-changes-nothing', z3.Implies(z3.Not(present), z3.And(unchanged, cx.unchanged(*[D + '.' + f for f in dfields]), cx.unchanged(T + '.g_active')))),
                    ('no-other-call-completed', others_untouched(cx, z3.If(present, d, -1)))]
        return post

    hmods = lambda cx: [(cx.args['self'], C + '._pendingCalls'), ('*', T + '.g_active')] + [('*', D + '.' + f) for f in dfields]
    contract(w, 'txdbus.client.DBusClientConnection.methodReturnReceived', {'self': Ref(C), 'mret': Ref(MSG)},
             requires=lambda cx: pc_instance(cx, cx.old(cx.args['mret']).reply_serial), ensures=reply_post('ret'), modifies=hmods)
    contract(w, 'txdbus.client.DBusClientConnection.errorReceived', {'self': Ref(C), 'merr': Ref(MSG)},
             requires=lambda cx: pc_instance(cx, cx.old(cx.args['merr']).reply_serial), ensures=reply_post('err'), modifies=hmods)

    def timeout_pre(cx):
        present, d, tnone, t, _ = entry(cx, cx.old, cx.a('serial'))
        cx.ctx.d0 = cx.ctx.fresh('d0_deferred', IntSort)
        return [('PC@timer: bound to a pending entry with this deferred, unfired',
                 z3.And(present, d == cx.a('d'), z3.Not(cx.old(cx.args['d']).g_fired)))]

    def timeout_post(cx):
        serial = cx.a('serial')
        present, d, tnone, t, pco = entry(cx, cx.old, serial)
        pcn = cx.new(cx.args['self'])._pendingCalls
        dn = cx.new(cx.args['d'])
        return [('timed-out', z3.And(dn.g_fired, z3.Not(dn.g_ok), dn.g_errcls == 2,
                                     pcn.dom == z3.Store(pco.dom, serial, False))),
                ('no-other-call-completed', others_untouched(cx, cx.a('d')))]

    contract(w, 'txdbus.client.DBusClientConnection._onMethodTimeout', {'self': Ref(C), 'serial': INT, 'd': Ref(D)},
             requires=timeout_pre, ensures=timeout_post, modifies=hmods)

    def crm_post(cx):
        s = cx.args['self']
        mv = cx.old(cx.args['mcall'])
        serial = mv.serial
        pco = cx.old(s)._pendingCalls
        present, d, tnone, t, pcn = entry(cx, cx.new, serial)
        r = cx.result
        tv = cx.new(VRef(t, T))
        rv = cx.new(r)
        timed = cx.ctx.timed
        return [('registered', z3.Implies(mv.expectReply, z3.And(present, d == r.term, z3.Not(rv.g_fired), r.term < 0,
                                                                 pcn.dom == z3.Store(pco.dom, serial, True),
                                                                 tnone == z3.Not(timed),
                                                                 z3.Implies(timed, z3.And(tv.g_active, tv.g_serial == serial, tv.g_d == d, tv.g_is_timeout_handler))))),
                ('no-reply-expected', z3.Implies(z3.Not(mv.expectReply), z3.And(rv.g_fired, rv.g_ok, rv.g_none,
                                                                               z3.And([a == b for a, b in zip(pcn.terms(), pco.terms())])))),
                ('written-once', cx.new(s).g_written == cx.old(s).g_written + 1)]

    def crm_pre(cx):
        tm = cx.args['timeout']
        cx.ctx.timed = z3.BoolVal(False) if isinstance(tm, VNone) else (tm.term != 0)
        return [] if isinstance(tm, VNone) else [('deadline-is-positive', tm.term > 0)]

    contract(w, 'txdbus.client.DBusClientConnection.callRemoteMessage', {'self': Ref(C), 'mcall': Ref('MethodCallMessage'), 'timeout': Opt(INT)},
             result=Ref(D), requires=crm_pre, ensures=crm_post,
             raises={Exception: lambda cx: z3.BoolVal(True)},
             raises_post={Exception: lambda cx: [
                 ('a call that could not be sent is not outstanding: no entry under its serial, the other entries as before',
                  z3.If(cx.old(cx.args['mcall']).expectReply,
                        cx.new(cx.args['self'])._pendingCalls.dom == z3.Store(cx.old(cx.args['self'])._pendingCalls.dom, cx.old(cx.args['mcall']).serial, False),
                        cx.new(cx.args['self'])._pendingCalls.dom == cx.old(cx.args['self'])._pendingCalls.dom)),
                 ('a call that could not be sent leaves no armed deadline: every timer active afterwards was active before',
                  (lambda t: z3.Implies(cx.new(VRef(t, T)).g_active, cx.old(VRef(t, T)).g_active))(z3.Int('t_any')))]},
             modifies=lambda cx: [(cx.args['self'], C + '._pendingCalls'), (cx.args['self'], C + '.g_written'), ('*', T + '.g_active'),
                                  ('*', T + '.g_serial'), ('*', T + '.g_d'), ('*', T + '.g_is_timeout_handler')] + [('*', D + '.' + f) for f in dfields])

    # ---------------- the documented reply convention
    def cvt_post(cx):
        msg = cx.args['msg']
        r = cx.result
        if isinstance(msg, VNone):
            return [('none-for-none', z3.BoolVal(isinstance(r, VNone)))]
        mv = cx.old(msg)
        b = mv.body
        empty = z3.Or(b.none, z3.Length(b.val.seqs[0]) == 0)
        one = z3.And(z3.Not(b.none), z3.Length(b.val.seqs[0]) == 1, z3.Not(mv.signature.none),
                     z3.Not(z3.PrefixOf(z3.StringVal('('), mv.signature.val.term)))
        out = [('no-value-gives-None', z3.Implies(empty, z3.BoolVal(isinstance(r, VNone)))),
               ('one-non-struct-value-gives-that-value', z3.Implies(z3.And(z3.Not(empty), one), z3.BoolVal(isinstance(r, VDyn)))),
               ('otherwise-the-list', z3.Implies(z3.And(z3.Not(empty), z3.Not(one)), z3.BoolVal(isinstance(r, VList))))]
        if isinstance(r, VDyn):
            out.append(('the-value', z3.And(r.kind == b.val.seqs[0][0], r.s == b.val.seqs[1][0], r.i == b.val.seqs[2][0])))
        if isinstance(r, VList):
            out.append(('the-values', z3.And([x == y for x, y in zip(r.seqs, b.val.seqs)])))
        return out

    def sig_mismatch(cx):
        msg = cx.args['msg']
        rs = cx.args['returnSignature']
        if isinstance(msg, VNone):
            return z3.BoolVal(False)
        sg = cx.old(msg).signature
        has_sig = z3.And(z3.Not(sg.none), z3.Length(sg.val.term) > 0)
        nocheck = z3.StringVal(client._NO_CHECK_RETURN)
        if isinstance(rs, VNone):
            return has_sig
        return z3.And(rs.term != nocheck,
                      z3.If(z3.Length(rs.term) == 0, has_sig, z3.Or(z3.Not(has_sig), sg.val.term != rs.term)))

    contract(w, 'txdbus.client.DBusClientConnection._cbCvtReply', {'self': Ref(C), 'msg': Opt(Ref(MSG)), 'returnSignature': Opt(STR)},
             requires=lambda cx: [('body-matches-signature: a message with values carries a signature',
                                   z3.BoolVal(True) if isinstance(cx.args['msg'], VNone) else
                                   z3.Implies(z3.And(z3.Not(cx.old(cx.args['msg']).body.none), z3.Length(cx.old(cx.args['msg']).body.val.seqs[0]) > 0),
                                              z3.And(z3.Not(cx.old(cx.args['msg']).signature.none), z3.Length(cx.old(cx.args['msg']).signature.val.term) > 0)))],
             ensures=lambda cx: cvt_post(cx) + [('signature-accepted', z3.Not(sig_mismatch(cx)))],
             raises={error.RemoteError: sig_mismatch})
    return w


# ---------------------------------------------------------------------------- concrete side
def make_connection():
    from twisted.internet import task
    from twisted.internet.testing import StringTransport
    from txdbus import client, message
    clock = task.Clock()
    client.reactor = clock
    p = client.DBusClientConnection()
    p.factory = client.DBusClientFactory()
    p.transport = StringTransport()
    p._receivedFDs = []
    p.setAuthenticationSucceeded()
    hello = list(p._pendingCalls)[0]
    p.dataReceived(message.MethodReturnMessage(hello, signature='s', body=[':1.42']).rawMessage)
    return p, clock


def scenario(kinds, order, dup=True, loss_at=None, closing_at=None, reason_kind=0, foreign=False):
    """kinds[i] in R (return) E (error with text) e (empty error) T (expiry); order = completion order"""
    from twisted.python import failure
    from txdbus import error, message
    p, clock = make_connection()
    n = len(kinds)
    dl = {c: 10 * (k + 1) + (0.25 if (k + len(kinds)) % 2 else 0) for k, c in enumerate(order)}          # deadlines need not be whole seconds
    outs, serials = [], []
    for i in range(n):
        before = set(p._pendingCalls)
        out = []
        # calls addressed to a well-known name and to a unique name alike
        p.callRemote('/o', 'M%d' % i, interface='org.e.I', destination=('org.e', ':1.42', ':1.7')[i % 3], timeout=dl[i]).addBoth(out.append)
        fresh = set(p._pendingCalls) - before
        if len(fresh) != 1:
            return 'call %d was not registered under a serial of its own: pending serials %r before, %r after' % (i, sorted(before), sorted(p._pendingCalls))
        (s,) = fresh
        outs.append(out)
        serials.append(s)
    done = set()

    def foreign_reply(i, kind, le, unknown_first):
        # the same replies as another implementation writes them: big-endian, and / or with a header field of a code this library does
        # not know (receivers must ignore those) placed before the fields that matter
        from . import wire_ref as W
        from . import message_harness as MH
        known = ([(5, serials[i]), (6, ':1.42'), (8, 's')] if kind == 'R' else [(4, 'org.e.Err%d' % i), (5, serials[i])] + ([(8, 's')] if kind == 'E' else []))
        arr = [[c, W.Variant(MH.FIELD_SIG[c], v)] for c, v in known]
        if unknown_first:
            arr = [[77, W.Variant('s', 'ignore me')]] + arr + [[99, W.Variant('au', [1, 2])]]
        body = W.encode('s', ['v%d' % i if kind == 'R' else 'm%d' % i], 0, le) if kind in 'RE' else b''
        head = W.encode(MH.HDR, [ord('l') if le else ord('B'), 2 if kind == 'R' else 3, 0, 1, len(body), 4000 + i, arr], 0, le)

        class Raw:
            rawMessage = head + W.pad(len(head), 8) + body
        return Raw

    def reply(i, kind):
        variant = (i + 2 * len(kinds) + sum(map(ord, kinds))) % 4
        if foreign and variant != 0:
            return foreign_reply(i, kind, le=(variant == 2), unknown_first=(variant >= 2))
        if kind == 'R':
            m = message.MethodReturnMessage(serials[i], signature='s', body=['v%d' % i])
        elif kind == 'E':
            m = message.ErrorMessage('org.e.Err%d' % i, serials[i], signature='s', body=['m%d' % i])
        else:
            m = message.ErrorMessage('org.e.Err%d' % i, serials[i])
        # a reply is matched by its reply serial, whoever the bus names as its sender: the peer's unique name, another name of the
        # same peer, the bus daemon itself (its own errors for a peer that has gone), or none at all
        snd = (None, ':1.42', ':1.99', 'org.freedesktop.DBus')[(i + len(kinds) + (0 if kind == 'R' else 1)) % 4]
        if snd is not None:
            m.sender = snd
            m._marshal(False)
        return m

    def check(where):
        live = [i for i in range(n) if i not in done]
        if sorted(p._pendingCalls) != sorted(serials[i] for i in live):
            return '%s: bookkeeping %r, outstanding %r' % (where, sorted(p._pendingCalls), sorted(serials[i] for i in live))
        if len(clock.getDelayedCalls()) != len(live):
            return '%s: %d timers alive for %d outstanding calls' % (where, len(clock.getDelayedCalls()), len(live))
        for i in range(n):
            if len(outs[i]) != (1 if i in done else 0):
                return '%s: call %d completed %d times' % (where, i, len(outs[i]))
        return None
    now = 0
    for step, i in enumerate(order):
        k = kinds[i]
        if loss_at == step:
            # the connection is lost with the calls of order[step:] outstanding: each fails once with the loss reason,
            # at once no timer and no bookkeeping remains, and nothing more happens when the clock runs on
            # ... whatever the reason is: an error of the transport, an orderly close by the peer, a close asked for locally
            from twisted.internet import error as _terr
            reason = failure.Failure([RuntimeError('lost'), _terr.ConnectionDone(), _terr.ConnectionLost(), _terr.ConnectionAborted()][reason_kind % 4])
            try:
                p.connectionLost(reason)
            except Exception as e:
                return 'connection loss before step %d raised %s: %s' % (step, type(e).__name__, e)
            for j in order[step:]:
                if len(outs[j]) != 1 or outs[j][0] is not reason:
                    return 'connection loss with call %d outstanding: its outcomes %r' % (j, outs[j])
                done.add(j)
            f = check('right after the connection loss before step %d' % step)
            if f:
                return f
            try:
                clock.advance(1000)
            except Exception as e:
                return 'clock run after the connection loss raised %s: %s' % (type(e).__name__, e)
            return check('after the connection loss before step %d and a clock run' % step)
        if closing_at == step:
            # the application asked for the connection to be closed; until the transport reports the loss, replies that still arrive
            # complete their calls as before (whichever happens first)
            p.transport.loseConnection()
        try:
            if k == 'T':
                clock.advance(dl[i] - now + 0.001)
                now = dl[i] + 0.001
            else:
                p.dataReceived(reply(i, k).rawMessage)
        except Exception as e:
            return 'step %d (%s for call %d) raised %s: %s' % (step, k, i, type(e).__name__, e)
        done.add(i)
        f = check('after step %d (%s for call %d)' % (step, k, i))
        if f:
            return f
        r = outs[i][0]
        if k == 'R' and r != 'v%d' % i:
            return 'call %d completed with %r' % (i, r)
        if k in 'Ee':
            if not (isinstance(r, failure.Failure) and r.check(error.RemoteError)) or r.value.errName != 'org.e.Err%d' % i:
                return 'call %d: error outcome %r' % (i, r)
            if (r.value.message, r.value.values) != (('m%d' % i, ['m%d' % i]) if k == 'E' else ('', [])):
                return 'call %d: RemoteError message/values %r %r' % (i, r.value.message, r.value.values)
        if k == 'T' and not (isinstance(r, failure.Failure) and r.check(error.TimeOut)):
            return 'call %d: expected TimeOut, got %r' % (i, r)
    if dup:
        try:
            for i in range(n):
                if kinds[i] != 'T':
                    p.dataReceived(reply(i, kinds[i]).rawMessage)          # duplicates
            p.dataReceived(message.MethodReturnMessage(987654, signature='s', body=['x']).rawMessage)   # unsolicited
            clock.advance(1000)
        except Exception as e:
            return 'duplicate / unsolicited reply or late clock raised %s: %s' % (type(e).__name__, e)
        f = check('after duplicates, unsolicited reply and clock run')
        if f:
            return f
    return None


def convention_cases():
    from twisted.python import failure
    from txdbus import error, message
    cases = [(None, None, [None, ''], 'ok', None), ('s', ['a'], ['s'], 'ok', 'a'), ('s', ['a'], [None, ''], 'err', None), ('ss', ['a', 'b'], ['ss'], 'ok', ['a', 'b']),
             ('(ss)', [['a', 'b']], ['(ss)'], 'ok', [['a', 'b']]), ('s', ['a'], ['i', ''], 'err', None), (None, None, ['s'], 'err', None),
             ('s', ['a'], ['__DBUS_NO_RETURN_VALUE'], 'ok', 'a')]
    for sig, body, rsigs, kind, want in cases:
        for rs in rsigs:
            p, clock = make_connection()
            out = []
            before = set(p._pendingCalls)
            kw = {} if rs == '__DBUS_NO_RETURN_VALUE' else {'returnSignature': rs}
            p.callRemote('/o', 'M', interface='org.e.I', destination='org.e', **kw).addBoth(out.append)
            (s,) = set(p._pendingCalls) - before
            p.dataReceived(message.MethodReturnMessage(s, signature=sig, body=body).rawMessage)
            if len(out) != 1:
                return 'reply %r/%r declared %r: %d completions' % (sig, body, rs, len(out))
            r = out[0]
            if kind == 'err':
                if not (isinstance(r, failure.Failure) and r.check(error.RemoteError)):
                    return 'reply signature %r accepted for declared return signature %r: %r' % (sig, rs, r)
            elif r != want:
                return 'reply %r/%r delivered as %r, expected %r' % (sig, body, r, want)
    # connection loss fails every pending call once and cancels the timers
    p, clock = make_connection()
    outs = [[] for _ in range(3)]
    for i in range(3):
        p.callRemote('/o', 'M', interface='org.e.I', destination='org.e', timeout=5 if i else None).addBoth(outs[i].append)
    reason = failure.Failure(RuntimeError('lost'))
    p.connectionLost(reason)
    if clock.getDelayedCalls():
        return 'connection loss: %d deadline timers left for calls that have completed' % len(clock.getDelayedCalls())
    clock.advance(100)
    if any(len(o) != 1 or o[0] is not reason for o in outs) or p._pendingCalls or clock.getDelayedCalls():
        return 'connection loss: outcomes %r, pending %r, timers %d' % (outs, p._pendingCalls, len(clock.getDelayedCalls()))
    # a caller that retries from its errback while the loss is dispatched: the retried call is a call like any other - tracked,
    # and completed by its deadline
    p, clock = make_connection()
    again, first = [], []

    def retry(f):
        first.append(f)
        d2 = p.callRemote('/o', 'Again', interface='org.e.I', destination='org.e', timeout=5)
        d2.addBoth(again.append)
        return None
    p.callRemote('/o', 'M', interface='org.e.I', destination='org.e', timeout=3).addErrback(retry)
    other = []
    p.callRemote('/o', 'N', interface='org.e.I', destination='org.e').addBoth(other.append)
    reason = failure.Failure(RuntimeError('lost'))
    try:
        p.connectionLost(reason)
        if len(p._pendingCalls) != 1 or len(clock.getDelayedCalls()) != 1:
            return 'a call retried from an errback during the loss: %d calls tracked, %d timers armed (expected the retried call and its deadline)' % (len(p._pendingCalls), len(clock.getDelayedCalls()))
        clock.advance(10)
    except Exception as e:
        return 'a call retried from an errback during the loss: %s: %s' % (type(e).__name__, e)
    if first != [reason] or other != [reason] or len(again) != 1 or not (isinstance(again[0], failure.Failure) and again[0].check(error.TimeOut)) or p._pendingCalls or clock.getDelayedCalls():
        return 'a call retried from an errback during the loss: first call %r, other call %r, retried call %r, still tracked %r' % (first, other, again, p._pendingCalls)
    # construction failure becomes a failed Deferred, never an exception
    try:
        d = p.callRemote('/o', '1bad', interface='org.e.I')
    except Exception as e:
        return 'callRemote raised %s instead of returning a failed Deferred' % type(e).__name__
    got = []
    d.addErrback(got.append)
    if len(got) != 1:
        return 'callRemote with an invalid member did not fail its Deferred'
    # a reply whose body signature has the greatest length allowed (255 characters) completes its call like any other
    p0, _c0 = make_connection()
    o0 = []
    p0.callRemote('/o', 'Wide', interface='org.e.I', destination='org.e').addBoth(o0.append)
    try:
        p0.dataReceived(message.MethodReturnMessage(max(p0._pendingCalls), signature='y' * 255, body=[7] * 255).rawMessage)
    except Exception as e:
        return 'a reply with a body signature of 255 characters raised %s: %s' % (type(e).__name__, e)
    if o0 != [[7] * 255] or p0._pendingCalls:
        return 'a reply with a body signature of 255 characters: the call completed with %r' % (str(o0)[:80],)
    # a second connection of the same process is established while calls are outstanding on the first: the calls the first connection
    # issues afterwards have serials of their own, and every reply completes the call it belongs to
    p1, clock1 = make_connection()
    o1, o2 = [], []
    p1.callRemote('/o', 'First', interface='org.e.I', destination='org.e').addBoth(o1.append)
    s_first = max(p1._pendingCalls)
    p2, _clock2 = make_connection()
    p1.callRemote('/o', 'Second', interface='org.e.I', destination='org.e').addBoth(o2.append)
    if len(p1._pendingCalls) != 2:
        return 'a call issued after ANOTHER connection of the process was established re-used the serial of an outstanding call: pending %r' % sorted(p1._pendingCalls)
    s_second = max(s for s in p1._pendingCalls if s != s_first) if len(p1._pendingCalls) == 2 else None
    p1.dataReceived(message.MethodReturnMessage(s_second, signature='s', body=['second']).rawMessage)
    p1.dataReceived(message.MethodReturnMessage(s_first, signature='s', body=['first']).rawMessage)
    if o1 != ['first'] or o2 != ['second']:
        return 'two calls on one connection, a second connection established in between: completions %r and %r' % (o1, o2)
    # a call that cannot be WRITTEN (a descriptor argument on a transport that cannot pass descriptors) completes once, as a failure,
    # and leaves neither an entry nor a deadline behind - with and without a deadline of its own
    for tmo in (5, None):
        p, clock = make_connection()
        out = []
        try:
            p.callRemote('/o', 'TakeFd', interface='org.e.I', destination='org.e', signature='h', body=[0], timeout=tmo).addBoth(out.append)
        except Exception as e:
            return 'a call that could not be written raised %s instead of returning a failed Deferred' % type(e).__name__
        if len(out) != 1 or not isinstance(out[0], failure.Failure):
            return 'a call that could not be written completed with %r' % (out,)
        if p._pendingCalls or clock.getDelayedCalls():
            return 'a call that could not be written (deadline %r) completed as a failure, yet %d entries and %d timers remain' % (tmo, len(p._pendingCalls), len(clock.getDelayedCalls()))
        clock.advance(100)
        if len(out) != 1:
            return 'a call that could not be written completed %d times' % len(out)
    return None


def bounded(tier, seed):
    n = 0
    kinds_all = 'REeT'
    for N in (1, 2, 3, 4) if tier == 'thorough' else (1, 2):
        for kinds in itertools.product(kinds_all, repeat=N):
            for order in itertools.permutations(range(N)):
                n += 1
                f = scenario(kinds, order)
                if f:
                    return n, f, {'kinds': ''.join(kinds), 'order': list(order)}
                n += 1
                f = scenario(kinds, order, foreign=True)
                if f:
                    return n, f, {'kinds': ''.join(kinds), 'order': list(order), 'replies': 'as written by another implementation: big-endian and / or with unknown header fields'}
                for la in range(N):
                    for rk in range(4):
                        n += 1
                        f = scenario(kinds, order, loss_at=la, reason_kind=rk)
                        if f:
                            return n, f, {'kinds': ''.join(kinds), 'order': list(order), 'connection_lost_before_step': la, 'reason': rk}
                    n += 1
                    f = scenario(kinds, order, closing_at=la, loss_at=(la + 1 if la + 1 < N else None), reason_kind=la + 1)
                    if f:
                        return n, f, {'kinds': ''.join(kinds), 'order': list(order), 'close_requested_before_step': la}
    rnd = random.Random(seed)
    for _ in range(10000 if tier == 'thorough' else 30):
        N = rnd.randrange(3, 6)
        kinds = [rnd.choice(kinds_all) for _ in range(N)]
        order = list(range(N))
        rnd.shuffle(order)
        n += 1
        la = rnd.choice([None] + list(range(N)))
        f = scenario(kinds, order, loss_at=la, reason_kind=rnd.randrange(4), foreign=rnd.random() < 0.5)
        if f:
            return n, f, {'kinds': ''.join(kinds), 'order': order, 'connection_lost_before_step': la}
    n += 1
    f = convention_cases()
    if f:
        return n, f, {'case': 'reply convention / connection loss / construction failure'}
    return n, None, None


def replay(function, clause, model):
    n, f, inp = bounded('quick', 11)
    return {'reproduced': bool(f), 'input': inp, 'detail': f or 'no failing interleaving among %d scenarios' % n}


def run_bounded(tier, seed):
    n, f, inp = bounded(tier, seed)
    return {'tool': 'interleaving enumeration through the real DBusClientConnection (task.Clock for deadlines)',
            'bound': 'all kinds x orders for N <= %d calls with duplicates, an unsolicited reply and a late clock run; each also with the connection lost before any step; random N in 3..5; reply-convention table; connection loss; construction failure' % (3 if tier == 'thorough' else 2),
            'evaluations': n, 'failures': [] if not f else [{'function': 'txdbus.client.DBusClientConnection', 'clause': 'interleaving', 'input': inp, 'detail': f}]}


def build(tier='quick'):
    w = build_world()
    P = 'txdbus.client.DBusClientConnection.'
    return Spec('C08', w, lambda world: Models08(world),
                [P + 'methodReturnReceived', P + 'errorReceived', P + '_onMethodTimeout', P + 'callRemoteMessage', P + '_cbCvtReply'],
                replay=replay, bounded=[{'name': 'call-interleavings', 'run': run_bounded}],
                trusted=['dict = array + domain; reply arguments modelled as None/int/str/other'],
                assumed=['Twisted Deferred: callback/errback only on an unfired Deferred (call-site precondition), fire it with the given outcome',
                         'Twisted DelayedCall.cancel only on an active timer (call-site precondition); reactor.callLater returns a new active timer bound to its arguments',
                         'BasicDBusProtocol.sendMessage writes the message and touches no bookkeeping',
                         'user callbacks do not re-enter the connection; a message with values carries a signature'],
                notes=['connectionLost, callRemote and end-to-end serial allocation are covered by the bounded interleaving enumeration only'],
                explanation='each reply/expiry handler verified from every PC state: fires exactly the matching Deferred, cancels its active timer, removes the entry, touches no other call; registration and the value convention exact; interleavings by bounded enumeration',
                design_ref='DESIGN.md 4/C08')
