"""C18 - name and path validators accept exactly the DBus grammar; no message can be built
carrying a name its validator rejects.

Deductive shape: function = spec function.  Each validator is loop free, so a full-domain symbolic
string is a complete proof: `returns normally <=> s in L(grammar)` and MarshallingError otherwise.
"""
import z3

from pyvc.values import *  # noqa
from pyvc.engine import World
from pyvc.runner import Spec
from pyvc import strings as S
from . import grammar as G
from .base import contract, make_models, TxModels
from .classes import message_classes

VALIDATORS = {
    'txdbus.marshal.validateObjectPath': ('p', G.OBJECT_PATH, 'path', False),
    'txdbus.marshal.validateInterfaceName': ('n', G.INTERFACE0, 'interface', True),
    'txdbus.marshal.validateErrorName': ('n', G.INTERFACE0, 'error', True),
    'txdbus.marshal.validateBusName': ('n', G.BUS0, 'bus', True),
    'txdbus.marshal.validateMemberName': ('n', G.MEMBER0, 'member', True),
}


def add_validator_contracts(world):
    from txdbus.error import MarshallingError
    for dotted, (pn, gram, kind, bounded) in VALIDATORS.items():
        contract(world, dotted, {pn: STR},
                 ensures=lambda cx, pn=pn, gram=gram, bounded=bounded: [('accepted-in-grammar', G.in_grammar(cx.a(pn), gram, bounded))],
                 raises={MarshallingError: lambda cx, pn=pn, gram=gram, bounded=bounded: z3.Not(G.in_grammar(cx.a(pn), gram, bounded))})


def opt_in(view, gram, bounded=True):
    return z3.Or(view.none, G.in_grammar(view.val.term, gram, bounded))


def add_constructor_contracts(world, marshal_assumed=True):
    """Second sentence of C18 (shared with C03): names carried by a constructed message are valid."""
    from txdbus.error import MarshallingError
    from txdbus import message
    self_fields = ['expectReply', 'autoStart', 'signature', 'body', 'bodyLength', 'serial', 'headers',
                   'rawMessage', 'rawHeader', 'rawPadding', 'rawBody', 'interface', 'path', 'sender',
                   'destination', 'member', 'error_name', 'reply_serial', 'unix_fds', 'unix_fds?set', 'oobFDs']

    def mods(cx):
        return [(cx.args['self'], 'DBusMessage.' + f) for f in self_fields]

    # DBusMessage._marshal: what the constructors rely on.  In C18 only the object-path clause is
    # used: the header field 'path' is encoded as an ObjectPath, whose marshaller validates it.
    contract(world, 'txdbus.message.DBusMessage._marshal',
             {'self': Ref('DBusMessage'), 'newSerial': BOOL, 'oobFDs': OPAQUE, 'rawBody': OPAQUE},
             modifies=lambda cx: [(cx.args['self'], 'DBusMessage.' + f) for f in
                                  ('headers', 'bodyLength', 'serial', 'rawHeader', 'rawPadding', 'rawBody',
                                   'rawMessage', 'unix_fds', 'unix_fds?set')],
             ensures=lambda cx: [('path-valid', opt_in(cx.new(cx.args['self']).path, G.OBJECT_PATH, False)),
                                 ('same-serial-unless-a-new-one-is-asked-for', z3.Implies(z3.Not(cx.args['newSerial'].term), z3.And(
                                     cx.new(cx.args['self']).serial.none == cx.old(cx.args['self']).serial.none,
                                     cx.new(cx.args['self']).serial.val.term == cx.old(cx.args['self']).serial.val.term)))],
             raises={MarshallingError: lambda cx: z3.BoolVal(True), Exception: lambda cx: z3.BoolVal(True)},
             assumed=marshal_assumed, may_raise_any=True)

    def names_valid(cx):
        s = cx.new(cx.args['self'])
        return [('path-valid', opt_in(s.path, G.OBJECT_PATH, False)),
                ('interface-valid', opt_in(s.interface, G.INTERFACE0)),
                ('member-valid', opt_in(s.member, G.MEMBER0)),
                ('destination-valid', opt_in(s.destination, G.BUS0)),
                ('error-name-valid', opt_in(s.error_name, G.INTERFACE0))]

    def fields_set(*names):
        """the constructor stores its arguments (what later readers / the wire see)"""
        def f(cx):
            s = cx.new(cx.args['self'])
            out = []
            for nm in names:
                v = cx.args[nm]
                fv = getattr(s, nm)
                if isinstance(v, VNone):
                    out.append(('stores:' + nm, fv.none))
                else:
                    out.append(('stores:' + nm, z3.And(z3.Not(fv.none), fv.val.term == v.term)))
            return out
        return f

    def both(*fs):
        return lambda cx: [c for f in fs for c in f(cx)]

    def fresh_msg(cx):
        # a message under construction carries nothing yet (class-level defaults are None)
        s = cx.old(cx.args['self'])
        return [('fresh', z3.And(s.path.none, s.interface.none, s.member.none, s.destination.none,
                                 s.error_name.none, s.sender.none))]

    anyexc = {Exception: lambda cx: z3.BoolVal(True)}
    contract(world, 'txdbus.message.MethodCallMessage.__init__',
             {'self': Ref('MethodCallMessage'), 'path': STR, 'member': STR, 'interface': Opt(STR),
              'destination': Opt(STR), 'signature': Opt(STR), 'body': OPAQUE, 'expectReply': BOOL,
              'autoStart': BOOL, 'oobFDs': OPAQUE},
             requires=fresh_msg, ensures=both(names_valid, fields_set('path', 'member', 'interface', 'destination')), modifies=mods, raises=anyexc, may_raise_any=True)
    contract(world, 'txdbus.message.MethodReturnMessage.__init__',
             {'self': Ref('MethodReturnMessage'), 'reply_serial': INT, 'body': OPAQUE,
              'destination': Opt(STR), 'signature': Opt(STR)},
             requires=fresh_msg, ensures=both(names_valid, fields_set('reply_serial', 'destination', 'signature')), modifies=mods, raises=anyexc, may_raise_any=True)
    contract(world, 'txdbus.message.ErrorMessage.__init__',
             {'self': Ref('ErrorMessage'), 'error_name': STR, 'reply_serial': INT, 'destination': Opt(STR),
              'signature': Opt(STR), 'body': OPAQUE, 'sender': Opt(STR)},
             requires=fresh_msg, ensures=both(names_valid, fields_set('error_name', 'reply_serial', 'destination', 'signature')), modifies=mods, raises=anyexc, may_raise_any=True)
    contract(world, 'txdbus.message.SignalMessage.__init__',
             {'self': Ref('SignalMessage'), 'path': STR, 'member': STR, 'interface': STR,
              'destination': Opt(STR), 'signature': Opt(STR), 'body': OPAQUE},
             requires=fresh_msg, ensures=both(names_valid, fields_set('path', 'member', 'interface', 'destination')), modifies=mods, raises=anyexc, may_raise_any=True)


CTORS = ['txdbus.message.MethodCallMessage.__init__', 'txdbus.message.MethodReturnMessage.__init__',
         'txdbus.message.ErrorMessage.__init__', 'txdbus.message.SignalMessage.__init__']


def replay(function, clause, model):
    """Run the real code on the solver's witness and evaluate the clause concretely."""
    from txdbus import marshal, message
    from txdbus.error import MarshallingError
    if function in VALIDATORS:
        pn, _, kind, _b = VALIDATORS[function]
        s = model.get(pn)
        if not isinstance(s, str):
            return {'reproduced': False, 'detail': 'no string witness in model'}
        fn = getattr(marshal, function.split('.')[-1])
        try:
            fn(s)
            accepted, exc = True, None
        except MarshallingError as e:
            accepted, exc = False, 'MarshallingError'
        except Exception as e:                       # any other exception class is itself a violation
            return {'reproduced': True, 'input': s, 'detail': '%s raised %s, not MarshallingError' % (function, type(e).__name__)}
        want = G.py_ok(kind, s)
        return {'reproduced': accepted != want, 'input': s,
                'detail': 'validator %s %r; DBus grammar %s it' % ('accepts' if accepted else 'rejects', s,
                                                                  'allows' if want else 'forbids')}
    if function in CTORS:
        cls = getattr(message, function.split('.')[-2])
        import inspect
        sig = inspect.signature(cls.__init__)
        kw = {}
        for p in list(sig.parameters)[1:]:
            none_flag = model.get(p)            # optional params: first comp is the ?none flag
            if p in ('path', 'member', 'interface', 'destination', 'error_name', 'sender'):
                if isinstance(model.get(p), bool):
                    kw[p] = None if model.get(p) else model.get(p + '#1')
                elif p in model:
                    kw[p] = model[p]
        kw.setdefault('reply_serial', 1) if 'reply_serial' in sig.parameters else None
        try:
            m = cls(**kw)
        except Exception as e:
            return {'reproduced': False, 'input': kw, 'detail': 'construction raised %s' % type(e).__name__}
        bad = []
        for attr, kind in (('path', 'path'), ('interface', 'interface'), ('member', 'member'),
                           ('destination', 'bus'), ('error_name', 'error')):
            v = getattr(m, attr, None)
            if v is not None and not G.py_ok(kind, v):
                bad.append((attr, v))
        return {'reproduced': bool(bad), 'input': kw,
                'detail': '%s(%r) constructed carrying %r' % (cls.__name__, kw, bad)}
    return {'reproduced': False, 'detail': 'no replay rule for ' + function}


def bounded(tier, seed):
    """every string up to a length over an alphabet with one character of each class, through the five validators AND through
    the four message constructors (which reach the validators partly through the marshalling of the header, not under
    contract here), against the reference grammar (contracts/grammar.py PY regexes, written from the DBus specification)"""
    import itertools
    from txdbus import marshal, message
    from txdbus.error import MarshallingError
    alpha = ['/', 'a', 'Z', '1', '_', '.', ':', '-', '\u00e9', ' ']
    L = 5 if tier == 'thorough' else 4
    vals = [('path', marshal.validateObjectPath), ('interface', marshal.validateInterfaceName), ('error', marshal.validateErrorName),
            ('bus', marshal.validateBusName), ('member', marshal.validateMemberName)]
    n = 0
    strings = [''.join(t) for k in range(0, L + 1) for t in itertools.product(alpha, repeat=k)]
    strings += ['a.' * 127 + 'a', 'a.' * 127 + 'ab', ':1.' + 'a' * 252, ':1.' + 'a' * 253, '/' + 'a' * 300, 'a' * 255, 'a' * 256, ':.a', ':.1.2', 'a..b', '.a.b', 'a.b.']
    # one character from outside the name alphabets (control characters - a trailing line feed included -, punctuation, letters
    # and digits outside ASCII) at the front, in the middle and at the end of otherwise valid names of every kind
    bases = ['/a', '/a/b_1', 'a.b', 'org.x.Y1', '_a._b', ':1.2', ':a-b.c', 'a-b.c', 'Foo', '_', 'a1', 'a' * 254, 'a.' + 'b' * 252]
    foreign = ['\n', '\r', '\t', '\0', ' ', '\x7f', '@', '$', '+', '*', '\\', '"', "'", '~', '!', '#', '%', '=', ',', ';', '\u00e9', '\u0663', '\u00aa', '\u2028']
    for b in bases:
        for ch in foreign:
            strings += [b + ch, ch + b, b[:1] + ch + b[1:], b[:-1] + ch + b[-1:], b + ch + ch]
    for s_ in strings:
        for kind, fn in vals:
            n += 1
            try:
                fn(s_)
                acc = True
            except MarshallingError:
                acc = False
            except Exception as e:
                return n, '%s(%r) raised %s, not MarshallingError' % (fn.__name__, s_, type(e).__name__), {'validator': fn.__name__, 'string': s_}
            if acc != G.py_ok(kind, s_):
                return n, '%s %s %r; the DBus grammar %s it' % (fn.__name__, 'accepts' if acc else 'rejects', s_, 'allows' if G.py_ok(kind, s_) else 'forbids'), {'validator': fn.__name__, 'string': s_}
    # constructors: a message carrying a name its validator rejects cannot be constructed (sample: every 3rd string, plus specials)
    def build_all(path=None, iface=None, member=None, dest=None, err=None):
        out = []
        for what, mk in (('MethodCallMessage', lambda: message.MethodCallMessage('/p' if path is None else path, 'M' if member is None else member, interface=iface, destination=dest)),
                         ('SignalMessage', lambda: message.SignalMessage('/p' if path is None else path, 'M' if member is None else member, iface if iface is not None else 'a.b', destination=dest)),
                         ('MethodReturnMessage', lambda: message.MethodReturnMessage(1, destination=dest)),
                         ('ErrorMessage', lambda: message.ErrorMessage(err if err is not None else 'a.b', 1, destination=dest))):
            try:
                mk()
                out.append((what, True))
            except MarshallingError:
                out.append((what, False))
            except Exception as e:
                out.append((what, 'raised %s' % type(e).__name__))
        return out
    sample = strings[::3] + strings[-12:]
    for s_ in sample:
        for field, kind in (('path', 'path'), ('iface', 'interface'), ('member', 'member'), ('dest', 'bus'), ('err', 'error')):
            n += 1
            want = G.py_ok(kind, s_) and not (field == 'path' and s_ == '/org/freedesktop/DBus/Local')
            for what, ok in build_all(**{field: s_}):
                uses = {'path': ('MethodCallMessage', 'SignalMessage'), 'iface': ('MethodCallMessage', 'SignalMessage'), 'member': ('MethodCallMessage', 'SignalMessage'),
                        'dest': ('MethodCallMessage', 'SignalMessage', 'MethodReturnMessage', 'ErrorMessage'), 'err': ('ErrorMessage',)}[field]
                if what not in uses:
                    continue
                if ok is not True and ok is not False:
                    return n, '%s with %s=%r %s' % (what, field, s_, ok), {'class': what, 'field': field, 'string': s_}
                if ok != want:
                    return n, '%s with %s=%r %s; the grammar %s that name' % (what, field, s_, 'was constructed' if ok else 'was refused', 'allows' if want else 'forbids'), {'class': what, 'field': field, 'string': s_}
    return n, None, None


def run_bounded(tier, seed):
    n, f, inp = bounded(tier, seed)
    return {'tool': 'exhaustive short strings through the real validators and message constructors against the reference grammar',
            'bound': 'every string of length <= %d over a 10-character alphabet (one character per class: / letter digit _ . : - non-ASCII letter space) x 5 validators; every third of them x 5 name fields x the constructors that take the field; length-limit and empty-element specials; 13 valid names x 24 characters from outside the alphabets (control characters incl. line feed, punctuation, non-ASCII letters and digits) x 5 positions' % (5 if tier == 'thorough' else 4),
            'evaluations': n, 'failures': [] if not f else [{'function': 'txdbus.marshal validators / txdbus.message constructors', 'clause': 'grammar', 'input': inp, 'detail': f}]}


def build(tier='quick'):
    w = World()
    message_classes(w)
    add_validator_contracts(w)
    add_constructor_contracts(w)
    return Spec('C18', w, make_models, list(VALIDATORS) + CTORS, replay=replay, regular_strings=True,
                bounded=[{'name': 'names-enumeration', 'run': run_bounded}],
                trusted=['z3 regular-expression / string theory', 'python re character classes translated to z3 regex (\\d and str.isdigit taken as ASCII digits; non-ASCII digits get an unconstrained verdict)',
                         'exception message text is opaque'],
                assumed=['txdbus.message.DBusMessage._marshal: path header is encoded as ObjectPath and therefore validated (proved under C03 when claimed)'],
                explanation='each validator and constructor is loop-free: path-split symbolic execution of the real AST over a full-domain symbolic string/optional-string input, every clause discharged by z3 in the regular fragment',
                design_ref='DESIGN.md 4/C18')
