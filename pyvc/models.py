"""Models of builtins, library functions and methods of symbolic values.

Everything here is part of the *trusted base* (DESIGN 3.3): the equations are assumed, cross-checked
against CPython by sampling (pyvc.crosscheck), never proved.
"""
import ast
import binascii
import builtins
import codecs
import re
import struct
import types

import z3

from .values import *  # noqa
from . import values as _v
from . import strings as S
from .engine import PyRaise, PathEnd

U = {}


def ufun(name, *sorts):
    if name not in U:
        U[name] = z3.Function(name, *sorts)
    return U[name]


# struct formats used by txdbus: size, signed, spec function name
FMT = {'B': (1, False), 'h': (2, True), 'H': (2, False), 'i': (4, True), 'I': (4, False),
       'q': (8, True), 'Q': (8, False), 'd': (8, None)}


def packed(fmt_char, le, val):
    """spec function: bytes image of integer val (fixed(c, v, le) in DESIGN section 4)."""
    f = ufun('pack_' + fmt_char, BoolSort, IntSort, StringSort)
    return f(z3.BoolVal(le) if isinstance(le, bool) else le, val)


def unpacked(fmt_char, le, b):
    f = ufun('unpack_' + fmt_char, BoolSort, StringSort, IntSort)
    return f(z3.BoolVal(le) if isinstance(le, bool) else le, b)


def int_range(fmt_char):
    size, signed = FMT[fmt_char]
    if signed:
        return -(1 << (8 * size - 1)), (1 << (8 * size - 1)) - 1
    return 0, (1 << (8 * size)) - 1


def joinf(sep, seq):
    return ufun('join', StringSort, z3.SeqSort(StringSort), StringSort)(sep, seq)


class SplitFacts:
    """Trusted model of  L = s.split(sep)  (sep constant, non-empty), as facts over
       P(k) = L[0].sep. ... .L[k-1].sep   (the text consumed by the first k parts):
         step(k):    P(k+1) == P(k).L[k].sep                       (0 <= k < n-1)
         suffix(k):  s == P(k).join(sep, B)  where L == A.B, |A| = k  (0 <= k <= n-1)
         join(sep, [x]) == x ,  P(0) == ''
       Instantiated at index terms on request (no quantifier reaches the solver); decompositions
       are word equations with fresh sequence constants, not seq.extract."""
    def __init__(self, ctx, s, sep, L):
        self.ctx, self.s, self.sep, self.L = ctx, s, sep, L
        self.P = z3.Function('splitP!%d' % len(ctx.splits), IntSort, StringSort)
        self.n = z3.Length(L)
        self.done = set()
        ctx.assume(self.P(z3.IntVal(0)) == z3.StringVal(''))

    def step(self, k):
        k = z3.simplify(k)
        if ('s', k.get_id()) in self.done:
            return
        self.done.add(('s', k.get_id()))
        self.ctx.keep.append(k)
        L, n, P = self.L, self.n, self.P
        self.ctx.assume(z3.Implies(z3.And(k >= 0, k < n - 1), P(k + 1) == z3.Concat(P(k), L[k], self.sep)))

    def suffix(self, k):
        k = z3.simplify(k)
        if ('x', k.get_id()) in self.done:
            return
        self.done.add(('x', k.get_id()))
        self.ctx.keep.append(k)
        ctx, L, n, P = self.ctx, self.L, self.n, self.P
        A = ctx.fresh('split_A', L.sort())
        B = ctx.fresh('split_B', L.sort())
        ctx.decomps.register(L, A, B, k, z3.And(k >= 0, k <= n - 1))
        ctx.assume(z3.Implies(z3.And(k >= 0, k <= n - 1),
                              z3.And(L == z3.Concat(A, B), z3.Length(A) == k,
                                     self.s == z3.Concat(P(k), joinf(self.sep, B)),
                                     z3.Implies(z3.Length(B) == 1, joinf(self.sep, B) == B[0]))),
                   defines=[A, B])

    def at(self, k):
        self.step(k)
        self.suffix(k)


class Models:
    def __init__(self, world):
        self.world = world
        self.fn = {}
        self.extra_methods = {}
        self.instantiators = {}
        self.getattr_hooks = []
        self.setattr_hooks = []
        self.install_builtins()

    # ------------------------------------------------------------ registry
    def function_model(self, fn):
        try:
            return self.fn.get(fn)
        except TypeError:
            return None

    def register(self, fn, model):
        self.fn[fn] = model

    def getattr_hook(self, I, obj, name):
        for h in self.getattr_hooks:
            r = h(I, obj, name)
            if r is not None:
                return r
        return None

    def setattr_hook(self, I, obj, name, v):
        for h in self.setattr_hooks:
            if h(I, obj, name, v):
                return True
        return False

    def class_getattr(self, I, obj, name): return None

    def class_setattr(self, I, obj, name, v):
        raise OutOfSubset('store to class attribute %s.%s' % (obj.cls.__name__, name))

    # ------------------------------------------------------------ builtins
    def install_builtins(self):
        R = self.register
        R(len, self.m_len)
        R(isinstance, self.m_isinstance)
        R(hasattr, self.m_hasattr)
        R(getattr, self.m_getattr)
        R(setattr, lambda I, a, k: self.m_setattr(I, a, k))
        R(bool, lambda I, a, k: VBool(I.truthy(a[0])) if a else VBool(False))
        R(str, self.m_str)
        R(repr, lambda I, a, k: VOpaque('repr'))
        R(int, self.m_int)
        R(next, self.m_next)
        R(iter, lambda I, a, k: a[0])
        R(zip, self.m_zip)
        R(list, self.m_list)
        R(tuple, self.m_list)
        R(sorted, self.m_sorted)
        R(type, lambda I, a, k: self.m_type(I, a))
        R(ord, lambda I, a, k: VInt(z3.StrToCode(a[0].term)))
        R(abs, lambda I, a, k: VInt(z3.If(a[0].term < 0, -a[0].term, a[0].term)))
        R(struct.pack, self.m_pack)
        R(struct.unpack, self.m_unpack)
        R(struct.unpack_from, self.m_unpack_from)
        R(int.from_bytes, self.m_from_bytes)
        R(struct.calcsize, lambda I, a, k: VInt(struct.calcsize(I.concrete_str(a[0]))))
        R(codecs.encode, self.m_encode)
        R(codecs.decode, self.m_decode)
        R(binascii.hexlify, self.m_hexlify)
        R(binascii.unhexlify, self.m_unhexlify)
        R(object.__new__, lambda I, a, k: self.instantiate_raw(I, a[0].cls))
        R(enumerate, lambda I, a, k: self.m_enumerate(I, a))
        R(set, self.m_set)
        R(dict, self.m_dictctor)
        R(print, lambda I, a, k: VNone())

    def m_len(self, I, a, k):
        v = a[0]
        if isinstance(v, (VStr, VBytes)):
            return VLazyLen(v) if S.is_regular(v) else VInt(z3.Length(v.term), len_of=v)
        if isinstance(v, VTuple): return VInt(len(v.items))
        if isinstance(v, VList): return VInt(v.length())
        if isinstance(v, VEmptyList): return VInt(0)
        if isinstance(v, VGen): return self.m_len(I, [v.lst], k)
        if isinstance(v, VPyConst): return VInt(len(v.obj))
        if isinstance(v, (VNone, VInt, VBool, VRef)): I.raise_py(TypeError)
        if isinstance(v, VDyn):
            # a dynamically typed value: str (kind 2) and bytes (kind 4) have a length, None / int / bool raise TypeError,
            # any other object (kind 3) is outside the subset
            if I.ctx.branch(z3.Or(v.kind == 2, v.kind == 4)):
                return VInt(z3.Length(v.s))
            if I.ctx.branch(z3.Or(v.kind == 0, v.kind == 1)):
                I.raise_py(TypeError)
        raise OutOfSubset('len of %r' % (v,))

    def py_kind(self, v):
        """set of python base classes the value is known to be an instance of"""
        if isinstance(v, VBool): return (bool, int)
        if isinstance(v, VInt): return (int,)
        if isinstance(v, VStr): return (str,)
        if isinstance(v, VBytes): return (bytes,)
        if isinstance(v, VNone): return (type(None),)
        if isinstance(v, VTuple): return (tuple,)
        if isinstance(v, (VList, VEmptyList, VChunks)): return (list,)
        if isinstance(v, VDict): return (dict,)
        return None

    def m_isinstance(self, I, a, k):
        v, c = a
        classes = [c.cls] if isinstance(c, VClass) else [x.cls for x in c.items]
        if isinstance(v, VRef):
            live = I.live_class(v.cls)
            if live is None:
                raise OutOfSubset('isinstance on %r without live class' % (v,))
            return VBool(any(issubclass(live, cl) for cl in classes))
        if isinstance(v, VExc):
            return VBool(any(issubclass(v.cls, cl) for cl in classes))
        if isinstance(v, VDyn):
            conds = []
            for cl in classes:
                if cl is str: conds.append(v.kind == 2)
                elif cl is bytes: conds.append(v.kind == 4)
                elif cl in (int, bool): conds.append(v.kind == 1)
                elif cl is type(None): conds.append(v.kind == 0)
                else: raise OutOfSubset('isinstance of a dynamic value against %s' % cl.__name__)
            return VBool(z3.Or(conds))
        kinds = self.py_kind(v)
        if kinds is None:
            r = self.isinstance_other(I, v, classes)
            if r is not None:
                return r
            raise OutOfSubset('isinstance(%r, ...)' % (v,))
        return VBool(any(issubclass(kd, cl) for kd in kinds[:1] for cl in classes))

    def isinstance_other(self, I, v, classes): return None

    def m_hasattr(self, I, a, k):
        obj, name = a
        n = I.concrete_str(name)
        if isinstance(obj, VRef):
            key, ty = I.ctx.heap_key(obj.cls, n + '?set')
            if key is not None:            # presence-tracked optional attribute
                return VBool(I.ctx.heap_read(obj, n + '?set').term)
            owner, ty = I.world.field(obj.cls, n)
            if owner is not None:
                return VBool(True)
            live = I.live_class(obj.cls)
            return VBool(live is not None and hasattr(live, n))
        if isinstance(obj, VExc):
            return VBool(n in obj.fields or hasattr(obj.cls, n))
        if isinstance(obj, (VTuple, VList, VEmptyList, VStr, VBytes, VInt, VNone, VDict)):
            kinds = self.py_kind(obj)
            return VBool(hasattr(kinds[0], n))
        r = self.hasattr_other(I, obj, n)
        if r is not None:
            return r
        raise OutOfSubset('hasattr(%r, %s)' % (obj, n))

    def hasattr_other(self, I, obj, n): return None

    def m_getattr(self, I, a, k):
        obj, name = a[0], a[1]
        default = a[2] if len(a) > 2 else None
        if isinstance(name, VStr) and not S.is_const(name.term):
            return self.getattr_symbolic(I, obj, name, default)
        n = I.concrete_str(name)
        if default is not None:
            has = self.m_hasattr(I, [obj, name], {})
            if not I.ctx.branch(has.term):
                return default
        return I.getattr(obj, n)

    def getattr_symbolic(self, I, obj, name, default):
        raise OutOfSubset('getattr with a symbolic attribute name on %r' % (obj,))

    def m_setattr(self, I, a, k):
        obj, name, v = a
        I.setattr(obj, I.concrete_str(name), v)
        return VNone()

    def m_str(self, I, a, k):
        if not a: return VStr('')
        v = a[0]
        if isinstance(v, VStr): return v
        if isinstance(v, VInt): return self.int_to_str(I, v)
        return VOpaque('str()')

    def int_to_str(self, I, v):
        t = z3.simplify(v.term)
        if z3.is_int_value(t):
            return VStr(str(t.as_long()))
        # decimal rendering of a non-negative int is z3's int.to.str; negative handled by case
        if I.ctx.branch(v.term >= 0):
            return VStr(z3.IntToStr(v.term))
        return VStr(z3.Concat(z3.StringVal('-'), z3.IntToStr(-v.term)))

    def m_int(self, I, a, k):
        v = a[0]
        if isinstance(v, VInt): return v
        if isinstance(v, VBool): return VInt(z3.If(v.term, 1, 0))
        if isinstance(v, (VStr, VBytes)):
            # int(s): decimal digits (optionally signed / surrounded by whitespace are out of model)
            ok = z3.InRe(v.term, z3.Plus(z3.Range('0', '9')))
            if I.ctx.branch(ok):
                return VInt(z3.StrToInt(v.term))
            # anything else: either ValueError or a form we do not model
            f = I.ctx.fresh('int_other', BoolSort)
            if I.ctx.branch(f):
                I.raise_py(ValueError)
            return VInt(I.ctx.fresh('int_val', IntSort))
        raise OutOfSubset('int(%r)' % (v,))

    def m_next(self, I, a, k):
        g = a[0]
        if isinstance(g, VGen):
            items = I.iter_items(g.lst)
            if items is not None:
                if g.pos >= len(items):
                    if len(a) > 1: return a[1]
                    I.raise_py(StopIteration)
                g.pos += 1
                return items[g.pos - 1]
            lst = I.as_list(g.lst)
            if not I.ctx.branch(lst.length() > g.pos):
                if len(a) > 1: return a[1]
                I.raise_py(StopIteration)
            g.pos += 1
            return I.list_nth(lst, z3.IntVal(g.pos - 1))
        if isinstance(g, VList):
            # the result of a generator under contract (eager model): next() of a fresh generator is its first element
            if getattr(g, 'next_pos', 0) != 0:
                raise OutOfSubset('second next() on a generator result')
            if not I.ctx.branch(g.length() > 0):
                if len(a) > 1: return a[1]
                I.raise_py(StopIteration)
            g.next_pos = 1
            return I.list_nth(g, z3.IntVal(0))
        raise OutOfSubset('next(%r)' % (g,))

    def m_zip(self, I, a, k):
        ls = [I.iter_items(x) for x in a]
        if all(l is not None for l in ls):
            n = min(len(l) for l in ls)
            return VTuple([VTuple([l[i] for l in ls]) for i in range(n)])
        return self.zip_symbolic(I, a)

    def zip_symbolic(self, I, a):
        return VZip([I.as_list(x) for x in a])

    def m_list(self, I, a, k):
        if not a: return VEmptyList()
        items = I.iter_items(a[0])
        if items is not None:
            return VTuple(items)
        if isinstance(a[0], VList):
            return VList(a[0].t, list(a[0].seqs))
        if isinstance(a[0], VGen):
            return self.m_list(I, [a[0].lst], k)
        return self.list_of(I, a[0])

    def list_of(self, I, v):
        if isinstance(v, VDictView):
            return VDictView(v.d, v.kind, v.is_sorted)     # a snapshot of the view (the dict is value-semantic here)
        raise OutOfSubset('list(%r)' % (v,))

    def m_sorted(self, I, a, k):
        if isinstance(a[0], VDictView) and not k:
            return VDictView(a[0].d, a[0].kind, True)     # iteration order is not observed by the contracts
        raise OutOfSubset('sorted')

    def m_type(self, I, a):
        raise OutOfSubset('type()')

    def m_enumerate(self, I, a):
        items = I.iter_items(a[0])
        if items is None:
            return VEnum(I.as_list(a[0]))
        return VTuple([VTuple([VInt(i), x]) for i, x in enumerate(items)])

    def m_set(self, I, a, k):
        if not a:
            return VEmptyList()
        raise OutOfSubset('set(...)')

    def m_dictctor(self, I, a, k):
        if not a and not k:
            return VEmptyList()
        raise OutOfSubset('dict(...)')

    # ------------------------------------------------------------ struct / codecs / binascii
    def split_fmt(self, I, fmt):
        t = z3.simplify(fmt.term)
        if (not z3.is_string_value(t) and z3.is_app(t) and t.decl().kind() == z3.Z3_OP_SEQ_CONCAT
                and t.num_args() == 2 and z3.is_string_value(t.arg(1))):
            # <symbolic byte-order char> + 'I': split on the two byte orders txdbus uses; any other
            # value of the prefix is outside the model (that path is reported out of subset)
            pre = t.arg(0)
            k = I.ctx.choose([pre == z3.StringVal('<'), pre == z3.StringVal('>'),
                              z3.And(pre != z3.StringVal('<'), pre != z3.StringVal('>'))])
            if k == 2:
                raise OutOfSubset('struct format with a byte-order prefix other than < or >')
            fmt = VStr('<>'[k] + z3_unescape(t.arg(1).as_string()))
        f = I.concrete_str(fmt)
        if len(f) == 2 and f[0] in '<>' and f[1] in FMT:
            return f[0] == '<', f[1]
        raise OutOfSubset('struct format %r' % f)

    def m_pack(self, I, a, k):
        le, ch = self.split_fmt(I, a[0])
        v = a[1]
        size, signed = FMT[ch]
        if ch == 'd':
            if isinstance(v, VOpaque) and v.term is not None:
                t = ufun('pack_d', BoolSort, IntSort, StringSort)(z3.BoolVal(le), v.term)     # IEEE-754 image: uninterpreted
                I.ctx.assume(z3.Length(t) == 8)
                return VBytes(t)
            if isinstance(v, VOpaque):
                return VBytes(I.ctx.fresh('packed_d', StringSort))
            raise OutOfSubset('struct.pack d of %r' % (v,))
        vi = I.as_int(v)
        if vi is None:
            I.raise_py(struct.error)
        lo, hi = int_range(ch)
        if not I.ctx.branch(z3.And(vi >= lo, vi <= hi)):
            I.raise_py(struct.error)
        t = packed(ch, le, vi)
        I.ctx.assume(z3.Length(t) == size)
        return VBytes(t)

    def unpack_core(self, I, le, ch, b):
        size, signed = FMT[ch]
        t = unpacked(ch, le, b)
        lo, hi = int_range(ch) if ch != 'd' else (None, None)
        if lo is not None:
            I.ctx.assume(z3.And(t >= lo, t <= hi))
        return VInt(t)

    def m_unpack(self, I, a, k):
        f0 = z3.simplify(a[0].term)
        if z3.is_string_value(f0) and not (len(f0.as_string()) == 2 and f0.as_string()[0] in '<>'):
            return VOpaque('struct.unpack(%s)' % f0.as_string())      # e.g. '3i' peer credentials: not looked into
        le, ch = self.split_fmt(I, a[0])
        b = a[1]
        size = FMT[ch][0]
        if not I.ctx.branch(z3.Length(b.term) == size):
            I.raise_py(struct.error)
        return VTuple([self.unpack_core(I, le, ch, b.term)])

    def m_from_bytes(self, I, a, k):
        # int.from_bytes(b, 'little' | 'big') unsigned: any length (the empty string gives 0); agrees with the struct image for 1/2/4/8 bytes
        b = a[0]
        order = a[1] if len(a) > 1 else k.get('byteorder')
        if not isinstance(b, VBytes) or order is None or (k.get('signed') is not None):
            raise OutOfSubset('int.from_bytes form')
        o = I.concrete_str(order)
        if o not in ('little', 'big'):
            I.raise_py(ValueError)
        le = z3.BoolVal(o == 'little')
        t = ufun('from_bytes', BoolSort, StringSort, IntSort)(le, b.term)
        I.ctx.assume(z3.And(t >= 0, z3.Implies(z3.Length(b.term) == 0, t == 0)))
        for size, ch in ((1, 'B'), (2, 'H'), (4, 'I'), (8, 'Q')):
            I.ctx.assume(z3.Implies(z3.Length(b.term) == size, t == unpacked(ch, le, b.term)))
        return VInt(t)

    def m_unpack_from(self, I, a, k):
        le, ch = self.split_fmt(I, a[0])
        data, off = a[1], a[2] if len(a) > 2 else VInt(0)
        size = FMT[ch][0]
        n = z3.Length(data.term)
        # struct.unpack_from: negative offsets count from the end; too short -> struct.error
        if I.ctx.branch(off.term < 0):
            raise OutOfSubset('unpack_from with negative offset')
        if not I.ctx.branch(off.term + size <= n):
            I.raise_py(struct.error)
        m = S.slice_(I.ctx, data.term, off.term, off.term + size)
        return VTuple([self.unpack_core(I, le, ch, m)])

    def m_encode(self, I, a, k):
        s, enc = a[0], I.concrete_str(a[1])
        f = ufun('enc_' + enc.replace('-', ''), StringSort, StringSort)
        ok = ufun('encodable_' + enc.replace('-', ''), StringSort, BoolSort)
        if not isinstance(s, VStr):
            I.raise_py(TypeError)
        if not I.ctx.branch(ok(s.term)):
            I.raise_py(UnicodeEncodeError)
        t = f(s.term)
        return VBytes(t)

    def m_decode(self, I, a, k):
        b, enc = a[0], I.concrete_str(a[1])
        f = ufun('dec_' + enc.replace('-', ''), StringSort, StringSort)
        ok = ufun('decodable_' + enc.replace('-', ''), StringSort, BoolSort)
        if not I.ctx.branch(ok(b.term)):
            I.raise_py(UnicodeDecodeError)
        # trusted codec facts: ascii / latin-1 decode one character per byte, utf-8 at most one
        if enc in ('ascii', 'latin-1'):
            I.ctx.assume(z3.Length(f(b.term)) == z3.Length(b.term))
        elif enc == 'utf-8':
            I.ctx.assume(z3.Length(f(b.term)) <= z3.Length(b.term))
        return VStr(f(b.term))

    def m_hexlify(self, I, a, k):
        b = a[0]
        if isinstance(b, VDyn):                 # dynamically typed: bytes (kind 4) or TypeError
            if not I.ctx.branch(b.kind == 4):
                I.raise_py(TypeError)
            b = VBytes(b.s)
        if not isinstance(b, VBytes):
            I.raise_py(TypeError)
        f = ufun('hexlify', StringSort, StringSort)
        return VBytes(f(b.term))

    def m_unhexlify(self, I, a, k):
        b = a[0]
        ok = ufun('is_hex', StringSort, BoolSort)
        if not I.ctx.branch(ok(b.term)):
            I.raise_py(binascii.Error)
        f = ufun('unhexlify', StringSort, StringSort)
        return VBytes(f(b.term))

    # ------------------------------------------------------------ methods of values
    def method(self, I, recv, name, args, kwargs):
        key = (type(recv).__name__, name)
        m = getattr(self, 'meth_%s_%s' % key, None)
        if m is None and isinstance(recv, (VStr, VBytes)):
            m = getattr(self, 'meth_str_' + name, None)
            # a dynamically typed argument of a str method: its str view, TypeError otherwise
            new = []
            for x in args:
                if isinstance(x, VDyn):
                    if not I.ctx.branch(x.kind == 2):
                        I.raise_py(TypeError)
                    x = VStr(x.s)
                new.append(x)
            args = new
        if m is None:
            m = self.extra_methods.get(key)
        if m is None:
            if isinstance(recv, VOpaque):
                return VOpaque('method')
            if isinstance(recv, VPyConst):
                return self.pyconst_method(I, recv, name, args, kwargs)
            raise OutOfSubset('method %s.%s' % key)
        try:
            return m(I, recv, *args, **kwargs)
        except TypeError as e:
            if 'positional argument' in str(e) or 'unexpected keyword' in str(e) or 'required positional' in str(e):
                raise OutOfSubset('method %s.%s called with arguments its model does not cover (%s)' % (key[0], key[1], e))
            raise

    def pyconst_method(self, I, recv, name, args, kwargs):
        o = recv.obj
        if isinstance(o, dict):
            if name == 'get':
                d = args[1] if len(args) > 1 else VNone()
                return I.const_dict_lookup(o, args[0], default=d)
            if name == 'keys': return VTuple([const_to_v(x) for x in o.keys()])
            if name == 'values': return VTuple([const_to_v(x) for x in o.values()])
            if name == 'items': return VTuple([VTuple([const_to_v(a), const_to_v(b)]) for a, b in o.items()])
        if isinstance(o, re.Pattern) and name == 'search':
            s = args[0]
            if not isinstance(s, VStr):
                I.raise_py(TypeError)
            hit = S.re_search(s, o.pattern)
            return VBool(hit)          # truthiness is all txdbus uses of the match object
        raise OutOfSubset('method %s of live constant %r' % (name, type(o)))

    # str / bytes
    def meth_str_startswith(self, I, s, pre):
        return VBool(S.startswith(s, pre.term))

    def meth_str_endswith(self, I, s, suf):
        return VBool(S.endswith(s, suf.term))

    def meth_str_find(self, I, s, sub):
        return VInt(z3.IndexOf(s.term, sub.term, 0))

    def meth_str_isdigit(self, I, s):
        # ASCII digits are exact; a non-ASCII first character gets an unconstrained verdict
        ca = getattr(s, 'char_at', None)
        dig = z3.Range('0', '9')
        ascii_ = z3.Range(chr(0), chr(127))
        other = I.ctx.fresh('isdigit_nonascii', BoolSort)
        if ca is not None and S.is_regular(ca[0]):
            if ca[1] == 'first':
                isd = S.member(ca[0], z3.Concat(dig, S.ANY))
                asc = S.member(ca[0], z3.Concat(ascii_, S.ANY))
            else:
                isd = S.member(ca[0], z3.Concat(S.ANY, dig))
                asc = S.member(ca[0], z3.Concat(S.ANY, ascii_))
            return VBool(z3.Or(isd, z3.And(z3.Not(asc), other)))
        if S.is_regular(s):
            isd = S.member(s, z3.Plus(dig))
            asc = S.member(s, z3.Star(ascii_))
        else:
            isd = z3.InRe(s.term, z3.Plus(dig))
            asc = z3.InRe(s.term, z3.Star(ascii_))
        return VBool(z3.Or(isd, z3.And(z3.Not(asc), other)))

    def meth_str_strip(self, I, s, *a):
        f = ufun('strip', StringSort, StringSort)
        return type(s)(f(s.term))

    def meth_str_lower(self, I, s):
        t = z3.simplify(s.term)
        if z3.is_string_value(t):
            return VStr(z3_unescape(t.as_string()).lower())
        f = ufun('lower', StringSort, StringSort)
        return VStr(f(s.term))

    def meth_str_decode(self, I, b, *a, **k):
        if len(a) >= 2 or 'errors' in k:
            return VOpaque('decode-replace')
        enc = I.concrete_str(a[0]) if a else 'utf-8'
        return self.m_decode(I, [b, VStr(enc)], {})

    def meth_str_encode(self, I, s, *a, **k):
        enc = I.concrete_str(a[0]) if a else 'utf-8'
        errors = a[1] if len(a) > 1 else k.get('errors')
        if errors is not None:
            how = I.concrete_str(errors)
            if how in ('replace', 'ignore', 'backslashreplace', 'xmlcharrefreplace', 'namereplace'):
                # lossy error handlers never raise and produce text that decodes again in the same encoding
                t = ufun('enc_%s_%s' % (enc.replace('-', ''), how), StringSort, StringSort)(s.term)
                I.ctx.assume(ufun('decodable_' + enc.replace('-', ''), StringSort, BoolSort)(t))
                return VBytes(t)
            if how != 'strict':
                raise OutOfSubset('str.encode errors=%r' % how)
        return self.m_encode(I, [s, VStr(enc)], {})

    def meth_str_replace(self, I, s, *a):
        return VOpaque('replace')

    def meth_str_count(self, I, s, sub):
        f = ufun('count', StringSort, StringSort, IntSort)
        t = f(s.term, sub.term)
        I.ctx.assume(t >= 0)
        return VInt(t)

    def meth_str_join(self, I, sep, seq):
        if isinstance(seq, VChunks):
            if not (z3.is_string_value(z3.simplify(sep.term)) and z3.simplify(sep.term).as_string() == ''):
                if seq.items is None:
                    raise OutOfSubset('join of a chunk list with a non-empty separator')
                parts = []
                for i, t in enumerate(seq.items):
                    if i:
                        parts.append(sep.term)
                    parts.append(t)
                return VBytes(S.concat(parts))
            return VBytes(seq.flat)
        if isinstance(seq, VEmptyList):
            return type(sep)('' if isinstance(sep, VStr) else b'')
        items = I.iter_items(seq)
        if items is not None:
            parts = []
            for i, it in enumerate(items):
                if isinstance(it, VStr) != isinstance(sep, VStr) or isinstance(it, VBytes) != isinstance(sep, VBytes):
                    if isinstance(it, VOpaque):
                        return VOpaque('join')
                    I.raise_py(TypeError)
                if i:
                    parts.append(sep.term)
                parts.append(it.term)
            return type(sep)(S.concat(parts))
        return self.join_symbolic(I, sep, seq)


    def meth_str_split(self, I, s, *a):
        return self.split_model(I, s, a)

    def split_model(self, I, s, a):
        """bytes/str.split(sep) with a constant non-empty separator: a fresh list L with
        the trusted facts of pyvc.models.SplitFacts (instantiated on demand)."""
        if len(a) != 1 or not S.is_const(a[0].term) or S.const_of(a[0].term) == '':
            raise OutOfSubset('split() form')
        ctx = I.ctx
        L = ctx.fresh('split_L', z3.SeqSort(StringSort))
        ctx.assume(z3.Length(L) >= 1)
        rec = SplitFacts(ctx, s.term, a[0].term, L)
        ctx.splits.append(rec)
        return VList(BYTES if isinstance(s, VBytes) else STR, [L], origin=('local',))

    def join_symbolic(self, I, sep, seq):
        lst = I.as_list(seq)
        t = lst.seqs[0]
        r = joinf(sep.term, t)
        # join(sep, [x]) == x
        I.ctx.assume(z3.Implies(z3.Length(t) == 1, r == t[0]))
        return type(sep)(r) if isinstance(sep, VBytes) else VStr(r)

    def meth_str_format(self, I, s, *a, **k):
        return VOpaque('format')

    def str_format(self, I, a, b):
        """'%' formatting: exact for %s / %d with str / int operands on a concrete template."""
        tmpl = z3.simplify(a.term)
        if not z3.is_string_value(tmpl):
            return VOpaque('%')
        t = z3_unescape(tmpl.as_string())
        ops = b.items if isinstance(b, VTuple) else [b]
        parts, i, k = [], 0, 0
        while i < len(t):
            if t[i] == '%' and i + 1 < len(t):
                c = t[i + 1]
                if c == '%':
                    parts.append(z3.StringVal('%'))
                elif c in 'sd' and k < len(ops):
                    o = ops[k]
                    k += 1
                    if isinstance(o, VStr):
                        parts.append(o.term)
                    elif isinstance(o, (VInt, VBool)) and isinstance(o, VInt):
                        parts.append(self.int_to_str(I, o).term)
                    else:
                        return VOpaque('%')
                else:
                    return VOpaque('%')
                i += 2
            else:
                j = t.find('%', i)
                j = len(t) if j < 0 else j
                parts.append(z3.StringVal(t[i:j]))
                i = j
        if k != len(ops):
            I.raise_py(TypeError)
        return VStr(S.concat(parts))

    def str_repeat(self, I, a, n):
        t, nn = z3.simplify(a.term), z3.simplify(n)
        if z3.is_string_value(t) and z3.is_int_value(nn):
            return type(a)(z3.StringVal(z3_unescape(t.as_string()) * nn.as_long()))
        raise OutOfSubset('string repetition')

    def str_order(self, I, op, a, b):
        if isinstance(op, ast.Lt): return z3.StrLT(a.term, b.term) if hasattr(z3, 'StrLT') else a.term < b.term
        if isinstance(op, ast.LtE): return a.term <= b.term
        if isinstance(op, ast.Gt): return b.term < a.term
        if isinstance(op, ast.GtE): return b.term <= a.term

    # chunks / lists
    def meth_VChunks_append(self, I, c, b):
        if not isinstance(b, VBytes):
            raise OutOfSubset('append of %r to a chunk list' % (b,))
        c.flat = S.concat([c.flat, b.term])
        return VNone()

    def meth_VChunks_extend(self, I, c, o):
        if isinstance(o, VEmptyList):
            return VNone()
        if not isinstance(o, VChunks):
            raise OutOfSubset('extend of a chunk list with %r' % (o,))
        c.flat = S.concat([c.flat, o.flat])
        return VNone()

    def meth_VChunks_insert(self, I, c, i, b):
        if not (I.is_concrete_int(i) and I.concrete_int(i) == 0 and isinstance(b, VBytes)):
            raise OutOfSubset('chunk list insert other than at 0')
        c.flat = S.concat([b.term, c.flat])
        return VNone()

    def become(self, I, e, new):
        """An untyped `[]` takes its type from the first mutation: rebind every local alias."""
        for fr in I.frames:
            loc = fr.locals
            for d in ([loc, getattr(loc, 'parent', None)]):
                if d is None:
                    continue
                for k2 in list(d.keys()):
                    if d[k2] is e:
                        d[k2] = new
        e.becomes = new
        return new

    def meth_VEmptyList_append(self, I, e, v):
        if isinstance(v, VBytes):
            self.become(I, e, VChunks(v.term))
            return VNone()
        try:
            terms = v.terms()
            comps = v.T.comps()
        except (OutOfSubset, AttributeError):
            raise OutOfSubset('append of %r to an untyped list' % (v,))
        new = VList(v.T, [z3.Unit(t) for t in terms], origin=('local',))
        self.become(I, e, new)
        return VNone()

    def meth_VEmptyList_extend(self, I, e, o):
        if isinstance(o, VChunks):
            self.become(I, e, VChunks(o.flat))
            return VNone()
        if isinstance(o, VEmptyList):
            return VNone()
        raise OutOfSubset('extend of untyped list with %r' % (o,))

    def meth_VEmptyList_insert(self, I, e, i, v):
        return self.meth_VEmptyList_append(I, e, v)

    def meth_VList_append(self, I, l, v):
        I.list_append(l, v)
        return VNone()

    def meth_VList_insert(self, I, l, i, v):
        if I.is_concrete_int(i) and I.concrete_int(i) == 0:
            I.list_insert0(l, v)
            return VNone()
        raise OutOfSubset('list.insert at non-zero index')

    def meth_VList_pop(self, I, l, *a):
        n = l.length()
        if not I.ctx.branch(n > 0):
            I.raise_py(IndexError)
        ctx = I.ctx
        if not a or (I.is_concrete_int(a[0]) and I.concrete_int(a[0]) == -1):
            v = I.list_nth(l, n - 1)
            parent = list(l.seqs)
            new = [ctx.fresh('pop_rest', q.sort()) for q in parent]
            for q, r, t in zip(parent, new, v.terms() if not isinstance(v, VNone) else []):
                ctx.assume(q == z3.Concat(r, z3.Unit(t)))
                ctx.decomps.register(q, r, z3.Unit(t), z3.Length(q) - 1)
            l.view = (parent, z3.IntVal(0)) if getattr(l, 'view', None) is None else l.view
            l.seqs = new
        elif I.is_concrete_int(a[0]) and I.concrete_int(a[0]) == 0:
            v = I.list_nth(l, z3.IntVal(0))
            parent = list(l.seqs)
            new = [ctx.fresh('pop_rest', q.sort()) for q in parent]
            for q, r, t in zip(parent, new, v.terms()):
                ctx.assume(q == z3.Concat(z3.Unit(t), r))
            l.view = None
            l.seqs = new
        else:
            raise OutOfSubset('list.pop(i)')
        I.ctx.writeback(l)
        return v

    def meth_VList_remove(self, I, l, x):
        """list.remove(x): first occurrence removed  (l == A.[x].B, x not in A, l' == A.B); ValueError if absent."""
        if len(l.seqs) != 1:
            raise OutOfSubset('list.remove on a multi-component list')
        ctx = I.ctx
        q = l.seqs[0]
        xt = I.ctx.store_terms(x, l.t)[0]
        M = ctx.membership
        if not ctx.branch(M.mem(q, xt)):
            I.raise_py(ValueError)
        # an assumed unique-occurrence fact may only be used where its guard provably holds on this path
        known = [u for u in M.unique_occ if u[0].eq(q) and u[1].eq(xt)
                 and (len(u) < 5 or u[4] is None or not ctx.feasible(z3.Not(u[4])))]
        if known:
            # the path already knows the (unique) occurrence of x in q: the first occurrence is that one
            A, B = known[0][2], known[0][3]
        else:
            A = ctx.fresh('rm_A', q.sort())
            B = ctx.fresh('rm_B', q.sort())
            ctx.assume(z3.And(q == z3.Concat(A, z3.Unit(xt), B), z3.Not(M.mem(A, xt))), defines=[A, B])
            M.equation(q, z3.Concat(A, z3.Unit(xt), B))
        l.seqs = [z3.Concat(A, B)]
        l.view = None
        ctx.writeback(l)
        return VNone()

    def meth_VList_reverse(self, I, l):
        items = I.iter_items(l)
        if items is None:
            # symbolic length: rev(q) is uninterpreted with |rev(q)| == |q| and rev(q)[i] == q[|q|-1-i], instantiated at both
            # ends (what code that pops from the reversed list observes first)
            ctx = I.ctx
            new = []
            for q in l.seqs:
                f = z3.Function('rev_' + str(q.sort()), q.sort(), q.sort())
                r = f(q)
                n = z3.Length(q)
                ctx.assume(z3.Length(r) == n)
                ctx.assume(z3.Implies(n >= 1, z3.And(r[n - 1] == q[0], r[0] == q[n - 1])))
                new.append(r)
            l.seqs = new
            l.view = None
            ctx.writeback(l)
            return VNone()
        items = list(reversed(items))
        l.seqs = [z3.Concat(*[z3.Unit(i.terms()[ci]) for i in items]) if len(items) > 1 else
                  (z3.Unit(items[0].terms()[ci]) if items else z3.Empty(l.seqs[ci].sort())) for ci in range(len(l.seqs))]
        l.view = None
        I.ctx.writeback(l)
        return VNone()

    def meth_VTuple_keys(self, I, t): return t

    def meth_VDict_keys(self, I, d): return VDictView(d, 'keys')

    def meth_VDict_values(self, I, d): return VDictView(d, 'values')

    def meth_VDict_items(self, I, d): return VDictView(d, 'items')

    # dict
    def meth_VDict_get(self, I, d, key, default=None):
        k = I.coerce_key(d, key)
        if I.ctx.branch(I.ctx.dict_has(d, k)):
            return I.ctx.dict_get(d, k)
        return default if default is not None else VNone()

    def meth_VDict_pop(self, I, d, key, *default):
        k = I.coerce_key(d, key)
        if I.ctx.branch(I.ctx.dict_has(d, k)):
            v = I.ctx.dict_get(d, k)
            I.ctx.dict_del(d, k)
            return v
        if default:
            return default[0]
        I.raise_py(KeyError)

    def meth_VDict_add(self, I, d, key):
        I.ctx.dict_store(d, I.coerce_key(d, key), VNone())
        return VNone()

    def meth_VDict_remove(self, I, d, key):
        k = I.coerce_key(d, key)
        if not I.ctx.branch(I.ctx.dict_has(d, k)):
            I.raise_py(KeyError)
        I.ctx.dict_del(d, k)
        return VNone()

    # ------------------------------------------------------------ fall-backs (overridable)
    def unpack(self, I, v, n):
        if isinstance(v, (VNone, VInt, VBool)):
            I.raise_py(TypeError)
        raise OutOfSubset('unpacking of %r' % (v,))

    def setitem(self, I, obj, idx, v):
        raise OutOfSubset('item store on %r' % (obj,))

    def delitem(self, I, obj, idx):
        raise OutOfSubset('item delete on %r' % (obj,))

    def getitem(self, I, obj, idx):
        raise OutOfSubset('subscript of %r' % (obj,))

    def as_list(self, I, it):
        if isinstance(it, VDictView):
            ks = I.ctx.key_sequence(it.d)
            l = VList(it.d.k, [ks], origin=('local',))
            l.dictview = it
            return l
        if isinstance(it, VDict):
            return self.as_list(I, VDictView(it, 'keys'))
        raise OutOfSubset('iteration over %r' % (it,))

    def dict_display(self, I, pairs):
        raise OutOfSubset('dict display')

    def bitop(self, I, op, a, b):
        bs = z3.simplify(b)
        if isinstance(op, ast.BitAnd) and z3.is_int_value(bs):
            m = bs.as_long()
            # x & (2^k) for one bit: (x / 2^k) % 2 * 2^k ; x & (2^k - 1) = x % 2^k (x >= 0)
            if m > 0 and (m & (m - 1)) == 0:
                return VInt(((a / m) % 2) * m)
            if m > 0 and ((m + 1) & m) == 0:
                return VInt(a % (m + 1))
        if isinstance(op, ast.BitOr) and z3.is_int_value(bs):
            m = bs.as_long()
            if m > 0 and (m & (m - 1)) == 0:
                # a | bit = a + bit when the bit is clear
                return VInt(z3.If(((a / m) % 2) == 1, a, a + m))
        raise OutOfSubset('bit operation')

    def binop(self, I, op, a, b):
        if (isinstance(a, VNone) and isinstance(b, (VInt, VStr, VBytes, VNone))) or (isinstance(b, VNone) and isinstance(a, (VInt, VStr, VBytes))):
            I.raise_py(TypeError)            # None + 1, 'x' + None ...: unsupported operand types
        raise OutOfSubset('binary op %s on %r, %r' % (op.__class__.__name__, a, b))

    def equal(self, I, a, b):
        if isinstance(a, VOpaque) or isinstance(b, VOpaque):
            return None
        ka, kb = self.py_kind(a), self.py_kind(b)
        if ka and kb and ka[0] is not kb[0] and not (issubclass(ka[0], int) and issubclass(kb[0], int)):
            return z3.BoolVal(False)
        return None

    def contains(self, I, cont, item): return None

    def comprehension(self, I, e):
        if len(e.generators) != 1 or e.generators[0].is_async:
            raise OutOfSubset('nested comprehension')
        g = e.generators[0]
        items = I.iter_items(I.eval(g.iter))
        if items is None:
            return self.comprehension_symbolic(I, e)
        out = []
        saved = dict(I.fr.locals) if not hasattr(I.fr.locals, 'parent') else None
        for it in items:
            I.assign(g.target, it)
            if all(I.test(I.eval(c)) for c in g.ifs):
                out.append(I.eval(e.elt))
        if isinstance(e, ast.GeneratorExp):
            return VGen(VTuple(out))
        return VTuple(out)

    def comprehension_symbolic(self, I, e):
        """[f(x) for x in <symbolic list>] (no filter): a fresh list of the same length whose j-th element
        is f(src[j]) - the element relation is asserted at one arbitrary index j (skolem), i.e. for all."""
        g = e.generators[0]
        if g.ifs:
            raise OutOfSubset('filtered comprehension over a symbolic sequence')
        src = I.as_list(I.eval(g.iter))
        ctx = I.ctx
        j = ctx.fresh('cmp_j', IntSort)
        ctx.assume(z3.And(j >= 0, j < src.length()))
        I.assign(g.target, I.list_nth(src, j))
        v = I.eval(e.elt)
        try:
            comps = v.T.comps()
            terms = v.terms()
        except (OutOfSubset, AttributeError):
            raise OutOfSubset('comprehension element %r' % (v,))
        seqs = [ctx.fresh('cmp_R', z3.SeqSort(so)) for s_, so in comps]
        for q, t in zip(seqs, terms):
            ctx.assume(z3.And(z3.Length(q) == src.length(), q[j] == t))
        out = VList(v.T, seqs, origin=('local',))
        return VGen(out) if isinstance(e, ast.GeneratorExp) else out

    def list_slice(self, I, l, lo, hi):
        """l[lo:] as a word equation  l == A.R, |A| = lo  (needs 0 <= lo <= len provable)."""
        n = l.length()
        lo_t = lo.term if lo else z3.IntVal(0)
        if hi is not None:
            raise OutOfSubset('list slice with upper bound')
        ctx = I.ctx
        if ctx.feasible(z3.Not(z3.And(lo_t >= 0, lo_t <= n))):
            return VList(l.t, [z3.SubSeq(q, lo_t, n - lo_t) for q in l.seqs])
        A = [ctx.fresh('lsl_A', q.sort()) for q in l.seqs]
        R = [ctx.fresh('lsl_R', q.sort()) for q in l.seqs]
        for q, x, r in zip(l.seqs, A, R):
            ctx.assume(q == z3.Concat(x, r))
            ctx.assume(z3.Length(x) == lo_t)
            ctx.decomps.register(q, x, r, lo_t)
        out = VList(l.t, R)
        view = getattr(l, 'view', None)
        if view is not None:
            out.view = (view[0], view[1] + lo_t)
        return out

    def set_diff(self, I, a, b):
        raise OutOfSubset('set difference')

    def star_call(self, I, f, v, e):
        raise OutOfSubset('call with *symbolic-sequence')

    def kwargs_expand(self, I, v):
        raise OutOfSubset('call with **symbolic')

    def call_other(self, I, f, args, kwargs):
        raise OutOfSubset('call of %r' % (f,))

    def const_lookup(self, I, obj, idx):
        """hook: subscript of a live constant table with a symbolic key (None = default case split)"""
        return None

    def contract_exception(self, I, cls):
        """the exception object a callee raises according to its contract (fields unknown unless overridden)"""
        return VExc(cls, [])

    def instantiate_raw(self, I, cls):
        name = I.world.live_class_names.get(cls)
        if name is None:
            raise OutOfSubset('object.__new__(%s) of an unmodelled class' % cls.__name__)
        return I.ctx.new_ref(name)

    def instantiate(self, I, cls, args, kwargs):
        m = self.function_model(cls)           # builtins that are types: int, str, list, zip, enumerate ...
        if m is not None:
            return m(I, args, kwargs)
        if cls in self.instantiators:
            return self.instantiators[cls](I, args, kwargs)
        if isinstance(cls, type) and issubclass(cls, BaseException):
            init = cls.__dict__.get('__init__')
            exc = VExc(cls, args)
            if init is not None and isinstance(init, types.FunctionType):
                I.call(VFunc(init, exc), args, kwargs)      # by contract, or inlined (package code)
            return exc
        name = I.world.live_class_names.get(cls)
        if name is not None:
            ref = I.ctx.new_ref(name)
            init = getattr(cls, '__init__', None)
            if isinstance(init, types.FunctionType):
                I.call(VFunc(init, ref), args, kwargs)
            return ref
        if cls in (int, str, bool, list, tuple, dict, set):
            m = self.function_model(cls)
            if m:
                return m(I, args, kwargs)
        raise OutOfSubset('instantiation of %s' % cls.__name__)
