"""Proof driver: one function against its contract -> obligations -> SMT verdicts."""
import os
import subprocess
import tempfile
import time

import z3

from .values import *  # noqa
from .engine import (Ctx, Cx, explore, PyRaise, PathEnd, function_ast, Obligation)
from .interp import Interp

Z3_TIMEOUT_MS = int(os.environ.get('PYVC_Z3_MS', '20000'))
CVC5_TIMEOUT_S = int(os.environ.get('PYVC_CVC5_S', '30'))


class Verdict:
    def __init__(self, name, status, backend, secs, where='', kind='', model=None, detail='', npaths=1,
                 smt2=None):
        self.name, self.status, self.backend, self.secs = name, status, backend, secs
        self.where, self.kind, self.model, self.detail, self.npaths = where, kind, model, detail, npaths
        self.smt2 = smt2

    def as_dict(self):
        return {k: getattr(self, k) for k in ('name', 'status', 'backend', 'secs', 'where', 'kind',
                                              'model', 'detail', 'npaths')}


def model_value(m, t):
    try:
        v = m.eval(t, model_completion=True)
    except z3.Z3Exception:
        return None
    if z3.is_int_value(v): return v.as_long()
    if z3.is_true(v): return True
    if z3.is_false(v): return False
    if z3.is_string_value(v): return z3_unescape(v.as_string())
    return str(v)


from .smt import regex_fold


def smt_check(pc, goal, timeout_ms=None, want_model=None, use_cvc5=True):
    """(status, backend, secs, model) for pc |= goal ; status in discharged/refuted/undecided."""
    t0 = time.time()
    folded = regex_fold([z3.simplify(c) for c in pc] + [z3.simplify(z3.Not(goal))])
    if folded is not None:
        x, queries, bools = folded
        allunsat = True
        for q, asg in queries:
            s = z3.Solver()
            s.set('timeout', timeout_ms or Z3_TIMEOUT_MS)
            s.add(q)
            r = s.check()
            if r == z3.sat:
                m = s.model()
                vals = {}
                if want_model:
                    for k, t in want_model.items():
                        vals[k] = model_value(m, t)
                return 'refuted', 'z3-%s(regex-fold)' % z3.get_version_string(), time.time() - t0, vals, None
            if r != z3.unsat:
                allunsat = False
                break
        if allunsat:
            return 'discharged', 'z3-%s(regex-fold)' % z3.get_version_string(), time.time() - t0, None, None
    s = z3.Solver()
    s.set('timeout', timeout_ms or Z3_TIMEOUT_MS)
    for c in pc:
        s.add(c)
    s.add(z3.Not(goal))
    r = s.check()
    if r == z3.unsat:
        return 'discharged', 'z3-%s' % z3.get_version_string(), time.time() - t0, None, None
    if r == z3.sat:
        m = s.model()
        vals = {}
        if want_model:
            for k, t in want_model.items():
                vals[k] = model_value(m, t)
        return 'refuted', 'z3-%s' % z3.get_version_string(), time.time() - t0, vals, None
    reason = s.reason_unknown()
    if use_cvc5:
        st = cvc5_check(s)
        if st == 'unsat':
            return 'discharged', 'cvc5-1.0.3', time.time() - t0, None, None
    return 'undecided', 'z3+cvc5', time.time() - t0, None, reason


def cvc5_check(solver):
    try:
        txt = solver.to_smt2()
    except Exception:
        return 'error'
    txt = txt.replace('(set-info :status unknown)', '')
    txt = '(set-logic ALL)\n' + txt
    fd, path = tempfile.mkstemp(suffix='.smt2', dir=os.environ.get('PYVC_TMP', None))
    try:
        with os.fdopen(fd, 'w') as f:
            f.write(txt)
        p = subprocess.run(['/usr/bin/cvc5', '--strings-exp', '--tlimit=%d' % (CVC5_TIMEOUT_S * 1000), path],
                           capture_output=True, text=True, timeout=CVC5_TIMEOUT_S + 10)
        out = p.stdout.strip().split('\n')[0] if p.stdout.strip() else ''
        return out if out in ('sat', 'unsat', 'unknown') else 'error'
    except Exception:
        return 'error'
    finally:
        try:
            os.unlink(path)
        except OSError:
            pass


class FunctionReport:
    def __init__(self, contract):
        info = function_ast(contract.fn)
        self.name = contract.name
        self.file, self.start, self.end, self.sha256 = info['file'], info['start'], info['end'], info['sha256']
        self.verdicts = []
        self.paths = 0
        self.feasible_ends = 0
        self.oos = []
        self.secs = 0.0
        self.error = None
        self.raise_paths = {}
        self.feas_unknown = 0

    def as_dict(self):
        return {'name': self.name, 'file': self.file, 'lines': [self.start, self.end], 'sha256': self.sha256,
                'paths': self.paths, 'feasible_end_paths': self.feasible_ends, 'out_of_subset': self.oos,
                'secs': round(self.secs, 3), 'error': self.error,
                'obligations': [v.as_dict() for v in self.verdicts]}


def prove_function(world, make_models, contract, timeout_ms=None, arg_terms_out=None):
    """Symbolically execute contract.fn under contract.requires and check every obligation."""
    rep = FunctionReport(contract)
    t0 = time.time()
    c = contract
    want = {}

    def run_path(ctx):
        I = Interp(ctx, make_models(world))
        ctx.heap0 = {}
        args = {}
        for pname, ty in c.params.items():
            v = ctx.fresh_of('arg_' + pname, ty)
            for i, t in enumerate(v.terms()):
                want['%s%s' % (pname, '' if i == 0 else '#%d' % i)] = t
            args[pname] = ctx.load(v)
        cx = Cx(ctx, args, ctx.heap0, None)
        ctx.cx0 = cx
        if c.requires:
            for nm, g in c.requires(cx):
                ctx.assume(g)
        heap_entry = dict(ctx.heap)

        def hook(fr):
            fr.args0 = dict(args)
            fr.dec0 = c.decreases(cx) if c.decreases else None
            fr.depth0 = c.depth[0](cx) if c.depth else None
            if c.depth:
                ctx.oblige('stack-depth-bounded', z3.And(fr.depth0 >= 0, fr.depth0 <= c.depth[1]), kind='depth')

        outcome, val = 'return', None
        try:
            val = I.run_function(c.fn, [], dict(args), contract=c, frame_hook=hook)
        except PyRaise as pr:
            outcome, val = 'raise', pr.exc
        cxe = Cx(ctx, args, ctx.heap0, ctx.heap, val if outcome == 'return' else None,
                 exc=val if outcome == 'raise' else None)
        if outcome == 'return':
            if c.ensures:
                for nm, g in c.ensures(cxe):
                    ctx.oblige('post:' + nm, g, kind='post')
            if c.raises and not c.may_raise_any:
                # returning normally is only allowed when no exception was mandatory
                pass
        else:
            matched = False
            for ecls, when in c.raises.items():
                if issubclass(val.cls, ecls):
                    matched = True
                    ctx.oblige('raises:%s' % ecls.__name__, when(cxe), kind='raises')
                    if ecls in c.raises_post:
                        for nm, g in c.raises_post[ecls](cxe):
                            ctx.oblige('raises-post:%s:%s' % (ecls.__name__, nm), g, kind='post')
                    break
            if not matched:
                if not c.may_raise_any:
                    ctx.oblige('no-unexpected-exception:%s' % val.cls.__name__, z3.BoolVal(False), kind='raises')
        frame_obligations(ctx, c, cxe)
        return outcome, val

    try:
        results = explore(world, run_path)
    except OutOfSubset as e:
        rep.error = 'out of subset: %s' % e
        rep.secs = time.time() - t0
        return rep
    rep.paths = len(results)
    # group obligations by name across paths
    grouped = {}
    for r in results:
        rep.feas_unknown += r.feas_unknown
        if r.outcome == 'oos':
            rep.oos.append(r.value)
            continue
        if r.outcome in ('return', 'raise'):
            rep.feasible_ends += 1
            if r.outcome == 'raise':
                rep.raise_paths[r.value.cls.__name__] = rep.raise_paths.get(r.value.cls.__name__, 0) + 1
        for o in r.obligations:
            grouped.setdefault(o.name, []).append(o)
    for name, obls in grouped.items():
        status, backend, secs, model, detail = 'discharged', '', 0.0, None, ''
        for o in obls:
            if z3.is_true(z3.simplify(o.goal)):
                st, be, sc, mo, de = 'discharged', 'simplifier', 0.0, None, None
            else:
                st, be, sc, mo, de = smt_check(o.pc, o.goal, timeout_ms, want)
            secs += sc
            backend = be if not backend or be == backend else backend + '+' + be
            if st == 'refuted':
                status, model = 'refuted', mo
                break
            if st == 'undecided':
                status, detail = 'undecided', de or ''
        rep.verdicts.append(Verdict(name, status, backend, round(secs, 3), obls[0].where, obls[0].kind,
                                    model, detail, len(obls)))
    rep.secs = time.time() - t0
    return rep


def frame_obligations(ctx, c, cx):
    """Every heap component not covered by `modifies` must be unchanged; point-modifies are
    checked as new == old with stores at the listed references only."""
    allowed = {}
    if c.modifies:
        for ref, fld in c.modifies(cx):
            cls, f = fld.split('.')
            key, ty = ctx.heap_key(cls, f)
            for s, so in ty.comps():
                allowed.setdefault(key + s, []).append(ref)
    for k, arr in ctx.heap.items():
        base = ctx.heap0.get(k)
        if base is None:
            base = z3.Const('H0:' + k, arr.sort())
        if arr.eq(base):
            continue
        refs = allowed.get(k)
        if refs is None:
            ctx.oblige('frame:%s' % k, arr == base, kind='frame')
        elif any(isinstance(r, str) for r in refs):
            continue
        else:
            expect = base
            for r in refs:
                expect = z3.Store(expect, r.term, z3.Select(arr, r.term))
            ctx.oblige('frame:%s' % k, arr == expect, kind='frame')
