"""Proof driver: one function against its contract -> obligations -> SMT verdicts."""
import os
import subprocess
import tempfile
import time

import z3

from .values import *  # noqa
from .engine import (Ctx, Cx, explore, PyRaise, PathEnd, function_ast, Obligation)
from .interp import Interp

Z3_TIMEOUT_MS = int(os.environ.get('PYVC_Z3_MS', '20000'))
CVC5_TIMEOUT_S = int(os.environ.get('PYVC_CVC5_S', '30'))


class Verdict:
    def __init__(self, name, status, backend, secs, where='', kind='', model=None, detail='', npaths=1,
                 smt2=None):
        self.name, self.status, self.backend, self.secs = name, status, backend, secs
        self.where, self.kind, self.model, self.detail, self.npaths = where, kind, model, detail, npaths
        self.smt2 = smt2

    def as_dict(self):
        return {k: getattr(self, k) for k in ('name', 'status', 'backend', 'secs', 'where', 'kind',
                                              'model', 'detail', 'npaths')}


def model_value(m, t):
    try:
        v = m.eval(t, model_completion=True)
    except z3.Z3Exception:
        return None
    if z3.is_int_value(v): return v.as_long()
    if z3.is_true(v): return True
    if z3.is_false(v): return False
    if z3.is_string_value(v): return z3_unescape(v.as_string())
    return str(v)


from .smt import regex_fold


def symbols_of(f, cache={}):
    k = f.get_id()
    if k in cache and cache[k][0].eq(f):
        return cache[k][1]
    out = set()
    todo = [f]
    seen = set()
    while todo:
        x = todo.pop()
        if x.get_id() in seen:
            continue
        seen.add(x.get_id())
        if z3.is_app(x):
            if x.num_args() == 0 and x.decl().kind() == z3.Z3_OP_UNINTERPRETED:
                out.add(x.decl().name())
            todo.extend(x.children())
        elif z3.is_quantifier(x):
            todo.append(x.body())
    if len(cache) > 20000:
        cache.clear()
    cache[k] = (f, out)
    return out


def cone_of_influence(pc, goal):
    syms = [symbols_of(c) for c in pc]
    want = set(symbols_of(goal))
    chosen = [False] * len(pc)
    changed = True
    while changed:
        changed = False
        for i, ss in enumerate(syms):
            if not chosen[i] and (ss & want or not ss):
                chosen[i] = True
                if not ss <= want:
                    want |= ss
                    changed = True
    return [c for c, ch in zip(pc, chosen) if ch]


def relevance_layers(pc, goal, hops=(1, 2, 3, 4, 6)):
    syms = [symbols_of(c) for c in pc]
    dist = [None] * len(pc)
    want = set(symbols_of(goal))
    h = 0
    layers = []
    maxh = max(hops)
    while h < maxh:
        h += 1
        new = set()
        for i, ss in enumerate(syms):
            if dist[i] is None and (ss & want or not ss):
                dist[i] = h
                new |= ss
        want |= new
        if h in hops:
            layers.append([c for c, d in zip(pc, dist) if d is not None])
    return layers


def bool_simplify(f, lits):
    """Shallow boolean simplification under known literals (no rewriting of theory atoms)."""
    if z3.is_true(f) or z3.is_false(f):
        return f
    k = f.get_id()
    if k in lits:
        return z3.BoolVal(lits[k])
    if not z3.is_app(f):
        return f
    kind = f.decl().kind()
    if kind == z3.Z3_OP_NOT:
        c = bool_simplify(f.arg(0), lits)
        if z3.is_true(c): return z3.BoolVal(False)
        if z3.is_false(c): return z3.BoolVal(True)
        return z3.Not(c)
    if kind == z3.Z3_OP_AND:
        cs = [bool_simplify(c, lits) for c in f.children()]
        if any(z3.is_false(c) for c in cs): return z3.BoolVal(False)
        cs = [c for c in cs if not z3.is_true(c)]
        return z3.And(cs) if len(cs) > 1 else (cs[0] if cs else z3.BoolVal(True))
    if kind == z3.Z3_OP_OR:
        cs = [bool_simplify(c, lits) for c in f.children()]
        if any(z3.is_true(c) for c in cs): return z3.BoolVal(True)
        cs = [c for c in cs if not z3.is_false(c)]
        return z3.Or(cs) if len(cs) > 1 else (cs[0] if cs else z3.BoolVal(False))
    if kind == z3.Z3_OP_IMPLIES:
        a, b = bool_simplify(f.arg(0), lits), bool_simplify(f.arg(1), lits)
        if z3.is_false(a) or z3.is_true(b): return z3.BoolVal(True)
        if z3.is_true(a): return b
        return z3.Implies(a, b)
    if kind == z3.Z3_OP_ITE and z3.is_bool(f):
        c = bool_simplify(f.arg(0), lits)
        if z3.is_true(c): return bool_simplify(f.arg(1), lits)
        if z3.is_false(c): return bool_simplify(f.arg(2), lits)
        return z3.If(c, bool_simplify(f.arg(1), lits), bool_simplify(f.arg(2), lits))
    return f


def focused_query(pc, goal, defs):
    """Unit-propagate literal facts through the assumptions, then keep the non-definitional
    assumptions plus exactly those definitions whose defined symbols are mentioned (fixpoint).
    A subset / weakening of the assumptions: unsat here is unsat of the full query."""
    lits = {}
    for c in pc:
        a, v = c, True
        while z3.is_app(a) and a.decl().kind() == z3.Z3_OP_NOT:
            a, v = a.arg(0), not v
        if z3.is_bool(a) and z3.is_app(a) and a.decl().kind() not in (z3.Z3_OP_AND, z3.Z3_OP_OR, z3.Z3_OP_IMPLIES, z3.Z3_OP_ITE):
            lits.setdefault(a.get_id(), v)
    plain, definitional = [], []
    for c in pc:
        d = defs.get(c.get_id()) if defs else None
        if d is not None and d[0].eq(c):
            definitional.append((c, d[1]))
            continue
        a = c
        while z3.is_app(a) and a.decl().kind() == z3.Z3_OP_NOT:
            a = a.arg(0)
        if a.get_id() in lits and not (z3.is_app(a) and a.decl().kind() in (z3.Z3_OP_AND, z3.Z3_OP_OR)):
            plain.append(c)            # the literal itself
            continue
        sc = bool_simplify(c, lits)
        if not z3.is_true(sc):
            plain.append(sc)
    g = bool_simplify(goal, lits)
    syms = set(symbols_of(g))
    for c in plain:
        syms |= symbols_of(c)
    chosen = []
    changed = True
    rest = list(definitional)
    while changed:
        changed = False
        for item in list(rest):
            c, names = item
            if names & syms:
                sc = bool_simplify(c, lits)
                chosen.append(sc)
                syms |= symbols_of(sc)
                rest.remove(item)
                changed = True
    return plain + chosen, g


def smt_check(pc, goal, timeout_ms=None, want_model=None, use_cvc5=True, defs=None, deadline_s=None):
    """(status, backend, secs, model) for pc |= goal ; status in discharged/refuted/undecided."""
    t0 = time.time()
    folded = regex_fold([z3.simplify(c) for c in pc] + [z3.simplify(z3.Not(goal))])
    if folded is not None:
        x, queries, bools = folded
        allunsat = True
        for q, asg in queries:
            s = z3.Solver()
            s.set('timeout', timeout_ms or Z3_TIMEOUT_MS)
            s.add(q)
            r = s.check()
            if r == z3.sat:
                m = s.model()
                vals = {}
                if want_model:
                    for k, t in want_model.items():
                        vals[k] = model_value(m, t)
                return 'refuted', 'z3-%s(regex-fold)' % z3.get_version_string(), time.time() - t0, vals, None
            if r != z3.unsat:
                allunsat = False
                break
        if allunsat:
            return 'discharged', 'z3-%s(regex-fold)' % z3.get_version_string(), time.time() - t0, None, None
    # stage 1: select-free (Ackermannised) variant of the query, by growing relevance layers, then whole.
    # stage 2: the original query by relevance layers.  unsat of a weaker/abstracted query is unsat of the
    # original (sound); sat answers are only ever taken from the original, complete query below.
    from .smt import deselect
    deadline = t0 + float(deadline_s or os.environ.get('PYVC_DEADLINE_S', '60'))

    def left():
        return deadline - time.time()
    # stage 0: focused query (literals propagated, only the definitions that are referred to)
    try:
        fq, fg = focused_query(pc, goal, defs)
        fflat = deselect(fq + [z3.Not(fg)])
        # small focused queries go to the solver whole: a sub-layer that lacks a length bound is satisfiable only by
        # very long strings, which z3's sequence solver constructs slowly and without honouring its timeout
        layers = [] if len(fq) <= 15 else relevance_layers(fflat[:-1] if len(fflat) == len(fq) + 1 else fflat, fg)
        tried_cvc5 = False
        for hops in ([None] + layers):
            s = z3.Solver()
            # (the whole focused query gets the larger share: on a slower or busier machine a query that needs 3 s here needs 8 s there)
            s.set('timeout', min(timeout_ms or Z3_TIMEOUT_MS, 10000 if hops is None else 3000))
            for c in (fflat if hops is None else hops + [fflat[len(fq)]]):
                s.add(c)
            if s.check() == z3.unsat:
                return 'discharged', 'z3-%s(focused %d/%d)' % (z3.get_version_string(), len(fq), len(pc)), time.time() - t0, None, None
            if hops is None and has_seq_terms(fflat):
                # the sequence solver's verdict on one and the same query varies with its random seed and with the order of the
                # assertions (most runs: unsat in a fraction of a second; some: unknown): a few cheap re-tries first
                for attempt, seed in enumerate((3, 17, 101)):
                    s3 = z3.Solver()
                    s3.set('timeout', 6000)
                    s3.set('random_seed', seed)
                    k = (attempt + 1) * 3 % max(1, len(fflat))
                    for c in fflat[k:] + fflat[:k]:
                        s3.add(c)
                    if s3.check() == z3.unsat:
                        return 'discharged', 'z3-%s(focused %d/%d, seed %d)' % (z3.get_version_string(), len(fq), len(pc), seed), time.time() - t0, None, None
            if hops is None and use_cvc5 and has_seq_terms(fflat) and left() > 6:
                # the other solver gets the whole focused query right after z3's first attempt, before z3's layered retries eat
                # the budget (z3's sequence solver is unstable on identical input; cvc5 decides many of the same queries in seconds)
                tried_cvc5 = True
                if cvc5_formulas(fflat, max(2, min(10, int(left() / 2)))) == 'unsat':
                    return 'discharged', 'cvc5-1.0.3(focused %d/%d)' % (len(fq), len(pc)), time.time() - t0, None, None
        if not tried_cvc5 and use_cvc5 and has_seq_terms(fflat) and left() > 3 and cvc5_formulas(fflat, max(2, min(10, int(left() / 2)))) == 'unsat':
            return 'discharged', 'cvc5-1.0.3(focused %d/%d)' % (len(fq), len(pc)), time.time() - t0, None, None
    except z3.Z3Exception:
        pass
    neg = z3.Not(goal)
    try:
        flat = deselect(list(pc) + [neg])
    except z3.Z3Exception:
        flat = None
    budget = min(timeout_ms or Z3_TIMEOUT_MS, 4000)
    if left() < 12:
        flat = None            # out of time for the secondary stages: go straight to the complete query
    if flat is not None:
        fpc, fneg = flat[:len(pc)], flat[len(pc)]
        extra = flat[len(pc) + 1:]
        prev = -1
        for rel in relevance_layers(fpc + extra, z3.Not(fneg)) + [fpc + extra]:
            if len(rel) == prev:
                continue
            prev = len(rel)
            s = z3.Solver()
            s.set('timeout', budget)
            for c in rel:
                s.add(c)
            s.add(fneg)
            if s.check() == z3.unsat:
                return 'discharged', 'z3-%s(select-free, %d/%d assumptions)' % (z3.get_version_string(), len(rel), len(pc)), time.time() - t0, None, None
    if flat is not None and use_cvc5 and has_seq_terms(flat) and left() > 10:
        if cvc5_formulas(flat, max(2, min(15, int(left() / 2)))) == 'unsat':
            return 'discharged', 'cvc5-1.0.3(select-free)', time.time() - t0, None, None
    prev = -1
    for rel in (relevance_layers(pc, goal) if left() > 12 else []):
        if len(rel) == prev or len(rel) >= len(pc):
            continue
        prev = len(rel)
        s = z3.Solver()
        s.set('timeout', budget)
        for c in rel:
            s.add(c)
        s.add(neg)
        if s.check() == z3.unsat:
            return 'discharged', 'z3-%s(relevant %d/%d)' % (z3.get_version_string(), len(rel), len(pc)), time.time() - t0, None, None
    s = z3.Solver()
    s.set('timeout', int(max(3000, min(timeout_ms or Z3_TIMEOUT_MS, left() * 1000))))
    for c in pc:
        s.add(c)
    s.add(z3.Not(goal))
    r = s.check()
    if r == z3.unsat:
        return 'discharged', 'z3-%s' % z3.get_version_string(), time.time() - t0, None, None
    if r == z3.sat:
        m = s.model()
        vals = {}
        if want_model:
            for k, t in want_model.items():
                vals[k] = model_value(m, t)
        return 'refuted', 'z3-%s' % z3.get_version_string(), time.time() - t0, vals, None
    reason = s.reason_unknown()
    if use_cvc5 and left() > 3:
        st = cvc5_check(s, max(2, int(left())))
        if st == 'unsat':
            return 'discharged', 'cvc5-1.0.3', time.time() - t0, None, None
    # last resort for 'unknown' (not for timeouts): the sequence solver is sensitive to the order of its input and to its random
    # seed - the same focused query, assertions rotated, other seeds, while the obligation's deadline allows
    try:
        fq, fg = focused_query(pc, goal, defs)
        base = deselect(fq + [z3.Not(fg)])
        for attempt, seed in enumerate((3, 17, 101, 4242)):
            if left() < 4:
                break
            s3 = z3.Solver()
            s3.set('timeout', int(min(5000, left() * 1000 / 2)))
            s3.set('random_seed', seed)
            k = (attempt + 1) * 3 % max(1, len(base))
            for c in base[k:] + base[:k]:
                s3.add(c)
            if s3.check() == z3.unsat:
                return 'discharged', 'z3-%s(focused %d/%d, retry seed %d)' % (z3.get_version_string(), len(fq), len(pc), seed), time.time() - t0, None, None
    except z3.Z3Exception:
        pass
    if os.environ.get('PYVC_DUMP'):
        import hashlib
        try:
            fq, fg = focused_query(pc, goal, defs)
            s2 = z3.Solver()
            for c in fq:
                s2.add(c)
            s2.add(z3.Not(fg))
            txt = s2.to_smt2()
            with open(os.path.join(os.environ['PYVC_DUMP'], 'undecided-%s.smt2' % hashlib.sha1(txt.encode()).hexdigest()[:10]), 'w') as f:
                f.write('; goal: %s\n' % fg.sexpr().replace('\n', ' ')[:2000])
                f.write(txt)
        except Exception:
            pass
    return 'undecided', 'z3+cvc5', time.time() - t0, None, reason


def has_seq_terms(formulas):
    return any('seq.' in f.sexpr() or 'str.' in f.sexpr() for f in formulas)


def cvc5_formulas(formulas, tlimit_s):
    s = z3.Solver()
    for f in formulas:
        s.add(f)
    return cvc5_check(s, tlimit_s)


def cvc5_check(solver, tlimit_s=None):
    try:
        txt = solver.to_smt2()
    except Exception:
        return 'error'
    txt = txt.replace('(set-info :status unknown)', '')
    txt = '(set-logic ALL)\n' + txt
    fd, path = tempfile.mkstemp(suffix='.smt2', dir=os.environ.get('PYVC_TMP', None))
    try:
        with os.fdopen(fd, 'w') as f:
            f.write(txt)
        tl = tlimit_s or CVC5_TIMEOUT_S
        p = subprocess.run(['/usr/bin/cvc5', '--strings-exp', '--tlimit=%d' % (tl * 1000), path],
                           capture_output=True, text=True, timeout=tl + 10)
        out = p.stdout.strip().split('\n')[0] if p.stdout.strip() else ''
        return out if out in ('sat', 'unsat', 'unknown') else 'error'
    except Exception:
        return 'error'
    finally:
        try:
            os.unlink(path)
        except OSError:
            pass


def serialize_query(o, want):
    """One obligation as text: assertions = path condition (in order) then NOT goal."""
    s = z3.Solver()
    for c in o.pc:
        s.add(c)
    s.add(z3.Not(o.goal))
    defs = {}
    for i, c in enumerate(o.pc):
        d = o.defs.get(c.get_id()) if o.defs else None
        if d is not None and d[0].eq(c):
            defs[i] = sorted(d[1])
    wants = {k: (t.sexpr(), t.sort().sexpr()) for k, t in (want or {}).items() if z3.is_const(t)}
    return {'smt2': s.to_smt2(), 'n': len(o.pc), 'defs': defs, 'want': wants}


def solve_serialized(arg):
    q, timeout_ms = arg[:2]
    deadline_s = arg[2] if len(arg) > 2 else None
    try:
        # the whole run's budget for solver work (PYVC_T0 is set by ./check): past it, queries get a short deadline; on the unchanged
        # tree the slowest check finishes in less than half of it
        t0 = float(os.environ.get('PYVC_T0', '0'))
        if t0 and time.time() - t0 > float(os.environ.get('PYVC_RUN_BUDGET_S', '420')):
            deadline_s = min(deadline_s or 8.0, 8.0)
    except ValueError:
        pass
    return _solve_serialized(q, timeout_ms, deadline_s)


def _solve_serialized(q, timeout_ms, deadline_s):
    fs = list(z3.parse_smt2_string(q['smt2']))
    if len(fs) != q['n'] + 1:
        # z3 may merge / split assertions when printing: fall back to a single undifferentiated query
        pc, neg = fs[:-1], fs[-1]
    else:
        pc, neg = fs[:q['n']], fs[q['n']]
    goal = neg.arg(0) if z3.is_app(neg) and neg.decl().kind() == z3.Z3_OP_NOT else z3.Not(neg)
    defs = {}
    for i, names in q['defs'].items():
        i = int(i)
        if i < len(pc):
            defs[pc[i].get_id()] = (pc[i], frozenset(names))
    want = {}
    for k, (name, sort) in q['want'].items():
        srt = {'Int': z3.IntSort(), 'Bool': z3.BoolSort(), 'String': z3.StringSort()}.get(sort)
        if srt is not None:
            want[k] = z3.Const(name.strip('|'), srt)
    return smt_check(pc, goal, timeout_ms, want, defs=defs, deadline_s=deadline_s)


class FunctionReport:
    def __init__(self, contract):
        info = function_ast(contract.fn)
        self.name = contract.name
        self.file, self.start, self.end, self.sha256 = info['file'], info['start'], info['end'], info['sha256']
        self.verdicts = []
        self.paths = 0
        self.feasible_ends = 0
        self.oos = []
        self.secs = 0.0
        self.error = None
        self.raise_paths = {}
        self.return_paths = 0
        self.live_return_paths = 0
        self.has_ensures = False
        self.feas_unknown = 0

    def as_dict(self):
        return {'name': self.name, 'file': self.file, 'lines': [self.start, self.end], 'sha256': self.sha256,
                'paths': self.paths, 'feasible_end_paths': self.feasible_ends, 'return_paths': self.return_paths, 'live_return_paths': self.live_return_paths, 'has_ensures': self.has_ensures, 'out_of_subset': self.oos,
                'secs': round(self.secs, 3), 'error': self.error,
                'obligations': [v.as_dict() for v in self.verdicts]}


def prove_function(world, make_models, contract, timeout_ms=None, arg_terms_out=None, inner_jobs=1):
    """Symbolically execute contract.fn under contract.requires and check every obligation."""
    rep = FunctionReport(contract)
    rep.has_ensures = bool(contract.ensures) and not contract.asserts_raise
    t0 = time.time()
    c = contract
    want = {}

    def run_path(ctx):
        I = Interp(ctx, make_models(world))
        ctx.heap0 = {}
        args = {}
        for pname, ty in c.params.items():
            v = ctx.fresh_of('arg_' + pname, ty)
            for i, t in enumerate(v.terms()):
                want['%s%s' % (pname, '' if i == 0 else '#%d' % i)] = t
            args[pname] = ctx.load(v)
        cx = Cx(ctx, args, ctx.heap0, None)
        arg0 = {n: list(v.terms()) for n, v in args.items() if isinstance(v, (VList, VDict))}
        cx.arg0 = arg0
        ctx.cx0 = cx
        if c.requires:
            for nm, g in c.requires(cx):
                ctx.assume(g)
        if c.invariants:
            for nm, g in c.invariants(cx):
                ctx.assume(g)
        heap_entry = dict(ctx.heap)

        def hook(fr):
            fr.args0 = dict(args)
            fr.dec0 = c.decreases(cx) if c.decreases else None
            fr.depth0 = c.depth[0](cx) if c.depth else None
            if c.depth:
                ctx.oblige('stack-depth-bounded', z3.And(fr.depth0 >= 0, fr.depth0 <= c.depth[1]), kind='depth')

        outcome, val = 'return', None
        try:
            if c.nested:
                import ast as _ast
                from .engine import function_ast
                parent = function_ast(c.fn)['node']
                inner = [n for n in _ast.walk(parent) if isinstance(n, _ast.FunctionDef) and n.name == c.nested and n is not parent]
                if len(inner) != 1:
                    raise OutOfSubset('nested function %s not found exactly once in %s' % (c.nested, c.name))
                fobj = getattr(c.fn, '__func__', c.fn)
                env_ = dict(args)
                clo = VClosure(inner[0], env_, fobj.__globals__, fobj.__qualname__ + '.' + c.nested)
                env_[c.nested] = clo            # the inner function may refer to itself
                val = I.call_closure(clo, [args[a.arg] for a in inner[0].args.args], {}, contract=c, frame_hook=hook)
            else:
                val = I.run_function(c.fn, [], dict(args), contract=c, frame_hook=hook)
            if c.epilogue is not None:
                c.epilogue(I)
        except PyRaise as pr:
            outcome, val = 'raise', pr.exc
        cxe = Cx(ctx, args, ctx.heap0, ctx.heap, val if outcome == 'return' else None,
                 exc=val if outcome == 'raise' else None)
        cxe.arg0 = arg0
        # in-place mutation of a container argument the contract does not list is a frame violation
        for n, t0 in arg0.items():
            if n not in c.mutates:
                now = args[n].terms()
                if any(not a.eq(b) for a, b in zip(now, t0)):
                    ctx.oblige('frame:argument-%s-not-mutated' % n, z3.And([a == b for a, b in zip(now, t0)]), kind='frame')
        if outcome == 'return':
            if c.ensures:
                for nm, g in c.ensures(cxe):
                    ctx.oblige('post:' + nm, g, kind='post')
            if c.raises and not c.may_raise_any:
                # returning normally is only allowed when no exception was mandatory
                pass
        else:
            named = tuple(k for k in c.raises if k not in (Exception, BaseException))
            if getattr(val, 'implicit', False) and not issubclass(val.cls, tuple(getattr(c, 'allow_implicit', ()) or (type(None),)) + named):
                # raised by a primitive of the function's own body (None attribute, index, key, type
                # error ...), not by a callee: never covered by a blanket `raises Exception`
                ctx.oblige('no-implicit-exception:%s' % val.cls.__name__, z3.BoolVal(False), kind='raises')
            matched = False
            for ecls, when in c.raises.items():
                if issubclass(val.cls, ecls):
                    matched = True
                    ctx.oblige('raises:%s' % ecls.__name__, when(cxe), kind='raises')
                    if ecls in c.raises_post:
                        for nm, g in c.raises_post[ecls](cxe):
                            ctx.oblige('raises-post:%s:%s' % (ecls.__name__, nm), g, kind='post')
                    break
            if not matched:
                if not c.may_raise_any:
                    ctx.oblige('no-unexpected-exception:%s' % val.cls.__name__, z3.BoolVal(False), kind='raises')
        frame_obligations(ctx, c, cxe)
        return outcome, val

    try:
        results = explore(world, run_path)
    except OutOfSubset as e:
        rep.error = 'out of subset: %s' % e
        rep.secs = time.time() - t0
        return rep
    rep.paths = len(results)
    # group obligations by name across paths
    grouped = {}
    for r in results:
        rep.feas_unknown += r.feas_unknown
        if r.outcome == 'oos':
            rep.oos.append(r.value)
            continue
        if r.outcome in ('return', 'raise'):
            rep.feasible_ends += 1
            if r.outcome == 'return':
                rep.return_paths += 1
                # vacuity guard: is at least one normally returning path satisfiable?  (an assumption that contradicts a
                # callee's postcondition makes every obligation after it hold trivially)
                if rep.live_return_paths == 0:
                    try:
                        sv_ = z3.Solver()
                        sv_.set('timeout', 3000)
                        for x_ in r.pc:
                            sv_.add(x_)
                        if sv_.check() != z3.unsat:
                            rep.live_return_paths += 1
                    except z3.Z3Exception:
                        rep.live_return_paths += 1
            if r.outcome == 'raise':
                rep.raise_paths[r.value.cls.__name__] = rep.raise_paths.get(r.value.cls.__name__, 0) + 1
        for o in r.obligations:
            grouped.setdefault(o.name, []).append(o)
    # discharge: trivial goals by the simplifier, the rest as independent SMT queries - serialised
    # to SMT-LIB and spread over `inner_jobs` worker processes when there are enough of them
    flatq = []
    for name, obls in grouped.items():
        for o in obls:
            flatq.append((name, o))
    results = [None] * len(flatq)
    hard = []
    for i, (name, o) in enumerate(flatq):
        if z3.is_true(z3.simplify(o.goal)):
            results[i] = ('discharged', 'simplifier', 0.0, None, None)
        else:
            hard.append(i)
    if inner_jobs > 1 and len(hard) >= 4:
        import concurrent.futures as cf
        import multiprocessing as mp
        payload = [serialize_query(flatq[i][1], want) for i in hard]
        with cf.ProcessPoolExecutor(max_workers=min(inner_jobs, len(hard)), mp_context=mp.get_context('spawn')) as ex:
            # two phases: when most of a first batch already runs into the per-obligation deadline (a changed function
            # under an unchanged contract), the remaining queries get a short deadline - they are reported as
            # undecided either way, and the check ends in minutes instead of (obligations x deadline / workers)
            nfirst = min(len(hard), 2 * inner_jobs)

            def gather(args):
                # z3's sequence solver sometimes ignores its own timeout and the deadline (a model with a very long string to build:
                # minutes of CPU, gigabytes).  The parent watches: when NO query has finished for the deadline plus 150 s, the workers
                # that are left are stuck - they are killed and what they held is undecided.  (Done from the parent, not by a thread
                # inside the worker: Python's collector running on a second thread would release z3 terms during a solver call.)
                stall = float(os.environ.get('PYVC_DEADLINE_S', '60')) + 150.0
                futs = [ex.submit(solve_serialized, a) for a in args]
                pending = set(futs)
                last = time.time()
                while pending:
                    done_, pending = cf.wait(pending, timeout=5.0, return_when=cf.FIRST_COMPLETED)
                    if done_:
                        last = time.time()
                    elif time.time() - last > stall:
                        for pr in list(getattr(ex, '_processes', {}).values()):
                            try:
                                pr.kill()
                            except Exception:
                                pass
                        break
                out = []
                for f_ in futs:
                    try:
                        out.append(f_.result(timeout=30) if f_.done() else ('undecided', 'solver worker stuck', 0.0, None, 'worker killed after ignoring its deadline'))
                    except Exception as e_:
                        out.append(('undecided', 'solver worker ended (%s)' % type(e_).__name__, 0.0, None, 'worker ended'))
                return out
            first = gather([(p, timeout_ms) for p in payload[:nfirst]])
            slow = sum(1 for r in first if r[0] == 'undecided')
            short = 8.0 if (slow >= 4 and 2 * slow >= nfirst) else None
            try:
                rest = gather([(p, timeout_ms, short) for p in payload[nfirst:]])
            except Exception as e_:
                rest = [('undecided', 'solver pool broken (%s)' % type(e_).__name__, 0.0, None, 'pool broken')] * len(payload[nfirst:])
            for i, r in zip(hard, first + rest):
                results[i] = r
    else:
        for i in hard:
            o = flatq[i][1]
            results[i] = smt_check(o.pc, o.goal, timeout_ms, want, defs=o.defs)
    by_name = {}
    for (name, o), r in zip(flatq, results):
        by_name.setdefault(name, []).append((o, r))
    for name, lst in by_name.items():
        status, backend, secs, model, detail = 'discharged', '', 0.0, None, ''
        for o, (st, be, sc, mo, de) in lst:
            secs += sc
            backend = be if not backend or be == backend else (backend if be in backend else backend + '+' + be)
            if st == 'refuted':
                status, model = 'refuted', mo
                break
            if st == 'undecided':
                status, detail = 'undecided', de or ''
        o0 = lst[0][0]
        rep.verdicts.append(Verdict(name, status, backend, round(secs, 3), o0.where, o0.kind,
                                    model, detail, len(lst)))
    rep.secs = time.time() - t0
    return rep


def frame_obligations(ctx, c, cx):
    """Every heap component not covered by `modifies` must be unchanged; point-modifies are
    checked as new == old with stores at the listed references only."""
    allowed = {}
    if c.modifies:
        for ref, fld in c.modifies(cx):
            cls, f = fld.split('.')
            key, ty = ctx.heap_key(cls, f)
            for s, so in ty.comps():
                allowed.setdefault(key + s, []).append(ref)
    for k, arr in ctx.heap.items():
        base = ctx.heap0.get(k)
        if base is None:
            base = z3.Const('H0:' + k, arr.sort())
        if arr.eq(base):
            continue
        refs = allowed.get(k)
        # objects allocated during this call (negative references) are not part of the caller's pre-state
        fresh = [z3.IntVal(-i) for i in range(1, getattr(ctx, 'new_refs', 0) + 1)]
        if refs is None:
            expect = base
            for t in fresh:
                expect = z3.Store(expect, t, z3.Select(arr, t))
            ctx.oblige('frame:%s' % k, arr == expect, kind='frame')
        elif any(isinstance(r, str) for r in refs):
            continue
        else:
            expect = base
            for r in refs:
                expect = z3.Store(expect, r.term, z3.Select(arr, r.term))
            for t in fresh:
                expect = z3.Store(expect, t, z3.Select(arr, t))
            ctx.oblige('frame:%s' % k, arr == expect, kind='frame')
