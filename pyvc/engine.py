"""Forward symbolic execution of real Python function ASTs with path splitting (pyvc core).

One *path* = one run of the function body following a list of branch decisions; the explorer
re-runs the body once per decision prefix (deterministic fresh-symbol naming makes the runs
agree on their common prefix).  Obligations are (name, path-condition, goal) triples.
"""
import ast
import inspect
import textwrap
import hashlib
import os
import sys
import time
import types
import builtins

import z3

from .values import *  # noqa
from . import values as _v

FEAS_TIMEOUT_MS = int(os.environ.get('PYVC_FEAS_MS', '1500'))
BRANCH_STATS = {} if os.environ.get('PYVC_BRANCH_STATS') else None     # debug: where paths fork (statement line -> forks)


# ------------------------------------------------------------------------- control signals
class ReturnSig(Exception):
    def __init__(self, value): self.value = value


class BreakSig(Exception):
    pass


class ContinueSig(Exception):
    pass


class PyRaise(Exception):
    """A Python exception travelling through the symbolic execution."""
    def __init__(self, exc): self.exc = exc


class PathEnd(Exception):
    """The current path is finished (loop-iteration cut, infeasible, assumed false)."""


class Obligation:
    __slots__ = ('name', 'pc', 'goal', 'where', 'kind', 'defs')

    def __init__(self, name, pc, goal, where='', kind='post', defs=None):
        self.name, self.pc, self.goal, self.where, self.kind = name, pc, goal, where, kind
        self.defs = defs or {}


class ClassSpec:
    """Field table of a class as seen by the contracts (sidecar, not an edit of /repo)."""
    def __init__(self, name, live=None, fields=None, bases=(), methods=None, init=None):
        self.name, self.live, self.fields, self.bases = name, live, dict(fields or {}), bases
        self.init = dict(init or {})           # field -> python constant stored at allocation
        self.methods = dict(methods or {})     # interface methods: name -> stub function (contract keyed by it)


class World:
    """Everything static for one verification run: class specs, contracts, models."""
    def __init__(self):
        self.classes = {}        # name -> ClassSpec
        self.contracts = {}      # id(live function) -> Contract
        self.by_name = {}        # dotted name -> Contract
        self.inline = set()      # id(live function) allowed to be inlined
        self.live_class_names = {}   # live class -> spec name

    def add_class(self, spec):
        self.classes[spec.name] = spec
        if spec.live is not None:
            self.live_class_names[spec.live] = spec.name

    def field(self, cls, name):
        seen = set()
        stack = [cls]
        while stack:
            c = stack.pop(0)
            if c in seen or c not in self.classes:
                continue
            seen.add(c)
            sp = self.classes[c]
            if name in sp.fields:
                return c, sp.fields[name]
            stack.extend(sp.bases)
        return None, None

    def method(self, cls, name):
        seen, stack = set(), [cls]
        while stack:
            c = stack.pop(0)
            if c in seen or c not in self.classes:
                continue
            seen.add(c)
            sp = self.classes[c]
            if name in sp.methods:
                return sp.methods[name]
            stack.extend(sp.bases)
        return None

    def add_contract(self, c):
        self.contracts[id(c.fn)] = c
        self.by_name[c.name] = c

    def contract_for(self, fn):
        fn = getattr(fn, '__func__', fn)
        return self.contracts.get(id(fn))


class LoopSpec:
    def __init__(self, invariant=None, variant=None, modifies=None, ghost_index=None, unroll=False,
                 havoc_extra=()):
        self.invariant, self.variant, self.modifies = invariant, variant, modifies
        self.ghost_index, self.unroll, self.havoc_extra = ghost_index, unroll, havoc_extra


class Contract:
    def __init__(self, name, fn, params, result=None, requires=None, ensures=None, raises=None,
                 modifies=None, loops=None, decreases=None, depth=None, assumed=False,
                 raises_post=None, pure=False, locals_types=None, cls=None, ghost_args=None,
                 may_raise_any=False, notes='', allow_implicit=(), mutates=(), asserts_raise=False, invariants=None, rec_group=None, epilogue=None, nested=None, on_yield=None):
        self.on_yield = on_yield            # lambda cx, yielded-so-far VList, value: ghost facts at each yield of a generator under contract
        self.nested = nested                # name of a function defined inside fn: the target is that inner function; its free variables are declared as parameters
        self.epilogue = epilogue            # lambda I: ghost code run after a normal return, before the postconditions (e.g. firing registered callbacks)
        self.rec_group = rec_group          # mutually recursive functions sharing one `decreases` measure
        self.name, self.fn = name, getattr(fn, '__func__', fn)
        self.params, self.result = params, result
        self.requires, self.ensures = requires, ensures
        self.raises = raises or {}          # exc class -> lambda cx: BoolRef (allowed when)
        self.raises_post = raises_post or {}  # exc class -> lambda cx: [(name, BoolRef)]
        self.modifies = modifies            # lambda cx: [(VRef|'*', 'Class.field')]
        self.loops = loops or {}
        self.decreases = decreases          # lambda cx: Int term (on entry state)
        self.depth = depth                  # (lambda cx: Int term, bound)
        self.assumed = assumed              # never proved (library / out of subset): listed
        self.pure = pure
        self.cls = cls
        self.may_raise_any = may_raise_any
        self.allow_implicit = tuple(allow_implicit)
        self.locals_types = locals_types or {}
        self.asserts_raise = asserts_raise
        self.invariants = invariants      # lambda cx: [(name, BoolRef)] - instances of a data-structure invariant established elsewhere: assumed on entry, never a call-site obligation (listed as assumed)
        self.mutates = tuple(mutates)     # list/dict PARAMETERS the function may mutate in place
        self.notes = notes


# ---------------------------------------------------------------------------------- context
class HeapView:
    def __init__(self, ctx, heap, ref):
        object.__setattr__(self, '_c', (ctx, heap, ref))

    def __getattr__(self, name):
        ctx, heap, ref = self._c
        v = ctx.heap_read(ref, name, heap=heap, split=False)
        if isinstance(v, (VInt, VBool, VStr, VBytes, VRef, VOpaque)):
            return v.term
        return v


class Cx:
    """What a contract clause sees."""
    def __init__(self, ctx, args, old_heap, new_heap=None, result=None, L=None, exc=None):
        self.ctx, self.args, self._old, self._new = ctx, args, old_heap, new_heap
        self.result, self.L, self.exc = result, L, exc
        self.w = ctx.world
        self.arg0 = {}        # entry-state terms of mutable container arguments (name -> [terms])

    def old_arg(self, name):
        """terms of a list/dict argument as they were on entry"""
        return self.arg0.get(name, self.args[name].terms())

    def a(self, name):
        v = self.args[name]
        return v.term if hasattr(v, 'term') and not isinstance(v, VOpaque) else v

    def old(self, ref): return HeapView(self.ctx, self._old, ref)

    def new(self, ref): return HeapView(self.ctx, self._new if self._new is not None else self._old, ref)

    def unchanged(self, *fieldkeys):
        """whole-field frame clause: the heap arrays of Class.field are equal before and after"""
        out = []
        new = self._new if self._new is not None else self._old
        for fk in fieldkeys:
            cls, f = fk.split('.')
            key, ty = self.ctx.heap_key(cls, f)
            for sfx, so in ty.comps():
                a = self.ctx.heap_arrays(key, ty, new)
                b = self.ctx.heap_arrays(key, ty, self._old)
            out += [x == y for x, y in zip(a, b)]
        return z3.And(out) if out else z3.BoolVal(True)

    def l(self, name):
        v = self.L[name]
        return v.term if hasattr(v, 'term') else v


class Ctx:
    def __init__(self, world, decisions=()):
        self.world = world
        self.decisions = list(decisions)
        self.pos = 0
        self.taken = []
        self.alternatives = []
        self.pc = []
        self.obligations = []
        self.heap = {}
        self.heap0 = None
        self.nfresh = {}
        self.solver = z3.Solver()
        self.solver.set('timeout', FEAS_TIMEOUT_MS)
        self.slice_cache = {}
        self.notes = []
        self.fn_stack = []
        self.loop_ordinals = {}
        self.new_refs = 0
        self.covers = set()
        self.self_contract = None
        self.rec_calls = []
        self.wf_done = set()
        self.keep = []
        self.feas_unknown = 0
        self.splits = []
        self.defs = {}
        self.decomps = Decomps(self)
        self.membership = Membership(self)
        self.elem_facts = []       # [(seq term, fn(index term, element term) -> Bool)]: quantified callee postconditions, instantiated at element reads

    # ---- fresh symbols / path condition
    def fresh(self, name, sort):
        n = self.nfresh.get(name, 0)
        self.nfresh[name] = n + 1
        return z3.Const('%s!%d' % (name, n), sort)

    def skolem(self, name, sort):
        """A named arbitrary constant shared by every contract evaluated on this path: a callee's
        'for every x' postcondition is thereby instantiated at the caller's x (sound: instantiation
        of a universally quantified fact); in the callee's own proof the constant is unconstrained."""
        if not hasattr(self, '_skolems'):
            self._skolems = {}
        if name not in self._skolems:
            self._skolems[name] = z3.Const('sk_' + name, sort)
        return self._skolems[name]

    def fresh_of(self, name, ty):
        return ty.wrap([self.fresh(name + s, so) for s, so in ty.comps()])

    def assume(self, cond, defines=None):
        """defines: names of the fresh symbols this formula merely DEFINES (slice parts, lemma
        instances ...).  Such a formula is only put into a query that mentions one of them."""
        if z3.is_true(cond):
            return
        self.pc.append(cond)
        if defines:
            self.defs[cond.get_id()] = (cond, frozenset(str(d) for d in defines))

    def feasible(self, cond=None):
        """May this path condition (plus cond) be satisfiable?  Decided on an over-approximating
        abstraction (pyvc.smt.Abstractor), except in regular-string mode where regex folding is exact."""
        if cond is not None and z3.is_false(z3.simplify(cond)):
            return False
        from .smt import fold_check, Abstractor
        from . import strings as S
        if S.REGULAR_MODE:
            r = fold_check(self.pc + ([cond] if cond is not None else []), FEAS_TIMEOUT_MS)
            if r is not None and r != z3.unknown:
                return r == z3.sat
        if not hasattr(self, 'absr'):
            self.absr = Abstractor()
            self.abs_solver = z3.Solver()
            self.abs_solver.set('timeout', FEAS_TIMEOUT_MS)
            self.abs_done = 0
            self.abs_side = 0
        while self.abs_done < len(self.pc):
            self.abs_solver.add(self.absr.abs(self.pc[self.abs_done]))
            self.abs_done += 1
        self.abs_solver.push()
        if cond is not None:
            self.abs_solver.add(self.absr.abs(cond))
        for sd in self.absr.side[self.abs_side:]:
            self.abs_solver.add(sd)
        r = self.abs_solver.check()
        self.abs_solver.pop()
        while self.abs_side < len(self.absr.side):     # side facts (lengths >= 0) are permanent
            self.abs_solver.add(self.absr.side[self.abs_side])
            self.abs_side += 1
        if r == z3.unknown:
            self.feas_unknown += 1
        return r != z3.unsat

    def choose(self, conds, labels=None):
        """n-way decision: conds are mutually exclusive guards; returns the index taken."""
        if self.pos < len(self.decisions):
            k = self.decisions[self.pos]
            self.pos += 1
            self.taken.append(k)
            self.assume(conds[k])
            return k
        feas = [k for k, c in enumerate(conds) if self.feasible(c)]
        if not feas:
            raise PathEnd()
        k = feas[0]
        for alt in feas[1:]:
            self.alternatives.append(self.taken + [alt])
        if BRANCH_STATS is not None and len(feas) > 1:
            w_ = getattr(self, 'where', None)
            BRANCH_STATS[w_] = BRANCH_STATS.get(w_, 0) + len(feas) - 1
        self.taken.append(k)
        self.pos += 1
        self.assume(conds[k])
        return k

    def branch(self, cond):
        # simplify only to detect literals: the rewritten form (seq.nth -> nth_i/nth_u ITEs, ...) is
        # not what the rest of the path condition talks about, so the original term goes into the pc
        cs = z3.simplify(cond)
        if z3.is_true(cs): return True
        if z3.is_false(cs): return False
        return self.choose([cond, z3.Not(cond)]) == 0

    def oblige(self, name, goal, kind='post'):
        where = self.fn_stack[-1] if self.fn_stack else ''
        self.obligations.append(Obligation(name, list(self.pc), goal, where, kind, self.defs))

    # ---- heap
    def heap_key(self, cls, field):
        owner, ty = self.world.field(cls, field)
        if owner is None:
            return None, None
        return owner + '.' + field, ty

    def heap_arrays(self, key, ty, heap=None):
        heap = self.heap if heap is None else heap
        arrs = []
        for s, so in ty.comps():
            k = key + s
            if k not in heap:
                heap[k] = z3.Const('H0:' + k, z3.ArraySort(IntSort, so))
                if self.heap0 is not None and heap is self.heap:
                    self.heap0.setdefault(k, heap[k])
            arrs.append(heap[k])
        return arrs

    def heap_read(self, ref, field, heap=None, split=True):
        key, ty = self.heap_key(ref.cls, field)
        if key is None:
            raise OutOfSubset('no field %s on %s' % (field, ref.cls))
        arrs = self.heap_arrays(key, ty, heap)
        terms = [select_store(a, ref.term) for a in arrs]
        v = ty.wrap(terms)
        origin = (ref, field)
        return self.load(v, origin, split)

    def load(self, v, origin=None, split=True):
        """Post-process a value taken out of storage: split optionals, attach write-back."""
        if isinstance(v, VOpt):
            if not split:
                return v
            if self.branch(v.none):
                return VNone()
            return self.load(v.val, origin, split)
        if isinstance(v, VTuple):
            v.items = [self.load(i, None, split) for i in v.items]
        if isinstance(v, (VList, VDict)):
            v.origin = origin
        if isinstance(v, VRef):
            self.assume_ref_wf(v)
        if isinstance(v, VDyn):
            self.assume(z3.And(v.kind >= 0, v.kind <= 4))
        return v

    def assume_ref_wf(self, v):
        """Refs that come out of the pre-state are >= 0; objects allocated here are negative."""
        t = v.term
        if z3.is_int_value(t):
            return
        # only for terms that do not go through a store of this run (conservative test)
        s = t.sexpr()
        if 'store' in s or t.get_id() in self.wf_done:
            return
        # a value havocked by a callee's / loop's modifies clause, a callee's result or a ghost may well be an object
        # allocated during this run (negative): only terms built from the entry heap and the arguments are pre-state refs
        from .verify import symbols_of
        if any(not (n.startswith('H0:') or n.startswith('arg_')) for n in symbols_of(t)):
            return
        self.wf_done.add(t.get_id())
        self.keep.append(t)       # ids of freed ASTs are recycled by z3: keep cache keys alive
        self.assume(t >= 0)

    def store_terms(self, v, ty):
        """terms of value v when stored at a location of type ty (handles Opt wrapping)."""
        if isinstance(ty, Opt):
            if isinstance(v, VNone):
                inner = [self.default_term(so) for s, so in ty.t.comps()]
                return [z3.BoolVal(True)] + inner
            if isinstance(v, VOpt):
                return v.terms()
            return [z3.BoolVal(False)] + self.store_terms(v, ty.t)
        if isinstance(ty, _v._TDyn):
            if isinstance(v, VDyn): return v.terms()
            if isinstance(v, VNone): return [z3.IntVal(0), z3.StringVal(''), z3.IntVal(0)]
            if isinstance(v, VBool): return [z3.IntVal(1), z3.StringVal(''), z3.If(v.term, 1, 0)]
            if isinstance(v, VInt): return [z3.IntVal(1), z3.StringVal(''), v.term]
            if isinstance(v, VStr): return [z3.IntVal(2), v.term, z3.IntVal(0)]
            if isinstance(v, VBytes): return [z3.IntVal(4), v.term, z3.IntVal(0)]
            return [z3.IntVal(3), z3.StringVal(''), self.fresh('dyn_id', IntSort)]
        if isinstance(ty, _v._TKey2) and isinstance(v, VTuple) and len(v.items) == 2 and all(isinstance(i, VStr) for i in v.items):
            t = _v.key2(v.items[0].term, v.items[1].term)
            self.assume(_v.key2_inverse_facts(t, v.items[0].term, v.items[1].term))
            return [t]
        if isinstance(ty, _v._TOpaque):
            if isinstance(v, VOpaque) and v.term is not None:
                return [v.term]
            if getattr(v, 'term', None) is not None and v.term.sort() == IntSort:
                return [v.term]
            if isinstance(v, VList):
                # the identity of a list seen as an opaque value is a function of its contents
                f = z3.Function('list_id_' + '_'.join(str(q.sort()) for q in v.seqs), *([q.sort() for q in v.seqs] + [IntSort]))
                return [f(*v.seqs)]
            return [self.fresh('opq', IntSort)]
        if isinstance(v, VEmptyList):
            if isinstance(ty, ListT):
                return [z3.Empty(so) for s, so in ty.comps()]
            if isinstance(ty, DictT):
                return self.empty_dict(ty).terms()
        if isinstance(ty, ListT) and isinstance(v, VTuple):
            # a display / slice with concretely many elements stored where a list is expected
            cols = [self.store_terms(it, ty.t) for it in v.items]
            out = []
            for ci, (sfx, so) in enumerate(ty.comps()):
                units = [z3.Unit(c[ci]) for c in cols]
                out.append(z3.Empty(so) if not units else (units[0] if len(units) == 1 else z3.Concat(*units)))
            return out
        if isinstance(v, VChunks) and isinstance(ty, ListT) and v.items is not None:
            return [z3.Concat(*[z3.Unit(t) for t in v.items]) if len(v.items) > 1 else z3.Unit(v.items[0])]
        if isinstance(v, VChunks) and isinstance(ty, _v._TChunks):
            return [v.flat]
        if isinstance(v, VEmptyList) and isinstance(ty, _v._TChunks):
            return [z3.StringVal('')]
        if isinstance(v, VChunks):
            raise OutOfSubset('chunk list stored in a field')
        if isinstance(ty, TupleT):
            if isinstance(v, VList) and len(getattr(v, 'display_items', ())) == len(ty.ts):
                v = VTuple(list(v.display_items))
            if not isinstance(v, VTuple) or len(v.items) != len(ty.ts):
                raise OutOfSubset('tuple shape mismatch on store: %r into %r' % (v, ty))
            out = []
            for it, t in zip(v.items, ty.ts):
                out += self.store_terms(it, t)
            return out
        if isinstance(ty, (_v._TInt,)) and isinstance(v, VBool):
            return [z3.If(v.term, 1, 0)]
        terms = v.terms()
        want = [so for s, so in ty.comps()]
        if len(terms) != len(want) or any(t.sort() != so for t, so in zip(terms, want)):
            raise OutOfSubset('cannot store %r into location of type %r' % (v, ty))
        return terms

    def default_term(self, sort):
        if sort == IntSort: return z3.IntVal(0)
        if sort == BoolSort: return z3.BoolVal(False)
        if sort == StringSort: return z3.StringVal('')
        return self.fresh('dflt', sort)

    def empty_dict(self, ty):
        ks = ty.ksort()
        vals = [z3.K(ks, self.default_term(so)) for s, so in ty.v.comps()]
        return VDict(ty.k, ty.v, z3.K(ks, z3.BoolVal(False)), vals)

    def heap_write(self, ref, field, v):
        key, ty = self.heap_key(ref.cls, field)
        if key is None:
            raise OutOfSubset('no field %s on %s (store)' % (field, ref.cls))
        arrs = self.heap_arrays(key, ty)
        terms = self.store_terms(v, ty)
        for (s, so), a, t in zip(ty.comps(), arrs, terms):
            self.heap[key + s] = z3.Store(a, ref.term, t)
        if isinstance(v, (VList, VDict)):
            v.origin = (ref, field)

    def writeback(self, v):
        o = v.origin
        if o is None:
            return
        if o[0] == 'dict':
            _, d, k = o
            self.dict_store(d, k, v)
        elif o[0] == 'local':
            pass
        else:
            ref, field = o
            self.heap_write(ref, field, v)

    def key_sequence(self, d):
        """Ghost key sequence of a symbolic dict in its current state: a fresh Seq KS with
           mem(KS, y) <=> y in dom(d)   (instantiated at the elements of interest)   and   every KS[i] in dom(d)."""
        for dom, ks in getattr(self, '_keyseqs', []):
            if dom.eq(d.dom):
                return ks
        ks = self.fresh('keys', z3.SeqSort(d.ksort_()))
        if not hasattr(self, '_keyseqs'):
            self._keyseqs = []
        self._keyseqs.append((d.dom, ks))
        dom = d.dom
        self.membership.predicate(ks, lambda y, dom=dom: z3.Select(dom, y))
        return ks

    def prefix_of(self, seq, k):
        """(Pre, Suf) with seq == Pre.Suf and |Pre| == k, registered for decomposition alignment and membership"""
        ks = z3.simplify(k)
        key = ('prefix', seq.get_id(), ks.get_id())
        if key in self.slice_cache:
            return self.slice_cache[key]
        self.keep.extend([seq, ks])
        pre = self.fresh('pre', seq.sort())
        suf = self.fresh('suf', seq.sort())
        g = z3.And(k >= 0, k <= z3.Length(seq))
        self.assume(z3.Implies(g, z3.And(seq == z3.Concat(pre, suf), z3.Length(pre) == k)), defines=[pre, suf])
        self.membership.equation(seq, z3.Concat(pre, suf), g)
        self.decomps.register(seq, pre, suf, k, g)
        self.assume(z3.Implies(k == 0, pre == z3.Empty(seq.sort())))
        self.membership.equation(pre, z3.Empty(seq.sort()), k == 0)
        self.assume(z3.Implies(k == z3.Length(seq), pre == seq))
        for y in list(self.membership.elems):
            f = self.membership.fn(seq.sort())
            self.assume(z3.Implies(k == z3.Length(seq), f(pre, y) == f(seq, y)))
        self.slice_cache[key] = (pre, suf)
        return pre, suf

    def new_ref(self, cls):
        """Allocation: a fresh (negative) reference whose optional fields are None / unset - the
        class-level defaults of the txdbus classes - and nothing else known."""
        self.new_refs += 1
        r = VRef(z3.IntVal(-self.new_refs), cls)
        seen, stack = set(), [cls]
        while stack:
            c = stack.pop(0)
            if c in seen or c not in self.world.classes:
                continue
            seen.add(c)
            sp = self.world.classes[c]
            for name, ty in sp.fields.items():
                if isinstance(ty, Opt):
                    self.heap_write(r, name, VNone())
                elif name.endswith('?set'):
                    self.heap_write(r, name, VBool(False))
                elif isinstance(ty, _v._TDyn):
                    self.heap_write(r, name, VNone())
            for name, val in sp.init.items():
                self.heap_write(r, name, const_to_v(val))
            stack.extend(sp.bases)
        return r

    # ---- dict helpers (value semantic)
    def dict_has(self, d, k):
        return z3.Select(d.dom, k.terms()[0])

    def dict_get(self, d, k):
        terms = [select_store(a, k.terms()[0]) for a in d.vals]
        v = d.v.wrap(terms)
        return self.load(v, ('dict', d, k))

    def dict_store(self, d, k, v):
        kt = k.terms()[0]
        terms = self.store_terms(v, d.v)
        d.dom = z3.Store(d.dom, kt, z3.BoolVal(True))
        d.vals = [z3.Store(a, kt, t) for a, t in zip(d.vals, terms)]
        if isinstance(v, (VList, VDict)):
            v.origin = ('dict', d, k)
        self.writeback(d)

    def dict_del(self, d, k):
        d.dom = z3.Store(d.dom, k.terms()[0], z3.BoolVal(False))
        self.writeback(d)


def select_store(arr, idx):
    """Select(arr, idx) resolved through a Store chain by syntactic index comparison only
    (no rewriting of the stored terms - z3.simplify turns seq.nth into nth_i/nth_u ITEs)."""
    a = arr
    while z3.is_app(a) and a.decl().kind() == z3.Z3_OP_STORE:
        base, i, v = a.arg(0), a.arg(1), a.arg(2)
        if i.eq(idx):
            return v
        if z3.is_int_value(i) and z3.is_int_value(idx) and i.as_long() != idx.as_long():
            a = base
            continue
        if z3.is_string_value(i) and z3.is_string_value(idx) and i.as_string() != idx.as_string():
            a = base
            continue
        return z3.Select(arr, idx)
    return z3.Select(a, idx)


def seq_parts(t):
    """flatten nested seq.++ into its parts"""
    if z3.is_app(t) and t.decl().kind() == z3.Z3_OP_SEQ_CONCAT:
        out = []
        for c in t.children():
            out += seq_parts(c)
        return out
    if z3.is_app(t) and t.decl().kind() == z3.Z3_OP_SEQ_EMPTY:
        return []
    return [t]


def seq_concat(parts, sort):
    if not parts:
        return z3.Empty(sort)
    return parts[0] if len(parts) == 1 else z3.Concat(*parts)


def syntactic_tail(t):
    """t[1:] when t visibly starts with a unit, else None"""
    p = seq_parts(t)
    if p and z3.is_app(p[0]) and p[0].decl().kind() == z3.Z3_OP_SEQ_UNIT:
        return seq_concat(p[1:], t.sort())
    return None


class Membership:
    """x in <sequence of references> as an uninterpreted predicate mem(q, x) with its defining
    equations instantiated on the ground terms of the path (DESIGN 3.5: no quantifier reaches the
    solver): for every recorded equation  q == t1 . t2 ... tn  and every element of interest y,
        mem(q, y) <=> expand(t1, y) or ... or expand(tn, y),   expand(Unit(t), y) = (t == y),
    expand(empty, y) = false.  z3's own seq.contains is substring reasoning and goes unknown on these."""
    def __init__(self, ctx):
        self.ctx = ctx
        self.eqs = []        # (q, rhs term)
        self.elems = []
        self.f = {}
        self.preds = []        # (q, fn): mem(q, y) <=> fn(y) for every y (e.g. key sequence of a dict)
        self.known_tail = []   # (q, T): an assumed fact  q == [q[0]].T
        self.unique_occ = []   # (q, x, A, B): an assumed fact  x in q => q == A.[x].B, x not in A, x not in B

    def fn(self, sort):
        k = sort.sexpr()
        if k not in self.f:
            self.f[k] = z3.Function('mem:' + k, sort, sort.basis(), BoolSort)
        return self.f[k]

    def expand(self, t, y):
        if z3.is_app(t):
            k = t.decl().kind()
            if k == z3.Z3_OP_SEQ_CONCAT:
                return z3.Or([self.expand(c, y) for c in t.children()])
            if k == z3.Z3_OP_SEQ_UNIT:
                return t.arg(0) == y
            if k == z3.Z3_OP_SEQ_EMPTY:
                return z3.BoolVal(False)
        return self.fn(t.sort())(t, y)

    def mem(self, q, y):
        self.interest(y)
        return self.expand(q, y)

    def interest(self, y):
        if any(e.eq(y) for e in self.elems):
            return
        self.elems.append(y)
        for q, rhs, guard in self.eqs:
            self.emit(q, rhs, guard, y)
        for q, fn in self.preds:
            self.ctx.assume(self.fn(q.sort())(q, y) == fn(y))

    def predicate(self, q, fn):
        """record  forall y. mem(q, y) <=> fn(y)  and instantiate it at the elements of interest"""
        self.preds.append((q, fn))
        for y in self.elems:
            self.ctx.assume(self.fn(q.sort())(q, y) == fn(y))

    def equation(self, q, rhs, guard=None):
        """record  q == rhs  (already assumed by the caller, under guard) and instantiate membership at known elements"""
        self.eqs.append((q, rhs, guard))
        for y in self.elems:
            self.emit(q, rhs, guard, y)

    def emit(self, q, rhs, guard, y):
        f = self.fn(q.sort())(q, y) == self.expand(rhs, y)
        self.ctx.assume(f if guard is None else z3.Implies(guard, f))


class Decomps:
    """Registry of sequence decompositions  whole == left . right  with  |left| == cut  (under guard).
    Two decompositions of the same sequence at the same cut have equal parts; a decomposition of a
    part extends to the whole.  These are theorems of the theory of sequences - consequences of what
    the path condition already says, not new assumptions - stated explicitly because z3's sequence
    solver does not find them inside larger queries (DESIGN 3.5: no arrangement search left to the solver)."""
    def __init__(self, ctx):
        self.ctx = ctx
        self.entries = []

    @staticmethod
    def same(a, b):
        d = z3.simplify(a - b)
        return z3.is_int_value(d) and d.as_long() == 0

    def register(self, whole, left, right, cut, guard=None, derive=True):
        guard = z3.BoolVal(True) if guard is None else guard
        new = (whole, left, right, cut, guard)
        for e in list(self.entries):
            if e[0].eq(whole) and self.same(e[3], cut) and not (e[1].eq(left) and e[2].eq(right)):
                names = [x for x in (e[1], e[2], left, right) if z3.is_const(x)]
                self.ctx.assume(z3.Implies(z3.And(e[4], guard), z3.And(e[1] == left, e[2] == right)), defines=names)
            elif e[0].eq(whole) and (self.same(cut - 1, e[3]) or self.same(e[3] - 1, cut)):
                # adjacent cuts: the longer prefix is the shorter one plus the element in between
                (l1, r1, c1), (l2, r2, c2) = ((e[1], e[2], e[3]), (left, right, cut)) if self.same(cut - 1, e[3]) else ((left, right, cut), (e[1], e[2], e[3]))
                mid = z3.Unit(whole[c1])
                names = [x for x in (l1, r1, l2, r2) if z3.is_const(x)]
                self.ctx.assume(z3.Implies(z3.And(e[4], guard, c1 >= 0, c2 <= z3.Length(whole)),
                                           z3.And(l2 == z3.Concat(l1, mid), r1 == z3.Concat(mid, r2))), defines=names)
                M = self.ctx.membership
                M.equation(l2, z3.Concat(l1, mid), z3.And(e[4], guard, c1 >= 0, c2 <= z3.Length(whole)))
                M.equation(r1, z3.Concat(mid, r2), z3.And(e[4], guard, c1 >= 0, c2 <= z3.Length(whole)))
        self.entries.append(new)
        if not derive:
            return
        for e in list(self.entries[:-1]):
            g = z3.And(e[4], guard)
            if e[1].eq(whole):        # e.whole == whole . e.right
                self.register(e[0], left, z3.Concat(right, e[2]), cut, g, derive=False)
            if e[2].eq(whole):        # e.whole == e.left . whole
                self.register(e[0], z3.Concat(e[1], left), right, e[3] + cut, g, derive=False)
            if left.eq(e[0]):         # whole == e.whole . right
                self.register(whole, e[1], z3.Concat(e[2], right), e[3], g, derive=False)
            if right.eq(e[0]):        # whole == left . e.whole
                self.register(whole, z3.Concat(left, e[1]), e[2], cut + e[3], g, derive=False)


class PathResult:
    def __init__(self, outcome, value, ctx):
        self.outcome, self.value = outcome, value    # 'return' | 'raise' | 'end' | 'oos'
        self.pc = list(ctx.pc)
        self.obligations = ctx.obligations
        self.decisions = list(ctx.taken)
        self.heap = dict(ctx.heap)
        self.notes = ctx.notes
        self.covers = ctx.covers
        self.feas_unknown = ctx.feas_unknown


def explore(world, run_path, max_paths=4000):
    # wall-clock limit for the symbolic execution of ONE function (a change to it can make the paths or the feasibility queries
    # explode: minutes of CPU and gigabytes before anything is reported).  Past the limit the function is reported as outside the
    # subset (undecided).  (No watchdog THREAD here: Python's collector may run on any thread and would release z3 terms while the main
    # thread is inside a solver call - z3 contexts are not thread-safe.)
    import time as _time
    limit = float(os.environ.get('PYVC_EXPLORE_LIMIT_S', '240'))
    return _explore(world, run_path, max_paths, _time.time() + limit, limit)


def _explore(world, run_path, max_paths, t_end, limit):
    import time as _time
    work = [[]]
    results = []
    while work:
        if _time.time() > t_end:
            raise OutOfSubset('symbolic execution of this function exceeded %d s (%d paths so far)' % (limit, len(results)))
        dec = work.pop()
        ctx = Ctx(world, dec)
        try:
            out = run_path(ctx)
            res = PathResult(out[0], out[1], ctx)
        except PathEnd:
            res = PathResult('end', None, ctx)
        except (z3.Z3Exception, AttributeError, TypeError) as e:
            # a value of a shape the interpreter has no term for reached an operation that needs one (typically an opaque
            # result of an unmodelled library call used as a string / number): this path is outside the subset
            import traceback
            where = traceback.extract_tb(e.__traceback__)[-1]
            if os.environ.get('PYVC_TRACE_OOS'):
                traceback.print_exception(type(e), e, e.__traceback__)
            res = PathResult('oos', 'the interpreter cannot represent a value on this path (%s: %s at %s:%d)' % (type(e).__name__, str(e)[:120], where.filename.split('/')[-1], where.lineno), ctx)
        except OutOfSubset as e:
            res = PathResult('oos', str(e), ctx)
            # the fast feasibility check over-approximates (string atoms are free): before reporting a construct
            # outside the subset, ask the full solver whether this path can be taken at all
            try:
                from .verify import smt_check
                st = smt_check(list(ctx.pc), z3.BoolVal(False), 4000, None, defs=getattr(ctx, 'defs', None))[0]
                if st == 'discharged':
                    res = PathResult('end', None, ctx)
            except Exception:
                pass
        results.append(res)
        work.extend(ctx.alternatives)
        if len(results) > max_paths:
            if BRANCH_STATS is not None:
                for k_, v_ in sorted(BRANCH_STATS.items(), key=lambda kv: -kv[1])[:25]:
                    print('FORKS', v_, k_)
            raise OutOfSubset('path explosion (> %d paths)' % max_paths)
    return results


# ------------------------------------------------------------------------- function source
_SRC_CACHE = {}


def function_ast(fn):
    fn = getattr(fn, '__func__', fn)
    key = id(fn)
    if key in _SRC_CACHE:
        return _SRC_CACHE[key]
    src = inspect.getsource(fn)
    lines, start = inspect.getsourcelines(fn)
    tree = ast.parse(textwrap.dedent(src))
    node = tree.body[0]
    if isinstance(node, ast.Expr) or isinstance(node, ast.Assign):
        # lambda defined in an expression, e.g. `return lambda x: ...`
        lam = [n for n in ast.walk(tree) if isinstance(n, ast.Lambda)]
        if len(lam) != 1:
            raise OutOfSubset('cannot locate lambda source for %r' % fn)
        node = lam[0]
    elif isinstance(node, (ast.Return,)):
        lam = [n for n in ast.walk(tree) if isinstance(n, ast.Lambda)]
        node = lam[0]
    info = {
        'node': node,
        'file': inspect.getsourcefile(fn),
        'start': start,
        'end': start + len(lines) - 1,
        'sha256': hashlib.sha256(src.encode()).hexdigest(),
    }
    _SRC_CACHE[key] = info
    return info
