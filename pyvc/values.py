"""Types and symbolic values of the pyvc executor."""
import z3

StringSort = z3.StringSort()
IntSort = z3.IntSort()
BoolSort = z3.BoolSort()


class OutOfSubset(Exception):
    """The function uses something the executor has no rule for (never skipped silently)."""


# ----------------------------------------------------------------------------------- types
class Ty:
    def comps(self):
        """[(suffix, z3 sort)] - the flat components a value of this type is stored as."""
        raise NotImplementedError

    def wrap(self, terms):
        raise NotImplementedError

    def __repr__(self):
        return self.__class__.__name__


class _TInt(Ty):
    def comps(self): return [('', IntSort)]
    def wrap(self, terms): return VInt(terms[0])


class _TBool(Ty):
    def comps(self): return [('', BoolSort)]
    def wrap(self, terms): return VBool(terms[0])


class _TStr(Ty):
    def comps(self): return [('', StringSort)]
    def wrap(self, terms): return VStr(terms[0])


class _TKey2(_TStr):
    """a pair of strings used as ONE value (a dictionary key, a stored tuple): represented by an opaque token key2(a, b) of
    string sort that is injective in its components (key2_fst / key2_snd are its inverses, asserted where a pair is stored)"""


def key2(a, b):
    return z3.Function('key2', StringSort, StringSort, StringSort)(a, b)


def key2_inverse_facts(t, a, b):
    return z3.And(z3.Function('key2_fst', StringSort, StringSort)(t) == a, z3.Function('key2_snd', StringSort, StringSort)(t) == b)


class _TBytes(Ty):
    def comps(self): return [('', StringSort)]
    def wrap(self, terms): return VBytes(terms[0])


class _TChunks(Ty):
    """a list of byte strings, abstracted to its concatenation (the wire image)"""
    def comps(self): return [('', StringSort)]
    def wrap(self, terms): return VChunks(terms[0])


class _TNone(Ty):
    def comps(self): return []
    def wrap(self, terms): return VNone()


class _TOpaque(Ty):
    """A value the verification does not look into (identity only)."""
    def comps(self): return [('', IntSort)]
    def wrap(self, terms): return VOpaque('heap', terms[0])


class _TDyn(Ty):
    """A dynamically typed Python value of which only None / int / str are looked into:
    kind 0 = None, 1 = int, 2 = str, 3 = anything else (identity in the int component)."""
    def comps(self): return [('?kind', IntSort), ('.s', StringSort), ('.i', IntSort)]
    def wrap(self, terms): return VDyn(terms[0], terms[1], terms[2])


INT, BOOL, STR, BYTES, NONE, OPAQUE, DYN = _TInt(), _TBool(), _TStr(), _TBytes(), _TNone(), _TOpaque(), _TDyn()
KEY2 = _TKey2()
CHUNKS = _TChunks()


class Ref(Ty):
    def __init__(self, cls): self.cls = cls
    def comps(self): return [('', IntSort)]
    def wrap(self, terms): return VRef(terms[0], self.cls)
    def __repr__(self): return 'Ref(%s)' % self.cls


class Opt(Ty):
    def __init__(self, t): self.t = t
    def comps(self): return [('?none', BoolSort)] + self.t.comps()
    def wrap(self, terms): return VOpt(terms[0], self.t.wrap(terms[1:]), self.t)
    def __repr__(self): return 'Opt(%r)' % self.t


class TupleT(Ty):
    def __init__(self, *ts): self.ts = ts
    def comps(self):
        out = []
        for i, t in enumerate(self.ts):
            out += [('.%d%s' % (i, s), so) for s, so in t.comps()]
        return out
    def wrap(self, terms):
        items, k = [], 0
        for t in self.ts:
            n = len(t.comps())
            items.append(t.wrap(terms[k:k + n]))
            k += n
        return VTuple(items)
    def __repr__(self): return 'TupleT%r' % (self.ts,)


class ListT(Ty):
    def __init__(self, t): self.t = t
    def comps(self): return [('[]' + s, z3.SeqSort(so)) for s, so in self.t.comps()]
    def wrap(self, terms): return VList(self.t, list(terms))
    def __repr__(self): return 'ListT(%r)' % self.t


class DictT(Ty):
    def __init__(self, k, v):
        self.k, self.v = k, v
        assert len(k.comps()) == 1
    def ksort(self): return self.k.comps()[0][1]
    def comps(self):
        ks = self.ksort()
        return [('{dom}', z3.ArraySort(ks, BoolSort))] + \
               [('{val}' + s, z3.ArraySort(ks, so)) for s, so in self.v.comps()]
    def wrap(self, terms): return VDict(self.k, self.v, terms[0], list(terms[1:]))
    def __repr__(self): return 'DictT(%r,%r)' % (self.k, self.v)


def SetT(k):
    return DictT(k, NONE)


# ---------------------------------------------------------------------------------- values
class V:
    T = None

    def terms(self):
        raise OutOfSubset('value %r has no term representation' % (self,))


class VInt(V):
    T = INT
    def __init__(self, term, len_of=None):
        self.term = z3.IntVal(term) if isinstance(term, int) else term
        self.len_of = len_of          # provenance: this int is len(<string term>)
    def terms(self): return [self.term]
    def __repr__(self): return 'VInt(%s)' % self.term


class VLazyLen(VInt):
    """len(s) of a regular string value: the Length term is only built when arithmetic needs it
    (building it for a suffix view would introduce the word equation)."""
    def __init__(self, of):
        self.len_of = of
        self._term = None

    @property
    def term(self):
        if self._term is None:
            self._term = z3.Length(self.len_of.term)
        return self._term


class VBool(V):
    T = BOOL
    def __init__(self, term):
        self.term = z3.BoolVal(term) if isinstance(term, bool) else term
    def terms(self): return [self.term]
    def __repr__(self): return 'VBool(%s)' % self.term


class VStr(V):
    T = STR
    def __init__(self, term, char_at=None):
        self.term = z3.StringVal(term) if isinstance(term, str) else term
        self.char_at = char_at        # provenance: (string term, 'first'|'last')
    def terms(self): return [self.term]
    def __repr__(self): return 'VStr(%s)' % self.term


class VLazySuffix(VStr):
    """s[k:] of a string variable with constant k >= 0: kept symbolic-by-provenance so that
    single-string predicates on it stay regular; the word-equation term is made on demand."""
    def __init__(self, ctx, base, k, cls=None):
        self._ctx, self.base, self.k = ctx, base, k
        self.char_at = None
        self._term = None

    @property
    def term(self):
        if self._term is None:
            from . import strings as S
            self._term = S.slice_(self._ctx, self.base, z3.IntVal(self.k), None)
        return self._term


class VLazyChar(VStr):
    """s[0] / s[-1] of a regular string value: compared against constants it yields a regular
    constraint on s; the substring term is only built when something else needs it."""
    def __init__(self, of, where):
        self.of, self.where = of, where
        self.char_at = (of, where)
        self._term = None

    @property
    def term(self):
        if self._term is None:
            t = self.of.term
            self._term = z3.SubString(t, 0 if self.where == 'first' else z3.Length(t) - 1, 1)
        return self._term


class VBytes(V):
    T = BYTES
    def __init__(self, term, char_at=None):
        if isinstance(term, (bytes, bytearray)):
            term = z3.StringVal(bytes(term).decode('latin-1'))
        self.term = term
        self.char_at = char_at
    def terms(self): return [self.term]
    def __repr__(self): return 'VBytes(%s)' % self.term


class VNone(V):
    T = NONE
    def terms(self): return []
    def __repr__(self): return 'VNone'


class VRef(V):
    def __init__(self, term, cls):
        self.term = z3.IntVal(term) if isinstance(term, int) else term
        self.cls = cls
        self.T = Ref(cls)
    def terms(self): return [self.term]
    def __repr__(self): return 'VRef(%s:%s)' % (self.term, self.cls)


class VOpt(V):
    """Stored form of an optional; loads split it into VNone / the value."""
    def __init__(self, none, val, t):
        self.none, self.val, self.T = none, val, Opt(t)
    def terms(self): return [self.none] + self.val.terms()


class VTuple(V):
    def __init__(self, items):
        self.items = list(items)
    @property
    def T(self): return TupleT(*[i.T for i in self.items])
    def terms(self):
        out = []
        for i in self.items:
            out += i.terms()
        return out
    def __repr__(self): return 'VTuple(%r)' % (self.items,)


class VList(V):
    """Value-semantic list with write-back to the location it was loaded from."""
    def __init__(self, t, seqs, origin=None):
        self.t, self.seqs, self.origin = t, seqs, origin
        self.T = ListT(t)
    def terms(self): return list(self.seqs)
    def length(self): return z3.Length(self.seqs[0])
    def __repr__(self): return 'VList(%r,%s)' % (self.t, self.seqs)


class VDict(V):
    def __init__(self, k, v, dom, vals, origin=None):
        self.k, self.v, self.dom, self.vals, self.origin = k, v, dom, vals, origin
        self.T = DictT(k, v)
    def terms(self): return [self.dom] + list(self.vals)
    def ksort_(self): return self.k.comps()[0][1]
    def __repr__(self): return 'VDict(%r,%r)' % (self.k, self.v)


class VChunks(V):
    """A list of byte strings that is only ever observed through b''.join (its flattening)."""
    def __init__(self, flat, items=None):
        self.flat = flat
        self.items = items          # element terms while the list is still exactly its display
    def __repr__(self): return 'VChunks(%s)' % self.flat


class VEmptyList(V):
    """`[]` whose element type is fixed by the first mutation."""
    def __init__(self):
        self.becomes = None


class VOpaque(V):
    T = OPAQUE
    def __init__(self, tag, term=None):
        self.tag, self.term = tag, term
    def terms(self):
        if self.term is None:
            raise OutOfSubset('opaque value (%s) stored where a term is needed' % self.tag)
        return [self.term]
    def __repr__(self): return 'VOpaque(%s)' % self.tag


class VDyn(V):
    T = None
    def __init__(self, kind, s, i):
        self.kind, self.s, self.i = kind, s, i
    def terms(self): return [self.kind, self.s, self.i]
    def __repr__(self): return 'VDyn(%s)' % self.kind


VDyn.T = DYN


class VFunc(V):
    def __init__(self, fn, self_=None):
        self.fn, self.self_ = fn, self_
    def __repr__(self): return 'VFunc(%s)' % getattr(self.fn, '__qualname__', self.fn)


class VClosure(V):
    def __init__(self, node, env, glob, name):
        self.node, self.env, self.glob, self.name = node, env, glob, name


class VClass(V):
    def __init__(self, cls): self.cls = cls
    def __repr__(self): return 'VClass(%s)' % self.cls.__name__


class VModule(V):
    def __init__(self, mod): self.mod = mod


class VPyConst(V):
    """A live Python constant container (module-level dict / tuple table)."""
    def __init__(self, obj): self.obj = obj


class VDictView(V):
    """d.keys() / d.values() / d.items() of a symbolic dict (optionally through sorted()/list())."""
    def __init__(self, d, kind, is_sorted=False):
        self.d, self.kind, self.is_sorted = d, kind, is_sorted


class VZip(V):
    """zip(<symbolic lists>): iterated index-wise up to the shortest"""
    def __init__(self, lists):
        self.lists = lists
        self.seqs = lists[0].seqs

    def length(self):
        n = self.lists[0].length()
        for l in self.lists[1:]:
            n = z3.If(l.length() < n, l.length(), n)
        return n


class VEnum(V):
    """enumerate(<symbolic list>)"""
    def __init__(self, lst): self.lst = lst


class VExc(V):
    def __init__(self, cls, args=(), fields=None, implicit=False):
        self.cls, self.args, self.fields = cls, list(args), fields or {}
        self.implicit = implicit     # raised by a modelled primitive (IndexError, AttributeError on None, ...)
    def __repr__(self): return 'VExc(%s)' % self.cls.__name__


class VMethod(V):
    """Bound method of a symbolic value (str.startswith, list.append, ...)."""
    def __init__(self, recv, name):
        self.recv, self.name = recv, name
    def __repr__(self): return 'VMethod(%r.%s)' % (self.recv, self.name)


class VGen(V):
    """A generator modelled as the (symbolic) list of values it yields."""
    def __init__(self, lst, pos=0):
        self.lst, self.pos = lst, pos


def const_to_v(obj):
    """Lift a live Python constant."""
    import types
    if obj is None: return VNone()
    if isinstance(obj, bool): return VBool(obj)
    if isinstance(obj, int): return VInt(obj)
    if isinstance(obj, str): return VStr(obj)
    if isinstance(obj, (bytes, bytearray)): return VBytes(bytes(obj))
    if isinstance(obj, tuple): return VTuple([const_to_v(x) for x in obj])
    if isinstance(obj, types.ModuleType): return VModule(obj)
    if isinstance(obj, type): return VClass(obj)
    if callable(obj): return VFunc(obj)
    if isinstance(obj, (dict, list, set, frozenset)): return VPyConst(obj)
    return VPyConst(obj)


def z3_unescape(s):
    """z3 as_string() -> python str (handles \\u{..} escapes)."""
    import re
    return re.sub(r'\\u\{([0-9a-fA-F]+)\}', lambda m: chr(int(m.group(1), 16)), s)
