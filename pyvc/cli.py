import argparse
import json
import os
import sys


def main():
    ap = argparse.ArgumentParser()
    ap.add_argument('prop', nargs='?')
    ap.add_argument('--tier', default=os.environ.get('VERIF_TIER', 'quick'))
    ap.add_argument('--replay')
    ap.add_argument('--jobs', type=int, default=None)
    ap.add_argument('--write-ledger', action='store_true')
    a = ap.parse_args()
    seed = int(os.environ.get('VERIF_SEED', '0') or 0)
    from pyvc import runner
    if a.replay:
        d = json.load(open(a.replay))
        spec = runner.load_spec(d['property'].lower(), 'quick')
        if 'failure' in d:
            print(json.dumps(d['failure'], indent=1, default=str))
            sys.exit(0)
        rp = spec.replay(d['function'], d['clause'], d.get('solver_model') or {})
        print(json.dumps(rp, indent=1, default=str))
        sys.exit(1 if rp.get('reproduced') else 0)
    if not a.prop:
        ap.error('property id required')
    tier = a.tier if a.tier in ('quick', 'thorough') else 'quick'
    if tier == 'thorough':
        os.environ.setdefault('PYVC_RUN_BUDGET_S', '1500')
    try:
        rc = runner.run_property(a.prop.lower(), tier, seed, a.jobs, a.write_ledger)
    except Exception:
        import traceback
        traceback.print_exc()
        print('CHECKER-ERROR: runner crashed')
        rc = 3
    sys.exit(rc)


if __name__ == '__main__':
    main()
