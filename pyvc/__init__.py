"""pyvc - verification-condition generator for the Python subset used by txdbus.

Reads the *live* function objects of the package under /repo (TXDBUS_REPO), re-parses their
source on every run, executes the AST symbolically under sidecar contracts and discharges
the resulting obligations with z3 (cvc5 as second back end).  See /verif/DESIGN.md section 3.
"""
