"""String / bytes primitives.  Single-string predicates are kept in the regular fragment
(InRe), slices are word equations with fresh constants (DESIGN 3.5, tried in the sandbox)."""
import ast
import z3

from .values import *  # noqa

RE_SORT = z3.ReSort(z3.StringSort())
ANY = z3.Full(RE_SORT)                # Sigma*
CH = z3.AllChar(RE_SORT)              # one character


def lit(s):
    return z3.Re(z3.StringVal(s))


def is_const(t):
    return z3.is_string_value(z3.simplify(t)) if not z3.is_string_value(t) else True


def const_of(t):
    t = t if z3.is_string_value(t) else z3.simplify(t)
    return z3_unescape(t.as_string())


def concat(ts):
    ts = [t for t in ts if not (z3.is_string_value(t) and t.as_string() == '')]
    if not ts:
        return z3.StringVal('')
    if len(ts) == 1:
        return ts[0]
    return z3.Concat(*ts)


def regular_var(t):
    return z3.is_const(t) and not z3.is_string_value(t)


REGULAR_MODE = False     # set per property (Spec.regular_strings): keep single-string predicates in InRe form


def is_regular(v):
    """v is a string variable, or the suffix view s[k:] of one: predicates on it stay regular."""
    if not REGULAR_MODE:
        return False
    if isinstance(v, VLazySuffix):
        return regular_var(v.base)
    return isinstance(v, (VStr, VBytes)) and regular_var(v.term)


def eps_in(R):
    return z3.is_true(z3.simplify(z3.InRe(z3.StringVal(''), R)))


def member(v, R):
    """v in L(R) as a constraint on the underlying string variable."""
    if isinstance(v, VLazySuffix):
        k = v.k
        if k == 0:
            return z3.InRe(v.base, R)
        main = z3.InRe(v.base, z3.Concat(z3.Loop(CH, k, k), R))
        if eps_in(R):            # base shorter than k: the view is '' which is in R
            return z3.Or(main, z3.InRe(v.base, len_re(ast.Lt(), k)))
        return main
    return z3.InRe(v.term, R)


def nonempty(v):
    if is_regular(v):
        return z3.Not(member(v, lit('')))
    return z3.Length(v.term) > 0


def len_re(op, k):
    """regex of strings whose length `op` k (k concrete int).  NB z3: Loop(r, lo, 0) is unbounded."""
    if isinstance(op, ast.Gt): op, k = ast.GtE(), k + 1
    if isinstance(op, ast.Lt): op, k = ast.LtE(), k - 1
    if isinstance(op, ast.GtE):
        if k <= 0: return ANY
        return z3.Concat(z3.Loop(CH, k, k), ANY)
    if isinstance(op, ast.LtE):
        if k < 0: return z3.Empty(RE_SORT)
        if k == 0: return lit('')
        return z3.Loop(CH, 0, k)
    if isinstance(op, ast.Eq):
        if k < 0: return z3.Empty(RE_SORT)
        if k == 0: return lit('')
        return z3.Loop(CH, k, k)
    return None


_FLIP = {ast.Gt: ast.Lt, ast.Lt: ast.Gt, ast.GtE: ast.LtE, ast.LtE: ast.GtE, ast.Eq: ast.Eq, ast.NotEq: ast.NotEq}


LEN_ATOMS = {}      # (string var name, k) -> Bool const standing for "len(var) <= k" (large k only)
BIG_LEN = 32


def len_le_atom(var_term, k):
    """len(var) <= k for a large constant k as an opaque atom: the automaton for CH{0,255} multiplies every
    regular query by 256 states, while the validators and the grammar only ever use this one test, so it
    is kept as an uninterpreted predicate of the string (same atom on both sides), with the order facts
    between different bounds on the same string recorded in LEN_FACTS."""
    key = (var_term.sexpr(), k)
    if key not in LEN_ATOMS:
        LEN_ATOMS[key] = z3.Bool('len<=%d(%s)' % (k, var_term.sexpr()))
    return LEN_ATOMS[key]


def int_compare(op, a, b, len_a=None, len_b=None):
    """a `op` b on Int terms; len(<regular string value>) against a constant goes to InRe.
    len_a / len_b: the string VALUE whose length a / b is (provenance), or None."""
    if len_b is not None and len_a is None:
        return int_compare(_FLIP[type(op)](), b, a, len_b, None)
    if len_a is not None and z3.is_int_value(z3.simplify(b)) and is_regular(len_a):
        k = z3.simplify(b).as_long()
        if k >= BIG_LEN and not isinstance(len_a, VLazySuffix) and not isinstance(op, (ast.Eq, ast.NotEq)):
            # len <= k / len < k+1 / len > k / len >= k+1
            if isinstance(op, ast.LtE): return len_le_atom(len_a.term, k)
            if isinstance(op, ast.Lt): return len_le_atom(len_a.term, k - 1)
            if isinstance(op, ast.Gt): return z3.Not(len_le_atom(len_a.term, k))
            if isinstance(op, ast.GtE): return z3.Not(len_le_atom(len_a.term, k - 1))
        if isinstance(op, ast.NotEq):
            return z3.Not(member(len_a, len_re(ast.Eq(), k)))
        r = len_re(op, k)
        if r is not None:
            return member(len_a, r)
    if isinstance(op, ast.Eq): return a == b
    if isinstance(op, ast.NotEq): return a != b
    if isinstance(op, ast.Lt): return a < b
    if isinstance(op, ast.LtE): return a <= b
    if isinstance(op, ast.Gt): return a > b
    if isinstance(op, ast.GtE): return a >= b
    return None


def contains_v(hay_v, needle):
    """`needle in hay` on values."""
    if is_regular(hay_v) and is_const(needle):
        return member(hay_v, z3.Concat(ANY, lit(const_of(needle)), ANY))
    return z3.Contains(hay_v.term, needle)


def startswith(s_v, pre):
    if is_regular(s_v) and is_const(pre):
        return member(s_v, z3.Concat(lit(const_of(pre)), ANY))
    return z3.PrefixOf(pre, s_v.term)


def endswith(s_v, suf):
    if is_regular(s_v) and is_const(suf):
        return member(s_v, z3.Concat(ANY, lit(const_of(suf))))
    return z3.SuffixOf(suf, s_v.term)


def str_equal(a, b):
    """a == b for two VStr/VBytes; a character taken from a regular string value compared with a
    constant character becomes a regular constraint on that value."""
    for x, y in ((a, b), (b, a)):
        ca = getattr(x, 'char_at', None)
        if ca is not None and is_const(y.term) and is_regular(ca[0]):
            c = const_of(y.term)
            if len(c) != 1:
                return z3.BoolVal(False)
            if ca[1] == 'first':
                return member(ca[0], z3.Concat(lit(c), ANY))
            if ca[1] == 'last':
                return member(ca[0], z3.Concat(ANY, lit(c)))
    for x, y in ((a, b), (b, a)):
        if is_regular(x) and isinstance(x, VLazySuffix) and is_const(y.term):
            return member(x, lit(const_of(y.term)))
    return a.term == b.term


def index(I, obj, idx):
    """obj[idx] for str/bytes (bytes indexing yields an int)."""
    ctx = I.ctx
    conc = I.is_concrete_int(idx)
    where = None
    reg = is_regular(obj)
    if conc:
        k = I.concrete_int(idx)
        if reg:
            ok = member(obj, len_re(ast.GtE(), -k if k < 0 else k + 1))
        else:
            n = z3.Length(obj.term)
            ok = n >= (-k if k < 0 else k + 1)
        if k == -1: where = 'last'
        if k == 0: where = 'first'
    else:
        n = z3.Length(obj.term)
        ok = z3.And(idx.term >= 0, idx.term < n)
    if not ctx.branch(ok):
        I.raise_py(IndexError)
    if reg and where and isinstance(obj, VStr):
        return VLazyChar(obj, where)
    t = obj.term
    n = z3.Length(t)
    it = idx.term
    if conc and k < 0:
        it = n + k
    ch = z3.SubString(t, it, 1)
    if isinstance(obj, VBytes):
        return VInt(z3.StrToCode(ch))
    return VStr(ch, char_at=(obj, where) if where else None)


def slice_(ctx, t, lo, hi, lo_const=True, hi_const=True):
    """Python slice t[lo:hi] with clamping, as a word equation t = a.m.c with fresh a, m, c."""
    n = z3.Length(t)
    lo = z3.IntVal(0) if lo is None else lo
    hi = n if hi is None else hi
    lo_s, hi_s = z3.simplify(lo), z3.simplify(hi)
    # constant string: compute
    ts = z3.simplify(t)
    if z3.is_string_value(ts) and z3.is_int_value(lo_s) and z3.is_int_value(hi_s):
        s = z3_unescape(ts.as_string())
        return z3.StringVal(s[lo_s.as_long():hi_s.as_long()])
    if z3.is_int_value(lo_s) and lo_s.as_long() == 0 and hi is n:
        return t
    key = (t.get_id(), lo_s.get_id(), hi_s.get_id() if hi is not n else 'end')
    if key in ctx.slice_cache:
        return ctx.slice_cache[key]
    ctx.keep.extend([t, lo_s, hi_s])

    def norm(x):            # negative indices count from the end
        return z3.If(x < 0, z3.If(n + x < 0, 0, n + x), z3.If(x > n, n, x))
    # when the path condition already implies 0 <= lo <= hi <= len, no clamping terms are needed
    in_range = z3.And(lo >= 0, lo <= hi, hi <= n) if hi is not n else z3.And(lo >= 0, lo <= n)
    plain = not ctx.feasible(z3.Not(in_range))
    if plain:
        lo_n, hi_n = lo, hi
    else:
        lo_n = norm(lo)
        hi_n = n if hi is n else norm(hi)
        hi_n = z3.If(hi_n < lo_n, lo_n, hi_n)
    lo_is0 = z3.is_int_value(z3.simplify(lo_n)) and z3.simplify(lo_n).as_long() == 0
    m = ctx.fresh('sl_m', StringSort)
    if lo_is0:
        c = ctx.fresh('sl_c', StringSort)
        ctx.assume(z3.And(t == z3.Concat(m, c), z3.Length(m) == z3.simplify(hi_n)), defines=[m, c])
    elif hi is n:
        a = ctx.fresh('sl_a', StringSort)
        ctx.assume(z3.And(t == z3.Concat(a, m), z3.Length(a) == z3.simplify(lo_n)), defines=[a, m])
    else:
        a = ctx.fresh('sl_a', StringSort)
        c = ctx.fresh('sl_c', StringSort)
        ctx.assume(z3.And(t == z3.Concat(a, m, c), z3.Length(a) == z3.simplify(lo_n),
                          z3.Length(m) == z3.simplify(hi_n - lo_n)), defines=[a, m, c])
    ctx.slice_cache[key] = m
    return m


# ------------------------------------------------------------------ python re -> z3 regex
def from_python_re(pat):
    """Translate the (small) class of patterns used by txdbus: sequences of literal chars,
    escapes (\\. \\- \\d) and character classes, no quantifiers / groups / anchors."""
    out = []
    i = 0
    while i < len(pat):
        c = pat[i]
        if c == '[':
            j = pat.index(']', i + 1)
            body = pat[i + 1:j]
            neg = body.startswith('^')
            if neg:
                body = body[1:]
            parts = []
            k = 0
            while k < len(body):
                ch = body[k]
                if ch == '\\':
                    k += 1
                    ch = body[k]
                    if ch == 'd':
                        parts.append(z3.Range('0', '9'))
                        k += 1
                        continue
                if k + 2 < len(body) and body[k + 1] == '-' and body[k + 2] != ']':
                    parts.append(z3.Range(ch, body[k + 2]))
                    k += 3
                else:
                    parts.append(lit(ch))
                    k += 1
            cls = parts[0] if len(parts) == 1 else z3.Union(*parts)
            if neg:
                cls = z3.Intersect(CH, z3.Complement(cls))
            out.append(cls)
            i = j + 1
        elif c == '\\':
            n = pat[i + 1]
            if n == 'd':
                out.append(z3.Range('0', '9'))     # ASCII digits: see DESIGN 3.3 (stated assumption)
            elif n in '.-\\/[](){}+*?|^$':
                out.append(lit(n))
            else:
                raise OutOfSubset('regex escape \\%s' % n)
            i += 2
        elif c in '.*+?()|^${}':
            raise OutOfSubset('regex operator %r' % c)
        else:
            out.append(lit(c))
            i += 1
    if not out:
        return lit('')
    return out[0] if len(out) == 1 else z3.Concat(*out)


def re_search(s_v, pattern):
    r = from_python_re(pattern)
    return member(s_v, z3.Concat(ANY, r, ANY))
