"""AST interpreter over symbolic values (statements, expressions, calls, loops, exceptions)."""
import ast
from os import environ as _os_env
import builtins
import inspect
import types

import z3

from .values import *  # noqa
from . import values as _v
from .engine import (ReturnSig, BreakSig, ContinueSig, PyRaise, PathEnd, Cx, function_ast,
                     LoopSpec)
from . import strings as S


def skind(v):
    """scalar kind of a value (lazy subclasses count as their base kind)"""
    for k in (VBool, VInt, VStr, VBytes):
        if isinstance(v, k):
            return k
    return type(v)


class Frame:
    def __init__(self, fn_name, locals_, glob, contract=None, builtins_=None):
        self.fn_name, self.locals, self.glob, self.contract = fn_name, locals_, glob, contract
        self.loop_no = 0
        self.yields = None
        self.ghost = {}


class Interp:
    def __init__(self, ctx, models):
        self.ctx = ctx
        self.world = ctx.world
        self.models = models          # pyvc.models.Models
        self.frames = []

    # ------------------------------------------------------------------ helpers
    @property
    def fr(self):
        return self.frames[-1]

    def raise_py(self, cls, *args):
        if _os_env.get('PYVC_TRACE_RAISE') == cls.__name__:
            import traceback
            traceback.print_stack(limit=8)
            print('  at line', getattr(getattr(self, 'cur_node', None), 'lineno', '?'), 'of', self.fr.fn_name)
        raise PyRaise(VExc(cls, args, implicit=True))

    def truthy(self, v):
        ctx = self.ctx
        if isinstance(v, VBool): return v.term
        if isinstance(v, VInt): return v.term != 0
        if isinstance(v, (VStr, VBytes)): return S.nonempty(v)
        if isinstance(v, VNone): return z3.BoolVal(False)
        if isinstance(v, VTuple): return z3.BoolVal(len(v.items) > 0)
        if isinstance(v, VList): return z3.Length(v.seqs[0]) > 0
        if isinstance(v, VDict):
            # non-emptiness of a symbolic dict: an uninterpreted predicate of its domain, with the instances
            # "a known key is present => non-empty" for the arbitrary (skolem) keys of this path
            ne = z3.Function('dict_nonempty_' + str(v.dom.sort().domain()), v.dom.sort(), BoolSort)(v.dom)
            for y in getattr(ctx, '_skolems', {}).values():
                if y.sort() == v.dom.sort().domain():
                    ctx.assume(z3.Implies(z3.Select(v.dom, y), ne))
            return ne
        if isinstance(v, VChunks): raise OutOfSubset('truth value of a chunk list')
        if isinstance(v, VEmptyList): return z3.BoolVal(False)
        if isinstance(v, (VRef, VFunc, VClosure, VClass, VModule, VExc, VMethod)): return z3.BoolVal(True)
        if isinstance(v, VDict):
            raise OutOfSubset('truth value of a symbolic dict')
        if isinstance(v, VPyConst):
            return z3.BoolVal(bool(v.obj))
        if isinstance(v, VOpt):
            return z3.And(z3.Not(v.none), self.truthy(v.val))
        if isinstance(v, VDyn):
            return z3.Or(z3.And(v.kind == 1, v.i != 0), z3.And(v.kind == 2, z3.Length(v.s) > 0), v.kind == 3)
        raise OutOfSubset('truth value of %r' % (v,))

    def test(self, v):
        return self.ctx.branch(self.truthy(v))

    def concrete_str(self, v):
        """Concrete python str/bytes of a VStr/VBytes, splitting over ITE constants if needed."""
        t = z3.simplify(v.term)
        while True:
            if z3.is_string_value(t):
                return z3_unescape(t.as_string())
            if z3.is_app(t) and t.decl().kind() == z3.Z3_OP_ITE:
                c, a, b = t.children()
                t = z3.simplify(a if self.ctx.branch(c) else b)
                continue
            raise OutOfSubset('string is not concrete: %s' % t)

    def concrete_int(self, v):
        t = z3.simplify(v.term)
        if z3.is_int_value(t):
            return t.as_long()
        raise OutOfSubset('int is not concrete: %s' % t)

    def is_concrete_int(self, v):
        return isinstance(v, VInt) and z3.is_int_value(z3.simplify(v.term))

    # ------------------------------------------------------------------ function execution
    def run_function(self, fn, args, kwargs, contract=None, frame_hook=None):
        """Symbolically execute the body of live function `fn` (inlined or as proof target)."""
        info = function_ast(fn)
        node = info['node']
        fobj = getattr(fn, '__func__', fn)
        glob = fobj.__globals__
        loc = self.bind(node.args, fobj, args, kwargs, glob)
        # closure cells of module-level closures (e.g. genpad's `align`) are read live
        if fobj.__closure__:
            for name, cell in zip(fobj.__code__.co_freevars, fobj.__closure__):
                try:
                    loc.setdefault(name, const_to_v(cell.cell_contents))
                except ValueError:
                    pass
        fr = Frame(fobj.__qualname__, loc, glob, contract)
        if frame_hook:
            frame_hook(fr)
        return self.run_frame(fr, node)

    def run_frame(self, fr, node):
        self.frames.append(fr)
        self.ctx.fn_stack.append(fr.fn_name)
        loops = sorted((n for n in self.walk_own(node) if isinstance(n, (ast.For, ast.While))),
                       key=lambda n: (n.lineno, n.col_offset))
        fr.loop_ids = {id(n): i + 1 for i, n in enumerate(loops)}
        try:
            if isinstance(node, ast.Lambda):
                return self.eval(node.body)
            is_gen = any(isinstance(n, (ast.Yield, ast.YieldFrom)) for n in self.walk_own(node))
            sym_gen = is_gen and fr.contract is not None and isinstance(fr.contract.result, ListT) and fr is self.frames[0]
            if is_gen:
                fr.yields = []
            if sym_gen:
                ty = fr.contract.result
                yl = VList(ty.t, [z3.Empty(so) for s_, so in ty.comps()])
                yl.origin = ('local',)
                fr.locals['_yields'] = yl
            try:
                self.exec_block(node.body)
                ret = VNone()
            except ReturnSig as r:
                ret = r.value
            if sym_gen:
                return fr.locals['_yields']
            if is_gen:
                return self.make_gen(fr.yields)
            return ret
        finally:
            self.frames.pop()
            self.ctx.fn_stack.pop()

    def make_gen(self, yields):
        return VGen(VTuple(yields))

    @staticmethod
    def walk_own(node):
        """ast.walk that does not descend into nested function definitions."""
        todo = list(ast.iter_child_nodes(node))
        while todo:
            n = todo.pop()
            yield n
            if not isinstance(n, (ast.FunctionDef, ast.Lambda, ast.AsyncFunctionDef)):
                todo.extend(ast.iter_child_nodes(n))

    def bind(self, a, fobj, args, kwargs, glob, defaults_env=None):
        names = [x.arg for x in a.posonlyargs + a.args]
        loc = {}
        args = list(args)
        if len(args) > len(names) and not a.vararg:
            self.raise_py(TypeError)
        for n, v in zip(names, args):
            loc[n] = v
        if a.vararg:
            loc[a.vararg.arg] = VTuple(args[len(names):])
        kwargs = dict(kwargs)
        for n in names[len(args):] + [k.arg for k in a.kwonlyargs]:
            if n in kwargs:
                loc[n] = kwargs.pop(n)
        if a.kwarg:
            loc[a.kwarg.arg] = VPyConst(dict(kwargs))
            kwargs = {}
        if kwargs:
            self.raise_py(TypeError)
        # defaults: read live when we have the function object, else evaluate the AST
        missing = [n for n in names if n not in loc]
        if missing:
            if fobj is not None and fobj.__defaults__ is not None:
                dflt = dict(zip(names[len(names) - len(fobj.__defaults__):], fobj.__defaults__))
                for n in missing:
                    if n in dflt:
                        loc[n] = const_to_v(dflt[n])
            elif a.defaults:
                dn = names[len(names) - len(a.defaults):]
                for n, d in zip(dn, a.defaults):
                    if n in missing:
                        loc[n] = self.eval(d)
        for k, d in zip(a.kwonlyargs, a.kw_defaults):
            if k.arg not in loc and d is not None:
                loc[k.arg] = self.eval(d)
        for n in names:
            if n not in loc:
                self.raise_py(TypeError)
        return loc

    # ------------------------------------------------------------------ statements
    def exec_block(self, stmts):
        for s in stmts:
            self.exec(s)

    def exec(self, s):
        m = getattr(self, 'x_' + s.__class__.__name__, None)
        if m is None:
            raise OutOfSubset('statement %s (line %d)' % (s.__class__.__name__, s.lineno))
        self.ctx.where = (self.fr.fn_name, s.lineno)
        return m(s)

    def x_Pass(self, s): pass

    def x_Expr(self, s):
        if isinstance(s.value, ast.Constant):
            return
        if isinstance(s.value, ast.Yield):
            v = self.eval(s.value.value) if s.value.value else VNone()
            if '_yields' in self.fr.locals:
                # generator under contract with a list result: the yielded values are the ghost list local `_yields`
                # (eager model of the generator: what it yields when run to completion)
                lst = self.fr.locals['_yields']
                c = self.fr.contract
                if c is not None and getattr(c, 'on_yield', None) is not None:
                    c.on_yield(self.loop_cx(), lst, v)
                self.list_append(lst, v)
                return
            self.fr.yields.append(v)
            return
        self.eval(s.value)

    def x_Return(self, s):
        raise ReturnSig(self.eval(s.value) if s.value is not None else VNone())

    def x_Break(self, s): raise BreakSig()

    def x_Continue(self, s): raise ContinueSig()

    def x_Import(self, s):
        import importlib
        for al in s.names:
            mod = importlib.import_module(al.name)
            top = al.asname or al.name.split('.')[0]
            self.fr.locals[top] = VModule(mod if al.asname else importlib.import_module(al.name.split('.')[0]))

    def x_ImportFrom(self, s):
        import importlib
        mod = importlib.import_module(s.module)
        for al in s.names:
            self.fr.locals[al.asname or al.name] = const_to_v(getattr(mod, al.name))

    def x_Assert(self, s):
        v = self.eval(s.test)
        c = self.frames[0].contract if self.frames else None
        if c is not None and getattr(c, 'asserts_raise', False):
            # python semantics: a failing assert raises AssertionError (an allowed exceptional outcome here)
            if not self.ctx.branch(self.truthy(v)):
                raise PyRaise(VExc(AssertionError, []))
            return
        self.ctx.oblige('assert@%d' % s.lineno, self.truthy(v), kind='assert')
        self.ctx.assume(self.truthy(v))

    def x_Assign(self, s):
        v = self.eval(s.value)
        for t in s.targets:
            self.assign(t, v)

    def x_AugAssign(self, s):
        cur = self.eval(s.target)
        rhs = self.eval(s.value)
        self.assign(s.target, self.binop(s.op, cur, rhs, s))

    def x_AnnAssign(self, s):
        if s.value is not None:
            self.assign(s.target, self.eval(s.value))

    def assign(self, t, v):
        if isinstance(t, ast.Name):
            if isinstance(v, VEmptyList) and self.fr.contract is not None and t.id in self.fr.contract.locals_types:
                ty = self.fr.contract.locals_types[t.id]       # sidecar typing of an empty display
                if isinstance(ty, DictT):
                    v = self.ctx.empty_dict(ty)
                elif isinstance(ty, ListT):
                    v = VList(ty.t, [z3.Empty(so) for s_, so in ty.comps()])
                elif isinstance(ty, _v._TChunks):
                    v = VChunks(z3.StringVal(''))
            if isinstance(v, (VList, VDict)) and v.origin is None:
                v.origin = ('local',)
            self.fr.locals[t.id] = v
        elif isinstance(t, (ast.Tuple, ast.List)):
            items = self.unpack(v, len(t.elts))
            for e, i in zip(t.elts, items):
                self.assign(e, i)
        elif isinstance(t, ast.Attribute):
            obj = self.eval(t.value)
            self.setattr(obj, t.attr, v)
        elif isinstance(t, ast.Subscript):
            obj = self.eval(t.value)
            idx = self.eval_index(t.slice)
            self.setitem(obj, idx, v)
        else:
            raise OutOfSubset('assignment target %s' % t.__class__.__name__)

    def unpack(self, v, n):
        if isinstance(v, VTuple):
            if len(v.items) != n:
                self.raise_py(ValueError)
            return v.items
        if isinstance(v, VList):
            ok = z3.Length(v.seqs[0]) == n
            if not self.ctx.branch(ok):
                self.raise_py(ValueError)
            return [self.list_nth(v, z3.IntVal(i)) for i in range(n)]
        if isinstance(v, VGen):
            return self.unpack(v.lst, n)
        return self.models.unpack(self, v, n)

    def setattr(self, obj, name, v):
        if isinstance(obj, VRef):
            if self.models.setattr_hook(self, obj, name, v):
                return
            self.ctx.heap_write(obj, name, v)
            if self.ctx.heap_key(obj.cls, name + '?set')[0] is not None:
                self.ctx.heap_write(obj, name + '?set', VBool(True))       # presence-tracked attribute: now present
        elif isinstance(obj, VExc):
            obj.fields[name] = v
        elif isinstance(obj, VClass):
            self.models.class_setattr(self, obj, name, v)
        else:
            raise OutOfSubset('attribute store on %r' % (obj,))

    def setitem(self, obj, idx, v):
        if isinstance(obj, VEmptyList):
            raise OutOfSubset('item store into an untyped empty container')
        if isinstance(obj, VDict):
            self.ctx.dict_store(obj, self.coerce_key(obj, idx), v)
        elif isinstance(obj, VList):
            raise OutOfSubset('list item store')
        else:
            self.models.setitem(self, obj, idx, v)

    def coerce_key(self, d, k):
        want = d.k.comps()[0][1]
        if isinstance(k, VBool) and want == IntSort:
            return VInt(z3.If(k.term, 1, 0))
        if not hasattr(k, 'term') or k.term.sort() != want:
            raise OutOfSubset('dict key %r does not fit %r' % (k, d.k))
        return k

    def x_Delete(self, s):
        for t in s.targets:
            if isinstance(t, ast.Subscript):
                obj = self.eval(t.value)
                idx = self.eval_index(t.slice)
                if isinstance(obj, VDict):
                    k = self.coerce_key(obj, idx)
                    if not self.ctx.branch(self.ctx.dict_has(obj, k)):
                        self.raise_py(KeyError)
                    self.ctx.dict_del(obj, k)
                elif isinstance(obj, VList) and isinstance(idx, VInt):
                    self.list_del(obj, idx)
                else:
                    self.models.delitem(self, obj, idx)
            elif isinstance(t, ast.Name):
                self.fr.locals.pop(t.id, None)
            else:
                raise OutOfSubset('del of %s' % t.__class__.__name__)

    def x_If(self, s):
        if self.test(self.eval(s.test)):
            self.exec_block(s.body)
        else:
            self.exec_block(s.orelse)

    def x_Raise(self, s):
        if s.exc is None:
            cur = getattr(self.fr, 'handling', None)
            if cur is None:
                raise OutOfSubset('bare raise outside handler')
            raise PyRaise(cur)
        v = self.eval(s.exc)
        if isinstance(v, VClass) and issubclass(v.cls, BaseException):
            v = VExc(v.cls, [])
        if not isinstance(v, VExc):
            raise OutOfSubset('raise of %r' % (v,))
        raise PyRaise(v)

    def x_Try(self, s):
        if s.finalbody:
            raise OutOfSubset('try/finally')
        try:
            self.exec_block(s.body)
        except PyRaise as pr:
            exc = pr.exc
            for h in s.handlers:
                if self.handler_matches(h, exc):
                    if h.name:
                        self.fr.locals[h.name] = exc
                    prev = getattr(self.fr, 'handling', None)
                    self.fr.handling = exc
                    try:
                        self.exec_block(h.body)
                    finally:
                        self.fr.handling = prev
                    break
            else:
                raise
        else:
            self.exec_block(s.orelse)

    def handler_matches(self, h, exc):
        if h.type is None:
            return True
        t = self.eval(h.type)
        classes = []
        if isinstance(t, VClass):
            classes = [t.cls]
        elif isinstance(t, VTuple):
            classes = [i.cls for i in t.items if isinstance(i, VClass)]
        else:
            raise OutOfSubset('except clause type %r' % (t,))
        return any(issubclass(exc.cls, c) for c in classes)

    def x_FunctionDef(self, s):
        self.fr.locals[s.name] = VClosure(s, self.fr.locals, self.fr.glob, self.fr.fn_name + '.' + s.name)

    def x_With(self, s):
        raise OutOfSubset('with statement')

    # -------- loops
    def loop_spec(self, s):
        # loop ordinal = position among the function's own loops in source order (static)
        ids = getattr(self.fr, 'loop_ids', None)
        if ids is None or id(s) not in ids:
            self.fr.loop_no += 1
        else:
            self.fr.loop_no = ids[id(s)]
        c = self.fr.contract
        if c is not None and self.fr.loop_no in c.loops:
            return c.loops[self.fr.loop_no]
        return None

    def assigned_names(self, body):
        names = set()
        for st in body:
            for n in [st] + list(self.walk_own(st)):
                if isinstance(n, ast.Name) and isinstance(n.ctx, (ast.Store, ast.Del)):
                    names.add(n.id)
                if isinstance(n, (ast.Yield, ast.YieldFrom)):
                    names.add('_yields')
                # in-place mutation of a local container: x[k] = v, del x[k], x.append(...) ...
                if isinstance(n, ast.Subscript) and isinstance(n.ctx, (ast.Store, ast.Del)) and isinstance(n.value, ast.Name):
                    names.add(n.value.id)
                if (isinstance(n, ast.Call) and isinstance(n.func, ast.Attribute) and isinstance(n.func.value, ast.Name)
                        and n.func.attr in ('append', 'extend', 'insert', 'pop', 'remove', 'add', 'update', 'clear', 'setdefault', 'reverse', 'sort')):
                    names.add(n.func.value.id)
        return names

    def x_While(self, s):
        spec = self.loop_spec(s)
        no = self.fr.loop_no
        if s.orelse:
            raise OutOfSubset('while/else')
        if spec is None:
            raise OutOfSubset('while loop #%d in %s without invariant' % (no, self.fr.fn_name))
        self.cut_loop(s, spec, no, guard=lambda: self.truthy(self.eval(s.test)), pre_body=None)

    def eval_spec(self, fn, cx, where):
        """evaluate a contract callback; a callback that refers to a local / field the CODE no longer has does not fit this
        version of the function: that is an out-of-subset path (decided by the concrete fallback), not a checker crash"""
        try:
            return list(fn(cx))
        except (KeyError, AttributeError) as e:
            raise OutOfSubset('the contract clause at %s refers to %s, which this version of the function does not have' % (where, e))

    def cut_loop(self, s, spec, no, guard, pre_body, after=None):
        """Invariant-based loop cut: init / preservation+variant / exit."""
        ctx, fr = self.ctx, self.fr
        tag = '%s/loop%d' % (fr.fn_name, no)
        cx0 = self.loop_cx()
        for nm, g in self.eval_spec(spec.invariant, cx0, tag):
            ctx.oblige('%s/inv-init:%s' % (tag, nm), g, kind='inv')
        # havoc
        assigned = self.assigned_names(s.body) | set(spec.havoc_extra)
        for n in sorted(assigned):
            if n in fr.locals:
                fr.locals[n] = self.havoc_value(n, fr.locals[n])
        if spec.modifies:
            for ref, fld in spec.modifies(cx0):
                self.havoc_field(ref, fld)
        cx1 = self.loop_cx()
        for nm, g in self.eval_spec(spec.invariant, cx1, tag):
            ctx.assume(g)
        which = ctx.choose([z3.BoolVal(True), z3.BoolVal(True)])
        g = guard()
        if which == 0:
            # arbitrary iteration
            ctx.assume(g)
            var0 = spec.variant(self.loop_cx()) if spec.variant else None
            try:
                if pre_body:
                    pre_body()
                self.exec_block(s.body)
            except ContinueSig:
                pass
            except BreakSig:
                if after:
                    after()
                return
            cx2 = self.loop_cx()
            for nm, gl in self.eval_spec(spec.invariant, cx2, tag):
                ctx.oblige('%s/inv-preserved:%s' % (tag, nm), gl, kind='inv')
            if spec.variant:
                var1 = spec.variant(cx2)
                ctx.oblige('%s/variant-decreases' % tag, z3.And(var0 >= 0, var1 < var0), kind='variant')
            ctx.covers.add(tag + '/body')
            raise PathEnd()
        else:
            ctx.assume(z3.Not(g))
            if after:
                after()

    def loop_cx(self):
        fr = self.fr
        return Cx(self.ctx, getattr(fr, 'args0', fr.locals), self.ctx.heap0 or {}, self.ctx.heap, L=fr.locals)

    def havoc_value(self, name, v):
        ctx = self.ctx
        if isinstance(v, VInt): return VInt(ctx.fresh('hv_' + name, IntSort))
        if isinstance(v, VBool): return VBool(ctx.fresh('hv_' + name, BoolSort))
        if isinstance(v, VStr): return VStr(ctx.fresh('hv_' + name, StringSort))
        if isinstance(v, VBytes): return VBytes(ctx.fresh('hv_' + name, StringSort))
        if isinstance(v, VChunks): return VChunks(ctx.fresh('hv_' + name, StringSort))
        if isinstance(v, VList):
            return VList(v.t, [ctx.fresh('hv_' + name + s, so) for s, so in v.T.comps()], v.origin)
        if isinstance(v, VRef):
            r = VRef(ctx.fresh('hv_' + name, IntSort), v.cls)
            return r
        if isinstance(v, VDict):
            terms = [ctx.fresh('hv_' + name + s, so) for s, so in v.T.comps()]
            return VDict(v.k, v.v, terms[0], terms[1:], v.origin)
        if isinstance(v, VNone):
            return v   # loop-carried optionals must be declared through havoc types
        raise OutOfSubset('cannot havoc loop-carried local %s = %r' % (name, v))

    def havoc_field(self, ref, fld):
        ctx = self.ctx
        cls, f = fld.split('.')
        key, ty = ctx.heap_key(cls, f)
        arrs = ctx.heap_arrays(key, ty)
        for (s, so), a in zip(ty.comps(), arrs):
            if isinstance(ref, str) and ref == '*':
                ctx.heap[key + s] = ctx.fresh('Hh:' + key + s, z3.ArraySort(IntSort, so))
                if getattr(self, 'havoc_log', None) is not None:
                    self.havoc_log[ctx.heap[key + s].get_id()] = (ctx.heap[key + s], key + s)
            else:
                ctx.heap[key + s] = z3.Store(a, ref.term, ctx.fresh('hf:' + key + s, so))

    def x_For(self, s):
        spec = self.loop_spec(s)
        no = self.fr.loop_no
        it = self.eval(s.iter)
        if s.orelse and any(isinstance(n, ast.Break) for n in self.walk_own(s)):
            pass
        seq = self.iter_items(it)
        if seq is not None:                       # concrete length: complete unrolling
            broke = False
            for item in seq:
                self.assign(s.target, item)
                try:
                    self.exec_block(s.body)
                except ContinueSig:
                    continue
                except BreakSig:
                    broke = True
                    break
            if not broke:
                self.exec_block(s.orelse)
            return
        if spec is None:
            raise OutOfSubset('for loop #%d in %s over a symbolic sequence without invariant'
                              % (no, self.fr.fn_name))
        enum = isinstance(it, VEnum)
        lst = it if isinstance(it, VZip) else self.as_list(it.lst if enum else it)
        kname = spec.ghost_index or '_k%d' % no
        self.fr.locals[kname] = VInt(0)
        self.fr.locals['_seq%d' % no] = lst

        def guard():
            return self.fr.locals[kname].term < lst.length()

        def pre_body():
            k = self.fr.locals[kname]
            if isinstance(lst, VZip):
                item = VTuple([self.list_nth(l, k.term) for l in lst.lists])
            else:
                item = self.list_nth(lst, k.term)
            dv = getattr(lst, 'dictview', None)
            if dv is not None:
                # elements of a key sequence are keys of the dict
                self.ctx.assume(self.ctx.dict_has(dv.d, item))
                if dv.kind == 'values':
                    item = self.ctx.dict_get(dv.d, item)
                elif dv.kind == 'items':
                    item = VTuple([item, self.ctx.dict_get(dv.d, item)])
            self.assign(s.target, VTuple([VInt(k.term), item]) if enum else item)
            self.fr.locals[kname] = VInt(k.term + 1)

        spec2 = LoopSpec(
            invariant=lambda cx: [('k-range', z3.And(cx.l(kname) >= 0, cx.l(kname) <= lst.length()))] + list(spec.invariant(cx)),
            variant=lambda cx: lst.length() - cx.l(kname), modifies=spec.modifies,
            havoc_extra=tuple(spec.havoc_extra) + (kname,))
        if s.orelse:
            self.cut_loop(s, spec2, no, guard, pre_body, after=None)
            self.exec_block(s.orelse)
        else:
            self.cut_loop(s, spec2, no, guard, pre_body)

    def iter_items(self, it):
        """Concrete item list if the iterable has a concrete length, else None."""
        if isinstance(it, VTuple): return list(it.items)
        if isinstance(it, VEmptyList): return []
        if isinstance(it, VGen): return self.iter_items(it.lst)
        if isinstance(it, VPyConst):
            o = it.obj
            if isinstance(o, dict): return [const_to_v(k) for k in o.keys()]
            if isinstance(o, (list, tuple, set, frozenset)): return [const_to_v(x) for x in o]
        if isinstance(it, VList):
            n = z3.simplify(z3.Length(it.seqs[0]))
            if z3.is_int_value(n):
                return [self.list_nth(it, z3.IntVal(i)) for i in range(n.as_long())]
        if isinstance(it, (VStr, VBytes)):
            t = z3.simplify(it.term)
            if z3.is_string_value(t):
                s = z3_unescape(t.as_string())
                return [VStr(c) if isinstance(it, VStr) else VInt(ord(c)) for c in s]
        return None

    def as_list(self, it):
        if isinstance(it, VList): return it
        if isinstance(it, VGen): return self.as_list(it.lst)
        return self.models.as_list(self, it)

    # -------- list primitives (value semantic Seq)
    def list_nth(self, lst, idx):
        view = getattr(lst, 'view', None)
        if view is not None:
            # the list is a window of a parent sequence: read through (same element, simpler term)
            parent, off = view
            terms = [q[z3.simplify(off + idx)] for q in parent]
            for q, t in zip(lst.seqs, terms):
                self.ctx.assume(z3.Implies(z3.And(idx >= 0, idx < z3.Length(q)), q[idx] == t))
            return self.ctx.load(lst.t.wrap(terms))
        for q0, fn in self.ctx.elem_facts:
            if lst.seqs and q0.eq(lst.seqs[0]):
                self.ctx.assume(z3.Implies(z3.And(idx >= 0, idx < z3.Length(q0)), fn(idx, q0[idx])))
        return self.ctx.load(lst.t.wrap([q[idx] for q in lst.seqs]))

    def list_index(self, lst, i):
        n = lst.length()
        it = i.term
        if self.is_concrete_int(i) and self.concrete_int(i) < 0:
            it = n + it
        ok = z3.And(it >= 0, it < n)
        if not self.ctx.branch(ok):
            self.raise_py(IndexError)
        return self.list_nth(lst, it)

    def list_del(self, lst, i):
        n = lst.length()
        it = i.term
        if not self.ctx.branch(z3.And(it >= 0, it < n)):
            self.raise_py(IndexError)
        its = z3.simplify(it)
        if z3.is_int_value(its) and its.as_long() == 0:
            # del l[0]:  l == [head].T  (word equation), l' == T
            new = []
            for q in lst.seqs:
                known = [kt[1] for kt in self.ctx.membership.known_tail if kt[0].eq(q)
                         and (len(kt) < 3 or kt[2] is None or not self.ctx.feasible(z3.Not(kt[2])))]
                if known:
                    new.append(known[0])
                    continue
                from .engine import syntactic_tail
                st = syntactic_tail(q)
                if st is not None:
                    new.append(st)
                    continue
                T = self.ctx.fresh('tail', q.sort())
                self.ctx.assume(q == z3.Concat(z3.Unit(q[0]), T), defines=[T])
                self.ctx.membership.equation(q, z3.Concat(z3.Unit(q[0]), T))
                new.append(T)
            lst.seqs = new
        else:
            lst.seqs = [z3.Concat(z3.SubSeq(q, 0, it), z3.SubSeq(q, it + 1, n - it - 1)) for q in lst.seqs]
        lst.view = None
        self.ctx.writeback(lst)

    def list_append(self, lst, v):
        terms = self.ctx.store_terms(v, lst.t)
        lst.seqs = [z3.Concat(q, z3.Unit(t)) for q, t in zip(lst.seqs, terms)]
        self.ctx.writeback(lst)

    def list_insert0(self, lst, v):
        terms = self.ctx.store_terms(v, lst.t)
        lst.seqs = [z3.Concat(z3.Unit(t), q) for q, t in zip(lst.seqs, terms)]
        self.ctx.writeback(lst)

    # ------------------------------------------------------------------ expressions
    def eval(self, e):
        m = getattr(self, 'e_' + e.__class__.__name__, None)
        if m is None:
            raise OutOfSubset('expression %s (line %d)' % (e.__class__.__name__, getattr(e, 'lineno', 0)))
        return m(e)

    def e_Constant(self, e):
        v = e.value
        if v is Ellipsis:
            raise OutOfSubset('Ellipsis')
        if isinstance(v, float):
            return VOpaque('float')
        return const_to_v(v)

    def e_Name(self, e):
        n = e.id
        fr = self.fr
        if n in fr.locals:
            return fr.locals[n]
        if n in fr.glob:
            return const_to_v(fr.glob[n])
        if hasattr(builtins, n):
            return const_to_v(getattr(builtins, n))
        self.raise_py(NameError)

    def e_Tuple(self, e):
        return VTuple([self.eval(x) for x in e.elts])

    def e_List(self, e):
        items = [self.eval(x) for x in e.elts]
        if not items:
            return VEmptyList()
        if all(isinstance(i, VBytes) for i in items):
            return VChunks(S.concat([i.term for i in items]), items=[i.term for i in items])
        t0 = items[0].T
        if t0 is not None and all(repr(i.T) == repr(t0) for i in items):
            try:
                comps = t0.comps()
                seqs = []
                for ci, (s, so) in enumerate(comps):
                    seqs.append(z3.Concat(*[z3.Unit(i.terms()[ci]) for i in items]) if len(items) > 1
                                else z3.Unit(items[0].terms()[ci]))
                vl = VList(t0, seqs)
                vl.display_items = items           # a literal [a, b]: may be stored where a pair / record is expected
                return vl
            except OutOfSubset:
                pass
        return VTuple(items)       # heterogeneous literal list: immutable view (mutation => oos)

    def e_Dict(self, e):
        if not e.keys:
            return VEmptyList()
        return self.models.dict_display(self, [(self.eval(k), self.eval(v)) for k, v in zip(e.keys, e.values)])

    def e_Set(self, e):
        return VTuple([self.eval(x) for x in e.elts])

    def e_JoinedStr(self, e):
        parts = []
        for p in e.values:
            if isinstance(p, ast.Constant):
                parts.append(VStr(p.value))
            else:
                v = self.eval(p.value)
                if p.conversion != -1 or p.format_spec is not None:
                    v = VOpaque('fmt')
                parts.append(self.to_str(v))
        if all(isinstance(p, VStr) for p in parts):
            return VStr(S.concat([p.term for p in parts]))
        return VOpaque('fstring')

    def to_str(self, v):
        if isinstance(v, VStr): return v
        if isinstance(v, VInt): return VStr(z3.IntToStr(v.term)) if False else self.models.int_to_str(self, v)
        return VOpaque('str()')

    def e_IfExp(self, e):
        return self.eval(e.body) if self.test(self.eval(e.test)) else self.eval(e.orelse)

    def e_Lambda(self, e):
        return VClosure(e, self.fr.locals, self.fr.glob, self.fr.fn_name + '.<lambda>')

    def e_BoolOp(self, e):
        vals = e.values
        cur = self.eval(vals[0])
        for nxt in vals[1:]:
            t = self.truthy(cur)
            ts = z3.simplify(t)
            go_on = isinstance(e.op, ast.And)
            if z3.is_true(ts) or z3.is_false(ts):
                if z3.is_true(ts) == go_on:
                    cur = self.eval(nxt)
                    continue
                return cur
            # symbolic: merge when cheap (same scalar kind and next operand side-effect free)
            if self.pure_expr(nxt):
                save = (list(self.ctx.pc),)
                other = self.eval(nxt)
                merged = self.merge(t if go_on else z3.Not(t), other, cur)
                if merged is not None:
                    cur = merged
                    continue
            if self.ctx.branch(t) == go_on:
                cur = self.eval(nxt)
            else:
                return cur
        return cur

    def pure_expr(self, e):
        for n in ast.walk(e):
            if isinstance(n, (ast.Call, ast.Subscript, ast.Attribute, ast.Yield, ast.Await, ast.NamedExpr)):
                # attribute loads may split optionals / raise: keep them on the branching route
                return False
        return True

    def merge(self, cond, a, b):
        if skind(a) is not skind(b):
            if isinstance(a, (VInt, VBool)) and isinstance(b, (VInt, VBool)):
                at = a.term if isinstance(a, VInt) else z3.If(a.term, 1, 0)
                bt = b.term if isinstance(b, VInt) else z3.If(b.term, 1, 0)
                return VInt(z3.If(cond, at, bt))
            return None
        if isinstance(a, VInt): return VInt(z3.If(cond, a.term, b.term))
        if isinstance(a, VBool): return VBool(z3.If(cond, a.term, b.term))
        if isinstance(a, VStr): return VStr(z3.If(cond, a.term, b.term))
        if isinstance(a, VBytes): return VBytes(z3.If(cond, a.term, b.term))
        return None

    def e_UnaryOp(self, e):
        v = self.eval(e.operand)
        if isinstance(e.op, ast.Not):
            return VBool(z3.Not(self.truthy(v)))
        if isinstance(e.op, ast.USub) and isinstance(v, VInt):
            return VInt(-v.term)
        if isinstance(e.op, ast.UAdd) and isinstance(v, VInt):
            return v
        raise OutOfSubset('unary op %s on %r' % (e.op.__class__.__name__, v))

    def e_BinOp(self, e):
        return self.binop(e.op, self.eval(e.left), self.eval(e.right), e)

    def as_int(self, v):
        if isinstance(v, VInt): return v.term
        if isinstance(v, VBool): return z3.If(v.term, 1, 0)
        return None

    def binop(self, op, a, b, node=None):
        ai, bi = self.as_int(a), self.as_int(b)
        if ai is not None and bi is not None:
            if isinstance(op, ast.Add): return VInt(ai + bi)
            if isinstance(op, ast.Sub): return VInt(ai - bi)
            if isinstance(op, ast.Mult): return VInt(ai * bi)
            if isinstance(op, (ast.FloorDiv, ast.Mod)):
                if not (z3.is_int_value(z3.simplify(bi)) and z3.simplify(bi).as_long() > 0):
                    if not self.ctx.branch(bi != 0):
                        self.raise_py(ZeroDivisionError)
                    if self.ctx.branch(bi < 0):
                        raise OutOfSubset('division by a negative symbolic int')
                return VInt(ai / bi) if isinstance(op, ast.FloorDiv) else VInt(ai % bi)
            if isinstance(op, ast.Pow):
                if z3.is_int_value(z3.simplify(ai)) and z3.is_int_value(z3.simplify(bi)):
                    return VInt(z3.simplify(ai).as_long() ** z3.simplify(bi).as_long())
            if isinstance(op, (ast.BitAnd, ast.BitOr, ast.LShift, ast.RShift)):
                return self.models.bitop(self, op, ai, bi)
            raise OutOfSubset('int op %s' % op.__class__.__name__)
        if isinstance(op, ast.Add):
            if isinstance(a, VStr) and isinstance(b, VStr): return VStr(S.concat([a.term, b.term]))
            if isinstance(a, VBytes) and isinstance(b, VBytes): return VBytes(S.concat([a.term, b.term]))
            if isinstance(a, VBytes) and isinstance(b, VOpaque):
                return VBytes(z3.Concat(a.term, self.ctx.fresh('opaque_bytes', StringSort)))      # known prefix, unknown rest
            if isinstance(a, VOpaque) and isinstance(b, (VStr, VOpaque)): return VOpaque('concat')
            if isinstance(b, VOpaque) and isinstance(a, (VStr, VOpaque)): return VOpaque('concat')
            if isinstance(a, VTuple) and isinstance(b, VTuple): return VTuple(a.items + b.items)
            if isinstance(a, VList) and isinstance(b, VChunks) and b.items is not None and len(a.seqs) == 1:
                return VList(a.t, [z3.Concat(a.seqs[0], *[z3.Unit(t) for t in b.items])])
            if isinstance(a, VList) and isinstance(b, VList) and repr(a.t) == repr(b.t):
                return VList(a.t, [z3.Concat(x, y) for x, y in zip(a.seqs, b.seqs)])
            if isinstance(a, VList) and isinstance(b, VEmptyList): return VList(a.t, list(a.seqs))
            if isinstance(a, (VStr, VBytes)) and isinstance(b, (VStr, VBytes, VInt, VNone)):
                self.raise_py(TypeError)
            if isinstance(a, (VInt,)) and isinstance(b, (VStr, VBytes, VNone)):
                self.raise_py(TypeError)
        if isinstance(op, ast.Mod) and isinstance(a, VStr):
            return self.models.str_format(self, a, b)
        if isinstance(op, ast.Mult) and isinstance(a, (VBytes, VStr)) and bi is not None:
            return self.models.str_repeat(self, a, bi)
        if isinstance(op, ast.Sub) and isinstance(a, VDict) and isinstance(b, VDict):
            return self.models.set_diff(self, a, b)
        return self.models.binop(self, op, a, b)

    def e_Compare(self, e):
        left = self.eval(e.left)
        result = None
        for op, rn in zip(e.ops, e.comparators):
            right = self.eval(rn)
            r = self.compare(op, left, right)
            result = r if result is None else z3.And(result, r)
            left = right
            if len(e.ops) > 1:
                # short-circuit semantics only matter for side effects; comparators here are pure
                pass
        return VBool(result)

    def compare(self, op, a, b):
        neg = isinstance(op, (ast.NotEq, ast.IsNot, ast.NotIn))
        if isinstance(op, (ast.Eq, ast.NotEq)):
            r = self.equal(a, b)
            return z3.Not(r) if neg else r
        if isinstance(op, (ast.Is, ast.IsNot)):
            r = self.identical(a, b)
            return z3.Not(r) if neg else r
        if isinstance(op, (ast.In, ast.NotIn)):
            r = self.contains(b, a)
            return z3.Not(r) if neg else r
        r = self.lazy_len_compare(op, a, b)
        if r is not None:
            return r
        ai, bi = self.as_int(a), self.as_int(b)
        if ai is not None and bi is not None:
            la = a.len_of if isinstance(a, VInt) else None
            lb = b.len_of if isinstance(b, VInt) else None
            r = S.int_compare(op, ai, bi, la, lb)
            if r is not None:
                return r
        if isinstance(a, VStr) and isinstance(b, VStr):
            return self.models.str_order(self, op, a, b)
        raise OutOfSubset('comparison %s between %r and %r' % (op.__class__.__name__, a, b))

    def lazy_len_compare(self, op, a, b):
        """len(<regular string>) against a concrete int without building the Length term."""
        if isinstance(a, VLazyLen) and isinstance(b, VInt) and not isinstance(b, VLazyLen) and self.is_concrete_int(b):
            return S.int_compare(op, None, b.term, a.len_of, None)
        if isinstance(b, VLazyLen) and isinstance(a, VInt) and not isinstance(a, VLazyLen) and self.is_concrete_int(a):
            return S.int_compare(S._FLIP[type(op)](), None, a.term, b.len_of, None)
        return None

    def dyn_equal(self, d, o):
        if isinstance(o, VDyn):
            return z3.And(d.kind == o.kind, z3.Implies(d.kind == 1, d.i == o.i), z3.Implies(d.kind == 2, d.s == o.s),
                          z3.Implies(d.kind == 3, d.i == o.i))
        if isinstance(o, VNone): return d.kind == 0
        if isinstance(o, VBool): return z3.And(d.kind == 1, d.i == z3.If(o.term, 1, 0))
        if isinstance(o, VInt): return z3.And(d.kind == 1, d.i == o.term)
        if isinstance(o, VStr): return z3.And(d.kind == 2, d.s == o.term)
        if isinstance(o, VBytes): return z3.And(d.kind == 4, d.s == o.term)
        return z3.BoolVal(False)

    def equal(self, a, b):
        if isinstance(a, VDyn): return self.dyn_equal(a, b)
        if isinstance(b, VDyn): return self.dyn_equal(b, a)
        if isinstance(a, VNone) or isinstance(b, VNone):
            return z3.BoolVal(isinstance(a, VNone) and isinstance(b, VNone))
        r = self.lazy_len_compare(ast.Eq(), a, b)
        if r is not None:
            return r
        ai, bi = self.as_int(a), self.as_int(b)
        if ai is not None and bi is not None:
            la = a.len_of if isinstance(a, VInt) else None
            lb = b.len_of if isinstance(b, VInt) else None
            r = S.int_compare(ast.Eq(), ai, bi, la, lb)
            return r
        if isinstance(a, (VStr, VBytes)) and skind(a) is skind(b):
            return S.str_equal(a, b)
        if isinstance(a, (VStr, VBytes, VInt, VBool)) and isinstance(b, (VStr, VBytes, VInt, VBool)):
            return z3.BoolVal(False)          # different builtin scalar kinds never compare equal
        if isinstance(a, VRef) and isinstance(b, VRef):
            return a.term == b.term
        if isinstance(a, VTuple) and isinstance(b, VTuple):
            if len(a.items) != len(b.items):
                return z3.BoolVal(False)
            return z3.And([self.equal(x, y) for x, y in zip(a.items, b.items)] + [z3.BoolVal(True)])
        if isinstance(a, VEmptyList) and isinstance(b, VList): return b.length() == 0
        if isinstance(b, VEmptyList) and isinstance(a, VList): return a.length() == 0
        if isinstance(a, VEmptyList) and isinstance(b, VEmptyList): return z3.BoolVal(True)
        if isinstance(a, VList) and isinstance(b, VList):
            return z3.And([x == y for x, y in zip(a.seqs, b.seqs)])
        if isinstance(a, VClass) and isinstance(b, VClass):
            return z3.BoolVal(a.cls == b.cls)
        r = self.models.equal(self, a, b)
        if r is not None:
            return r
        raise OutOfSubset('equality between %r and %r' % (a, b))

    def identical(self, a, b):
        if isinstance(a, VNone) or isinstance(b, VNone):
            # a dynamically typed value may BE None (kind 0): `x is None` asks for its kind
            other = b if isinstance(a, VNone) else a
            if isinstance(other, VDyn):
                return other.kind == 0
            return z3.BoolVal(isinstance(a, VNone) and isinstance(b, VNone))
        if isinstance(a, VRef) and isinstance(b, VRef):
            return a.term == b.term
        if isinstance(a, VClass) and isinstance(b, VClass):
            return z3.BoolVal(a.cls is b.cls)
        if isinstance(a, VBool) and isinstance(b, VBool):
            return a.term == b.term
        if isinstance(a, (VRef, VClass, VFunc)) != isinstance(b, (VRef, VClass, VFunc)):
            return z3.BoolVal(False)
        raise OutOfSubset('identity between %r and %r' % (a, b))

    def contains(self, cont, item):
        if (isinstance(cont, VStr) and isinstance(item, VStr)) or (isinstance(cont, VBytes) and isinstance(item, VBytes)):
            return S.contains_v(cont, item.term)
        if isinstance(cont, VDict):
            return self.ctx.dict_has(cont, self.coerce_key(cont, item))
        if isinstance(cont, VTuple):
            return z3.Or([self.equal(item, x) for x in cont.items] + [z3.BoolVal(False)])
        if isinstance(cont, VPyConst) and isinstance(cont.obj, (dict, set, frozenset, list, tuple)):
            keys = list(cont.obj.keys()) if isinstance(cont.obj, dict) else list(cont.obj)
            return z3.Or([self.equal(item, const_to_v(k)) for k in keys] + [z3.BoolVal(False)])
        if isinstance(cont, VList):
            if len(cont.seqs) == 1:
                return self.ctx.membership.mem(cont.seqs[0], item.terms()[0])
        if isinstance(cont, VEmptyList):
            return z3.BoolVal(False)
        r = self.models.contains(self, cont, item)
        if r is not None:
            return r
        raise OutOfSubset('membership of %r in %r' % (item, cont))

    def e_Attribute(self, e):
        obj = self.eval(e.value)
        return self.getattr(obj, e.attr)

    def getattr(self, obj, name, default=None):
        w = self.world
        if isinstance(obj, VRef):
            hook = self.models.getattr_hook(self, obj, name)
            if hook is not None:
                return hook
            owner, ty = w.field(obj.cls, name)
            if owner is not None:
                return self.ctx.heap_read(obj, name)
            stub = w.method(obj.cls, name)
            if stub is not None:
                return VFunc(stub, obj)
            live = self.live_class(obj.cls)
            if live is not None and hasattr(live, name):
                a = inspect.getattr_static(live, name)
                if isinstance(a, (types.FunctionType,)):
                    return VFunc(a, obj)
                if isinstance(a, (staticmethod, classmethod, property)):
                    raise OutOfSubset('descriptor attribute %s.%s' % (obj.cls, name))
                return const_to_v(a)
            if default is not None:
                return default
            raise OutOfSubset('attribute %s on %s (not a declared field, not on the live class)' % (name, obj.cls))
        if isinstance(obj, VModule):
            if not hasattr(obj.mod, name):
                self.raise_py(AttributeError)
            return const_to_v(getattr(obj.mod, name))
        if isinstance(obj, VClass):
            if not hasattr(obj.cls, name):
                if default is not None:
                    return default
                self.raise_py(AttributeError)
            a = inspect.getattr_static(obj.cls, name)
            hook = self.models.class_getattr(self, obj, name)
            if hook is not None:
                return hook
            if isinstance(a, staticmethod):
                return VFunc(a.__func__)
            if isinstance(a, types.FunctionType):
                return VFunc(a)
            return const_to_v(getattr(obj.cls, name))
        if isinstance(obj, VExc):
            if name in obj.fields:
                return obj.fields[name]
            if name == 'args':
                return VTuple(obj.args)
            if hasattr(obj.cls, name):
                a = inspect.getattr_static(obj.cls, name)
                if isinstance(a, types.FunctionType):
                    return VFunc(a, obj)
                if not callable(a):
                    return const_to_v(a)
            if default is not None:
                return default
            self.raise_py(AttributeError)
        if isinstance(obj, VNone):
            if default is not None:
                return default
            self.raise_py(AttributeError)
        if isinstance(obj, VDyn):
            # attribute / method access on a dynamically typed value: only its str view has methods we model
            if not self.ctx.branch(obj.kind == 2):
                self.raise_py(AttributeError)
            return VMethod(VStr(obj.s), name)
        if isinstance(obj, (VStr, VBytes, VList, VDict, VChunks, VEmptyList, VTuple, VInt, VOpaque, VPyConst, VGen)):
            return VMethod(obj, name)
        if isinstance(obj, VFunc):
            if hasattr(obj.fn, name):
                return const_to_v(getattr(obj.fn, name))
            if default is not None:
                return default
            self.raise_py(AttributeError)
        raise OutOfSubset('attribute %s on %r' % (name, obj))

    def live_class(self, clsname):
        sp = self.world.classes.get(clsname)
        return sp.live if sp else None

    def eval_index(self, sl):
        if isinstance(sl, ast.Slice):
            return ('slice', self.eval(sl.lower) if sl.lower else None,
                    self.eval(sl.upper) if sl.upper else None,
                    self.eval(sl.step) if sl.step else None)
        return self.eval(sl)

    def e_Subscript(self, e):
        obj = self.eval(e.value)
        idx = self.eval_index(e.slice)
        return self.getitem(obj, idx)

    def getitem(self, obj, idx):
        ctx = self.ctx
        if isinstance(idx, tuple) and idx[0] == 'slice':
            _, lo, hi, step = idx
            if step is not None:
                raise OutOfSubset('slice step')
            if isinstance(lo, VNone): lo = None            # s[None:x] / s[i:None]: an omitted bound
            if isinstance(hi, VNone): hi = None
            for bnd in (lo, hi):
                if bnd is not None and not isinstance(bnd, VInt):
                    self.raise_py(TypeError)               # slice indices must be integers or None
            if (S.REGULAR_MODE and isinstance(obj, VStr) and not isinstance(obj, VLazySuffix) and hi is None and lo is not None
                    and self.is_concrete_int(lo) and self.concrete_int(lo) >= 0 and S.regular_var(obj.term)):
                return VLazySuffix(ctx, obj.term, self.concrete_int(lo))
            if isinstance(obj, (VStr, VBytes)):
                t = S.slice_(ctx, obj.term, lo.term if lo else None, hi.term if hi else None,
                             lo_const=self.is_concrete_int(lo) if lo else True,
                             hi_const=self.is_concrete_int(hi) if hi else True)
                return type(obj)(t)
            if isinstance(obj, VTuple):
                lo_c = self.concrete_int(lo) if lo else None
                hi_c = self.concrete_int(hi) if hi else None
                return VTuple(obj.items[lo_c:hi_c])
            if isinstance(obj, VPyConst) and isinstance(obj.obj, (list, tuple)):
                lo_c = self.concrete_int(lo) if lo else None
                hi_c = self.concrete_int(hi) if hi else None
                return VTuple([const_to_v(x) for x in obj.obj[lo_c:hi_c]])
            if isinstance(obj, VList):
                return self.models.list_slice(self, obj, lo, hi)
            raise OutOfSubset('slice of %r' % (obj,))
        if isinstance(obj, (VStr, VBytes)):
            if not isinstance(idx, VInt):
                self.raise_py(TypeError)
            return S.index(self, obj, idx)
        if isinstance(obj, VTuple):
            if isinstance(idx, VInt):
                i = self.concrete_int(idx)
                if not -len(obj.items) <= i < len(obj.items):
                    self.raise_py(IndexError)
                return obj.items[i]
            raise OutOfSubset('tuple index %r' % (idx,))
        if isinstance(obj, VList):
            if isinstance(idx, VInt):
                return self.list_index(obj, idx)
        if isinstance(obj, VEmptyList):
            self.raise_py(IndexError)
        if isinstance(obj, VDict):
            k = self.coerce_key(obj, idx)
            if not ctx.branch(ctx.dict_has(obj, k)):
                self.raise_py(KeyError)
            return ctx.dict_get(obj, k)
        if isinstance(obj, VPyConst) and isinstance(obj.obj, dict):
            r = self.models.const_lookup(self, obj, idx)
            if r is not None:
                return r
            return self.const_dict_lookup(obj.obj, idx)
        if isinstance(obj, VPyConst) and isinstance(obj.obj, (list, tuple)) and isinstance(idx, VInt) and self.is_concrete_int(idx):
            return const_to_v(obj.obj[self.concrete_int(idx)])
        if isinstance(obj, VNone):
            self.raise_py(TypeError)
        if isinstance(obj, VGen):
            self.raise_py(TypeError)
        return self.models.getitem(self, obj, idx)

    def const_dict_lookup(self, d, idx, default=KeyError):
        keys = list(d.keys())
        conds = [self.equal(idx, const_to_v(k)) for k in keys]
        conds.append(z3.Not(z3.Or(conds + [z3.BoolVal(False)])))
        k = self.ctx.choose([z3.simplify(c) for c in conds])
        if k == len(keys):
            if default is KeyError:
                self.raise_py(KeyError)
            return default
        return const_to_v(d[keys[k]])

    def e_ListComp(self, e):
        return self.models.comprehension(self, e)

    def e_GeneratorExp(self, e):
        return self.models.comprehension(self, e)

    def e_SetComp(self, e):
        return self.models.comprehension(self, e)

    def e_Starred(self, e):
        raise OutOfSubset('starred expression')

    # ------------------------------------------------------------------ calls
    def e_Call(self, e):
        f = self.eval(e.func)
        args = []
        for a in e.args:
            if isinstance(a, ast.Starred):
                v = self.eval(a.value)
                items = self.iter_items(v)
                if items is None:
                    return self.models.star_call(self, f, v, e)
                args.extend(items)
            else:
                args.append(self.eval(a))
        kwargs = {}
        for k in e.keywords:
            if k.arg is None:
                v = self.eval(k.value)
                if isinstance(v, VPyConst) and isinstance(v.obj, dict):
                    kwargs.update(v.obj)
                else:
                    extra = self.models.kwargs_expand(self, v)
                    kwargs.update(extra)
            else:
                kwargs[k.arg] = self.eval(k.value)
        return self.call(f, args, kwargs, e)

    def call(self, f, args, kwargs, node=None):
        if isinstance(f, VMethod):
            return self.models.method(self, f.recv, f.name, args, kwargs)
        if isinstance(f, VClosure):
            nc = self.world.by_name.get('nested:' + f.name)
            if nc is not None and not (self.frames and self.frames[0].contract is nc):
                # an inner function under contract: its free variables are read from the defining environment
                extra = {n: f.env[n] for n in nc.params if n not in [a.arg for a in f.node.args.args] and n in f.env}
                return self.call_by_contract(nc, list(args), dict(kwargs, **extra), node)
            return self.call_closure(f, args, kwargs)
        if isinstance(f, VFunc):
            fn = f.fn
            allargs = ([f.self_] if f.self_ is not None else []) + list(args)
            m = self.models.function_model(fn)
            if m is not None:
                return m(self, allargs, kwargs)
            c = self.world.contract_for(fn)
            if c is not None:
                return self.call_by_contract(c, allargs, kwargs, node)
            raw = getattr(fn, '__func__', fn)
            if id(raw) in self.world.inline:
                return self.run_function(raw, allargs, kwargs)
            # a helper of the package without a contract of its own (e.g. after an extract-method
            # refactoring): verified as part of its caller by inlining, to a small depth
            try:
                import inspect as _i, os as _o
                src = _i.getsourcefile(raw) or ''
            except TypeError:
                src = ''
            root = _o.path.realpath(_o.environ.get('TXDBUS_REPO', '/repo')) + _o.sep
            if src and _o.path.realpath(src).startswith(root) and len(self.frames) < 5:
                return self.run_function(raw, allargs, kwargs)
            raise OutOfSubset('call to %s without contract or model' % getattr(fn, '__qualname__', fn))
        if isinstance(f, VClass):
            return self.models.instantiate(self, f.cls, args, kwargs)
        if isinstance(f, VNone):
            self.raise_py(TypeError)
        return self.models.call_other(self, f, args, kwargs)

    def call_closure(self, f, args, kwargs, contract=None, frame_hook=None):
        node = f.node
        saved = self.frames
        # closures share the defining frame's locals for free variables (read-only use here)
        loc = self.bind_closure(node, args, kwargs, f)
        env = _ChainEnv(loc, f.env)
        fr = Frame(f.name, env, f.glob, contract)
        if frame_hook:
            frame_hook(fr)
        return self.run_frame(fr, node)

    def bind_closure(self, node, args, kwargs, f):
        # evaluate defaults in the defining environment
        fr = Frame(f.name, f.env, f.glob)
        self.frames.append(fr)
        try:
            return self.bind(node.args, None, args, kwargs, f.glob)
        finally:
            self.frames.pop()

    # contract application at a call site
    def call_by_contract(self, c, args, kwargs, node=None):
        ctx = self.ctx
        info = function_ast(c.fn)
        fnode = info['node']
        if getattr(c, 'nested', None):
            inner = [n for n in ast.walk(fnode) if isinstance(n, ast.FunctionDef) and n.name == c.nested and n is not fnode][0]
            pnames = [a.arg for a in inner.args.args]
            loc = self.bind(inner.args, None, args, {k: v for k, v in kwargs.items() if k in pnames}, c.fn.__globals__)
            for n in c.params:
                if n not in loc and n in kwargs:
                    loc[n] = kwargs[n]                  # free variables of the inner function
        else:
            loc = self.bind(fnode.args, c.fn, args, kwargs, c.fn.__globals__)
        loc = self.conform_args(c, loc)
        site = 'call:%s@%s' % (c.name.split('.')[-1], getattr(node, 'lineno', '?'))
        old_heap = dict(ctx.heap)
        cx = Cx(ctx, loc, old_heap, None)
        if c.requires:
            for nm, g in c.requires(cx):
                ctx.oblige('%s/pre:%s' % (site, nm), g, kind='pre')
                ctx.assume(g)
        if c.invariants:
            for nm, g in c.invariants(cx):
                ctx.assume(g)
        # recursion bookkeeping (variant / depth) when calling the function under proof
        top = self.frames[0].contract if self.frames else None
        if top is not None and (top is c or (top.rec_group is not None and top.rec_group == c.rec_group)):
            fr0 = self.frames[0]
            if c.decreases is not None:
                ctx.oblige('%s/decreases' % site, z3.And(fr0.dec0 >= 0, c.decreases(cx) < fr0.dec0), kind='variant')
            if c.depth is not None:
                ctx.oblige('%s/stack-depth' % site, z3.And(c.depth[0](cx) >= 0, c.depth[0](cx) < fr0.depth0), kind='depth')
            elif c.decreases is None:
                ctx.oblige('%s/recursion-without-measure' % site, z3.BoolVal(False), kind='depth')
        arg0 = {n: list(v.terms()) for n, v in loc.items() if isinstance(v, (VList, VDict))}
        cx.arg0 = arg0
        for n in c.mutates:
            v = loc.get(n)
            if isinstance(v, VEmptyList):
                raise OutOfSubset('mutable argument %s is an untyped empty container' % n)
            if isinstance(v, VList):
                v.seqs = [ctx.fresh('mut_' + n + sfx, so) for sfx, so in v.T.comps()]
                v.view = None
                ctx.writeback(v)
            elif isinstance(v, VDict):
                terms = [ctx.fresh('mut_' + n + sfx, so) for sfx, so in v.T.comps()]
                v.dom, v.vals = terms[0], terms[1:]
                ctx.writeback(v)
        self.havoc_log = {}
        if c.modifies:
            for ref, fld in c.modifies(cx):
                self.havoc_field(ref, fld)
        havocs, self.havoc_log = self.havoc_log, None
        result = None
        if c.result is not None:
            rty = c.result(cx) if callable(c.result) and not isinstance(c.result, Ty) else c.result     # result type may depend on the call
            result = ctx.fresh_of('ret_' + c.name.split('.')[-1], rty)
            result = ctx.load(result)
        else:
            result = VNone()
        # outcome: normal or one of the declared exceptions
        excs = list(c.raises.items())
        conds = [z3.BoolVal(True)] * (1 + len(excs))
        k = ctx.choose(conds) if excs else 0
        cx2 = Cx(ctx, loc, old_heap, ctx.heap, result)
        cx2.arg0 = arg0
        if not hasattr(ctx, 'call_results'):
            ctx.call_results = {}
        ctx.call_results.setdefault(c.name, []).append(result)
        if k == 0:
            if excs and not c.may_raise_any:
                # normal return excludes the conditions under which an exception is mandatory
                pass
            if c.ensures:
                self.assume_post([g for nm, g in c.ensures(cx2)], havocs)
            return result
        ecls, when = excs[k - 1]
        ctx.assume(when(cx2))
        if ecls in c.raises_post:
            self.assume_post([g for nm, g in c.raises_post[ecls](cx2)], havocs)
        raise PyRaise(self.models.contract_exception(self, ecls))

    def assume_post(self, clauses, havocs):
        """Assume a callee's postcondition.  A top-level conjunct `H == T` whose left side is an array
        constant just introduced by the whole-field havoc of this call is applied as a definition
        (heap[field] := T) instead of being assumed: later reads then resolve syntactically and no
        array equation reaches the solver."""
        ctx = self.ctx
        todo = list(clauses)
        while todo:
            g = todo.pop(0)
            if z3.is_app(g):
                k = g.decl().kind()
                if k == z3.Z3_OP_AND:
                    todo = list(g.children()) + todo
                    continue
                if k == z3.Z3_OP_IMPLIES:
                    gd = z3.simplify(g.arg(0))
                    if z3.is_true(gd):
                        todo.insert(0, g.arg(1))
                        continue
                    if z3.is_false(gd):
                        continue
                if k == z3.Z3_OP_EQ and havocs:
                    a, b = g.arg(0), g.arg(1)
                    for x, y in ((a, b), (b, a)):
                        h = havocs.get(x.get_id())
                        if h is not None and h[0].eq(x) and ctx.heap.get(h[1]) is not None and ctx.heap[h[1]].eq(x) \
                                and x.get_id() not in {t.get_id() for t in self.subterm_consts(y)}:
                            ctx.heap[h[1]] = y
                            del havocs[x.get_id()]
                            g = None
                            break
                    if g is None:
                        continue
            ctx.assume(g)

    @staticmethod
    def subterm_consts(t):
        out, todo, seen = [], [t], set()
        while todo:
            x = todo.pop()
            if x.get_id() in seen:
                continue
            seen.add(x.get_id())
            if z3.is_const(x):
                out.append(x)
            todo.extend(x.children())
        return out

    def conform_args(self, c, loc):
        out = {}
        for n, v in loc.items():
            ty = c.params.get(n)
            if ty is None:
                out[n] = v
                continue
            out[n] = self.conform(v, ty, '%s(%s)' % (c.name, n))
        return out

    def conform(self, v, ty, what):
        """View value v at declared type ty (split optionals, check kinds)."""
        if isinstance(ty, Opt):
            if isinstance(v, VNone):
                return v
            return self.conform(v, ty.t, what)
        if isinstance(ty, _v._TOpaque):
            return v
        if isinstance(v, VEmptyList) and isinstance(ty, ListT):
            return VList(ty.t, [z3.Empty(so) for s, so in ty.comps()])
        if isinstance(ty, _v._TBool) and isinstance(v, VBool): return v
        if isinstance(ty, _v._TInt) and isinstance(v, (VInt, VBool)):
            return v if isinstance(v, VInt) else VInt(z3.If(v.term, 1, 0))
        if isinstance(ty, _v._TStr) and isinstance(v, VStr): return v
        if isinstance(ty, _v._TStr) and isinstance(v, VDyn):
            # a dynamically typed value handed to code that needs a str: anything else fails with TypeError there
            if not self.ctx.branch(v.kind == 2):
                self.raise_py(TypeError)
            return VStr(v.s)
        if isinstance(ty, _v._TBytes) and isinstance(v, VBytes): return v
        if isinstance(ty, _v._TDyn):
            if isinstance(v, VDyn): return v
            if isinstance(v, (VStr, VInt, VBool, VNone, VBytes)):
                k, s_, i_ = self.ctx.store_terms(v, ty)
                return VDyn(k, s_, i_)
        if isinstance(ty, _v._TChunks) and isinstance(v, VChunks): return v
        if isinstance(ty, _v._TChunks) and isinstance(v, VEmptyList): return VChunks(z3.StringVal(''))
        if isinstance(ty, Ref) and isinstance(v, VRef): return v
        if isinstance(ty, ListT) and isinstance(v, VList): return v
        if isinstance(ty, ListT) and isinstance(v, VTuple):
            # a display with concretely many elements passed where a list is expected
            return VList(ty.t, self.ctx.store_terms(v, ty))
        if isinstance(ty, DictT) and isinstance(v, VDict): return v
        if isinstance(ty, TupleT) and isinstance(v, VTuple):
            if len(v.items) == len(ty.ts):
                return VTuple([self.conform(i, t, what) for i, t in zip(v.items, ty.ts)])
            return v
        if isinstance(ty, _v._TNone) and isinstance(v, VNone): return v
        raise OutOfSubset('argument %s: %r does not fit declared type %r' % (what, v, ty))


class _ChainEnv(dict):
    """locals of a closure call: own bindings first, then the defining environment (live view)."""
    def __init__(self, own, parent):
        super().__init__(own)
        self.parent = parent

    def __contains__(self, k):
        return dict.__contains__(self, k) or k in self.parent

    def __getitem__(self, k):
        if dict.__contains__(self, k):
            return dict.__getitem__(self, k)
        return self.parent[k]

    def get(self, k, d=None):
        return self[k] if k in self else d
