"""SMT helpers shared by the executor (feasibility) and the prover (obligations)."""
import z3


def regex_fold(formulas):
    """If the query is a boolean combination of InRe atoms over ONE string variable (plus free
    boolean constants), fold it into single-regex membership queries (one per assignment of the
    boolean constants): z3 decides those quickly, the mixed form often not (DESIGN 3.5)."""
    var = [None]
    bools = {}

    def scan(f):
        if z3.is_true(f) or z3.is_false(f):
            return True
        if not z3.is_app(f):
            return False
        k = f.decl().kind()
        if k in (z3.Z3_OP_AND, z3.Z3_OP_OR, z3.Z3_OP_NOT, z3.Z3_OP_IMPLIES):
            return all(scan(c) for c in f.children())
        if k == z3.Z3_OP_SEQ_IN_RE:
            x = f.arg(0)
            if not (z3.is_const(x) and x.decl().kind() == z3.Z3_OP_UNINTERPRETED):
                return False
            if var[0] is None:
                var[0] = x
            return var[0].eq(x)
        if k == z3.Z3_OP_UNINTERPRETED and f.num_args() == 0 and z3.is_bool(f):
            bools[f.get_id()] = f
            return True
        if k in (z3.Z3_OP_SEQ_PREFIX, z3.Z3_OP_SEQ_SUFFIX, z3.Z3_OP_SEQ_CONTAINS, z3.Z3_OP_EQ):
            a, b = f.arg(0), f.arg(1)
            if k == z3.Z3_OP_SEQ_CONTAINS:
                x, cst = a, b
            elif k == z3.Z3_OP_EQ:
                x, cst = (a, b) if z3.is_string_value(b) else (b, a)
            else:
                x, cst = b, a
            if not (z3.is_string(x) and z3.is_string_value(cst)):
                return False
            if not (z3.is_const(x) and x.decl().kind() == z3.Z3_OP_UNINTERPRETED):
                return False
            if var[0] is None:
                var[0] = x
            return var[0].eq(x)
        return False

    if not all(scan(f) for f in formulas) or var[0] is None or len(bools) > 5:
        return None
    rs = z3.ReSort(z3.StringSort())

    def conv(f, asg):
        if z3.is_true(f): return z3.Full(rs)
        if z3.is_false(f): return z3.Empty(rs)
        k = f.decl().kind()
        ch = f.children()
        if k == z3.Z3_OP_AND:
            rr = [conv(c, asg) for c in ch]
            return rr[0] if len(rr) == 1 else z3.Intersect(*rr)
        if k == z3.Z3_OP_OR:
            rr = [conv(c, asg) for c in ch]
            return rr[0] if len(rr) == 1 else z3.Union(*rr)
        if k == z3.Z3_OP_NOT:
            return z3.Complement(conv(ch[0], asg))
        if k == z3.Z3_OP_IMPLIES:
            return z3.Union(z3.Complement(conv(ch[0], asg)), conv(ch[1], asg))
        if k == z3.Z3_OP_SEQ_IN_RE:
            return f.arg(1)
        if k == z3.Z3_OP_SEQ_PREFIX:
            return z3.Concat(z3.Re(f.arg(0)), z3.Full(rs))
        if k == z3.Z3_OP_SEQ_SUFFIX:
            return z3.Concat(z3.Full(rs), z3.Re(f.arg(0)))
        if k == z3.Z3_OP_SEQ_CONTAINS:
            return z3.Concat(z3.Full(rs), z3.Re(f.arg(1)), z3.Full(rs))
        if k == z3.Z3_OP_EQ:
            return z3.Re(f.arg(1) if z3.is_string_value(f.arg(1)) else f.arg(0))
        return z3.Full(rs) if asg[f.get_id()] else z3.Empty(rs)

    ids = list(bools)
    queries = []
    for m in range(1 << len(ids)):
        asg = {i: bool(m >> j & 1) for j, i in enumerate(ids)}
        rr = [conv(f, asg) for f in formulas]
        queries.append((z3.InRe(var[0], rr[0] if len(rr) == 1 else z3.Intersect(*rr)), asg))
    return var[0], queries, bools



def fold_check(formulas, timeout_ms):
    """sat / unsat / unknown through regex folding, or None when folding does not apply."""
    f = regex_fold(formulas)
    if f is None:
        return None
    x, queries, bools = f
    res = z3.unsat
    for q, asg in queries:
        s = z3.Solver()
        s.set('timeout', timeout_ms)
        s.add(q)
        r = s.check()
        if r == z3.sat:
            return z3.sat
        if r != z3.unsat:
            res = z3.unknown
    return res


class Abstractor:
    """Over-approximating abstraction used for path FEASIBILITY only: string/sequence atoms become
    free booleans and Length(t) a free non-negative integer, so the check is plain LIA+UF+arrays.
    unsat of the abstraction implies unsat of the original (paths are never wrongly pruned);
    a sat answer may keep a path whose condition is really unsatisfiable - its obligations then
    hold vacuously and are discharged by the full query."""
    def __init__(self):
        self.cache = {}
        self.side = []

    def is_seqish(self, srt):
        k = srt.kind()
        if k == z3.Z3_SEQ_SORT or k == z3.Z3_RE_SORT:
            return True
        if k == z3.Z3_ARRAY_SORT:
            return self.is_seqish(srt.range()) or self.is_seqish(srt.domain())
        return False

    def has_seq(self, t, memo):
        k = t.get_id()
        if k in memo:
            return memo[k]
        r = self.is_seqish(t.sort()) or any(self.has_seq(c, memo) for c in t.children())
        memo[k] = r
        return r

    def abs(self, t, memo=None):
        memo = {} if memo is None else memo
        k = t.get_id()
        if k in self.cache and self.cache[k][0].eq(t):
            return self.cache[k][1]
        if not self.has_seq(t, memo):
            r = t
        elif z3.is_bool(t) and z3.is_app(t) and t.decl().kind() in (z3.Z3_OP_AND, z3.Z3_OP_OR, z3.Z3_OP_NOT, z3.Z3_OP_IMPLIES, z3.Z3_OP_ITE, z3.Z3_OP_XOR) or \
                (z3.is_bool(t) and z3.is_app(t) and t.decl().kind() in (z3.Z3_OP_EQ, z3.Z3_OP_DISTINCT) and not self.is_seqish(t.arg(0).sort())) or \
                (z3.is_app(t) and not self.is_seqish(t.sort()) and t.decl().kind() in (z3.Z3_OP_LE, z3.Z3_OP_GE, z3.Z3_OP_LT, z3.Z3_OP_GT, z3.Z3_OP_ADD, z3.Z3_OP_SUB, z3.Z3_OP_MUL, z3.Z3_OP_UMINUS, z3.Z3_OP_MOD, z3.Z3_OP_IDIV, z3.Z3_OP_ITE)):
            ch = [self.abs(c, memo) for c in t.children()]
            r = t.decl()(*ch)
        elif z3.is_app(t) and t.decl().kind() == z3.Z3_OP_SEQ_LENGTH:
            r = z3.Const('absLen!%d' % k, z3.IntSort())
            self.side.append(r >= 0)
        elif z3.is_bool(t):
            r = z3.Const('absB!%d' % k, z3.BoolSort())
        elif t.sort() == z3.IntSort():
            r = z3.Const('absI!%d' % k, z3.IntSort())
        else:
            r = z3.Const('absX!%d' % k, t.sort()) if not self.is_seqish(t.sort()) else t
        self.cache[k] = (t, r)        # keeping t alive keeps its id from being recycled
        return r


def deselect(formulas):
    """Replace every Select on a base (uninterpreted constant) array by a fresh constant, adding the
    functional-consistency (Ackermann) clauses  i == j  =>  a[i] == a[j].  Equisatisfiable for the
    select-only fragment; formulas that still contain stores keep their array terms.  z3's sequence
    solver is much more complete without string-valued arrays in the query."""
    sels = {}

    def walk(t, seen):
        if t.get_id() in seen or not z3.is_app(t):
            return
        seen.add(t.get_id())
        for c in t.children():
            walk(c, seen)
        if t.decl().kind() == z3.Z3_OP_SELECT and z3.is_const(t.arg(0)) and t.arg(0).decl().kind() == z3.Z3_OP_UNINTERPRETED:
            sels[t.get_id()] = t
    seen = set()
    for f in formulas:
        walk(f, seen)
    if not sels:
        return formulas
    order = sorted(sels.values(), key=lambda t: len(t.sexpr()))      # inner selects first
    pairs = []
    done = []
    for i, t in enumerate(order):
        t2 = z3.substitute(t, *pairs) if pairs else t              # indices already abstracted
        c = z3.Const('sel!%d' % i, t.sort())
        pairs.append((t, c))
        done.append((t.arg(0), z3.substitute(t.arg(1), *pairs[:-1]) if pairs[:-1] else t.arg(1), c))
    out = [z3.substitute(f, *reversed(pairs)) if False else _subst_all(f, pairs) for f in formulas]
    by_arr = {}
    for arr, idx, c in done:
        by_arr.setdefault(arr.get_id(), []).append((idx, c))
    for lst in by_arr.values():
        for a in range(len(lst)):
            for b in range(a + 1, len(lst)):
                if not lst[a][0].eq(lst[b][0]):
                    out.append(z3.Implies(lst[a][0] == lst[b][0], lst[a][1] == lst[b][1]))
    return out


def _subst_all(f, pairs):
    # largest terms first so that outer selects are replaced before their inner parts change
    for a, b in reversed(pairs):
        f = z3.substitute(f, (a, b))
    return f
