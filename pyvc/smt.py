"""SMT helpers shared by the executor (feasibility) and the prover (obligations)."""
import z3


def regex_fold(formulas):
    """If the query is a boolean combination of InRe atoms over ONE string variable (plus free
    boolean constants), fold it into single-regex membership queries (one per assignment of the
    boolean constants): z3 decides those quickly, the mixed form often not (DESIGN 3.5)."""
    var = [None]
    bools = {}

    def scan(f):
        if z3.is_true(f) or z3.is_false(f):
            return True
        if not z3.is_app(f):
            return False
        k = f.decl().kind()
        if k in (z3.Z3_OP_AND, z3.Z3_OP_OR, z3.Z3_OP_NOT, z3.Z3_OP_IMPLIES):
            return all(scan(c) for c in f.children())
        if k == z3.Z3_OP_SEQ_IN_RE:
            x = f.arg(0)
            if not (z3.is_const(x) and x.decl().kind() == z3.Z3_OP_UNINTERPRETED):
                return False
            if var[0] is None:
                var[0] = x
            return var[0].eq(x)
        if k == z3.Z3_OP_UNINTERPRETED and f.num_args() == 0 and z3.is_bool(f):
            bools[f.get_id()] = f
            return True
        if k in (z3.Z3_OP_SEQ_PREFIX, z3.Z3_OP_SEQ_SUFFIX, z3.Z3_OP_SEQ_CONTAINS, z3.Z3_OP_EQ):
            a, b = f.arg(0), f.arg(1)
            if k == z3.Z3_OP_SEQ_CONTAINS:
                x, cst = a, b
            elif k == z3.Z3_OP_EQ:
                x, cst = (a, b) if z3.is_string_value(b) else (b, a)
            else:
                x, cst = b, a
            if not (z3.is_string(x) and z3.is_string_value(cst)):
                return False
            if not (z3.is_const(x) and x.decl().kind() == z3.Z3_OP_UNINTERPRETED):
                return False
            if var[0] is None:
                var[0] = x
            return var[0].eq(x)
        return False

    if not all(scan(f) for f in formulas) or var[0] is None or len(bools) > 5:
        return None
    rs = z3.ReSort(z3.StringSort())

    def conv(f, asg):
        if z3.is_true(f): return z3.Full(rs)
        if z3.is_false(f): return z3.Empty(rs)
        k = f.decl().kind()
        ch = f.children()
        if k == z3.Z3_OP_AND:
            rr = [conv(c, asg) for c in ch]
            return rr[0] if len(rr) == 1 else z3.Intersect(*rr)
        if k == z3.Z3_OP_OR:
            rr = [conv(c, asg) for c in ch]
            return rr[0] if len(rr) == 1 else z3.Union(*rr)
        if k == z3.Z3_OP_NOT:
            return z3.Complement(conv(ch[0], asg))
        if k == z3.Z3_OP_IMPLIES:
            return z3.Union(z3.Complement(conv(ch[0], asg)), conv(ch[1], asg))
        if k == z3.Z3_OP_SEQ_IN_RE:
            return f.arg(1)
        if k == z3.Z3_OP_SEQ_PREFIX:
            return z3.Concat(z3.Re(f.arg(0)), z3.Full(rs))
        if k == z3.Z3_OP_SEQ_SUFFIX:
            return z3.Concat(z3.Full(rs), z3.Re(f.arg(0)))
        if k == z3.Z3_OP_SEQ_CONTAINS:
            return z3.Concat(z3.Full(rs), z3.Re(f.arg(1)), z3.Full(rs))
        if k == z3.Z3_OP_EQ:
            return z3.Re(f.arg(1) if z3.is_string_value(f.arg(1)) else f.arg(0))
        return z3.Full(rs) if asg[f.get_id()] else z3.Empty(rs)

    ids = list(bools)
    queries = []
    for m in range(1 << len(ids)):
        asg = {i: bool(m >> j & 1) for j, i in enumerate(ids)}
        rr = [conv(f, asg) for f in formulas]
        queries.append((z3.InRe(var[0], rr[0] if len(rr) == 1 else z3.Intersect(*rr)), asg))
    return var[0], queries, bools



def fold_check(formulas, timeout_ms):
    """sat / unsat / unknown through regex folding, or None when folding does not apply."""
    f = regex_fold(formulas)
    if f is None:
        return None
    x, queries, bools = f
    res = z3.unsat
    for q, asg in queries:
        s = z3.Solver()
        s.set('timeout', timeout_ms)
        s.add(q)
        r = s.check()
        if r == z3.sat:
            return z3.sat
        if r != z3.unsat:
            res = z3.unknown
    return res
