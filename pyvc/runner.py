"""Per-property check runner: prove targets in parallel, replay refutations, write evidence."""
import concurrent.futures as cf
import importlib
import json
import multiprocessing as mp
import os
import sys
import time
import traceback

VERIF = os.path.dirname(os.path.dirname(os.path.abspath(__file__)))
REPO = os.environ.get('TXDBUS_REPO', '/repo')
OUT = os.environ.get('PYVC_OUT', None)        # testing only: write evidence / replays somewhere else (seed regression on a scratch tree)


def setup_paths():
    for p in (VERIF, REPO):
        if p in sys.path:
            sys.path.remove(p)
    sys.path.insert(0, VERIF)
    sys.path.insert(0, REPO)
    for m in list(sys.modules):
        if m == 'txdbus' or m.startswith('txdbus.'):
            del sys.modules[m]
    import txdbus
    f = os.path.realpath(txdbus.__file__)
    if not f.startswith(os.path.realpath(REPO) + os.sep):
        raise RuntimeError('txdbus imported from %s, not from %s' % (f, REPO))


def load_spec(modname, tier):
    setup_paths()
    mod = importlib.import_module('contracts.' + modname)
    spec = mod.build(tier)
    from pyvc import strings
    strings.REGULAR_MODE = bool(getattr(spec, 'regular_strings', False))
    return spec


def _prove_one(task):
    modname, target, tier, inner = task
    try:
        from pyvc import verify
        spec = load_spec(modname, tier)
        world = getattr(spec, 'worlds', {}).get(target, spec.world)      # a target may be proved in its own world of contracts
        c = world.by_name[target]
        rep = verify.prove_function(world, spec.make_models, c, timeout_ms=spec.z3_ms, inner_jobs=inner)
        return rep.as_dict()
    except Exception:
        return {'name': target, 'crash': traceback.format_exc()}


class WatchdogExpired(BaseException):
    """not an Exception: code under test catching Exception must not swallow the watchdog"""


def _run_bounded(task):
    modname, idx, tier, seed = task
    try:
        spec = load_spec(modname, tier)
        b = spec.bounded[idx]
        t0 = time.time()
        # watchdog: a stand-in that does not finish (the code under test looping on a generated input, most likely) must not
        # hang the check; it is reported as a checker error (undecided), the deductive obligations still speak
        import signal

        def _expired(signum, frame):
            raise WatchdogExpired('bounded stand-in exceeded its wall-clock limit')
        limit = int(os.environ.get('PYVC_BOUNDED_LIMIT_S', '1500' if tier != 'thorough' else '6000'))
        old = signal.signal(signal.SIGALRM, _expired)
        # repeating: code under test that swallows the first expiry (a bare except in a retry loop) is interrupted again
        signal.setitimer(signal.ITIMER_REAL, limit, 5)
        # Twisted's default log observer writes every error the code under test logs (callbacks that raise on purpose) to stderr:
        # hundreds of kilobytes of tracebacks that decide nothing; the scenarios observe outcomes themselves
        try:
            from twisted.logger import globalLogBeginner as _glb
            _glb.beginLoggingTo([lambda event: None], redirectStandardIO=False, discardBuffer=True)
        except Exception:
            pass
        try:
            out = b['run'](tier, seed)
        except WatchdogExpired as e:
            return {'name': b['name'], 'crash': 'WatchdogExpired: %s (limit %d s)' % (e, limit)}
        finally:
            signal.setitimer(signal.ITIMER_REAL, 0)
            signal.signal(signal.SIGALRM, old)
        out['secs'] = round(time.time() - t0, 2)
        out['name'] = b['name']
        return out
    except Exception as e:
        # an exception the stand-in did not anticipate.  Raised INSIDE the code under test while a scenario of the property ran,
        # it is the code's behaviour on that scenario - reported as a failure of the stand-in (the traceback is the evidence; the
        # scenario itself is not known here, hence 'no-failing-input-found'); raised in the harness itself it is a checker error
        tb = traceback.extract_tb(e.__traceback__)
        last = tb[-1].filename if tb else ''
        if last.startswith(os.path.join(REPO, '')):
            try:
                name = load_spec(modname, tier).bounded[idx]['name']
            except Exception:
                name = 'bounded#%d' % idx
            return {'name': name, 'tool': 'bounded stand-in (ended by an exception raised in the code under test)', 'bound': 'n/a', 'evaluations': 1,
                    'failures': [{'function': '%s:%d %s' % (os.path.relpath(last, REPO), tb[-1].lineno, tb[-1].name), 'clause': 'unexpected-exception', 'input': None,
                                  'no_input': True, 'detail': '%s: %s\n%s' % (type(e).__name__, e, ''.join(traceback.format_tb(e.__traceback__)[-6:]))}]}
        return {'name': 'bounded#%d' % idx, 'crash': traceback.format_exc()}


class Spec:
    """What a contracts/<cNN>.py module's build() returns."""
    def __init__(self, property_id, world, make_models, targets, replay=None, bounded=None,
                 assumed=None, trusted=None, notes=None, z3_ms=None, clause_filter=None,
                 explanation='', design_ref='', python_semantics=None, known_clause_map=None,
                 regular_strings=False):
        self.regular_strings = regular_strings
        self.level = 'proof'      # evidence level when everything is discharged ('exploration' when the bounded part is what decides)
        self.lemmas = []          # [(name, z3 formula)]: theory lemmas used by the contracts, proved on every run
        self.property_id, self.world, self.make_models = property_id, world, make_models
        self.targets = targets                    # list of contract names to prove
        self.replay = replay                      # fn(function, clause, model) -> dict
        self.bounded = bounded or []              # [{'name','run': fn(tier, seed)->dict}]
        self.assumed = assumed or []
        self.trusted = trusted or []
        self.notes = notes or []
        self.z3_ms = z3_ms
        self.explanation = explanation
        self.design_ref = design_ref


def load_known_findings():
    p = os.path.join(VERIF, 'known_findings.json')
    if not os.path.exists(p):
        return []
    return json.load(open(p)).get('findings', [])


def load_ledger():
    p = os.path.join(VERIF, 'baseline', 'obligations.json')
    if not os.path.exists(p):
        return {}
    return json.load(open(p))


def run_property(modname, tier='quick', seed=0, jobs=None, write_ledger=False):
    t0 = time.time()
    spec = load_spec(modname, tier)
    pid = spec.property_id
    jobs = jobs or min(16, os.cpu_count() or 4)
    ctx = mp.get_context('spawn')
    inner = jobs if len(spec.targets) <= 4 else max(1, jobs // max(1, len(spec.targets)))
    tasks = [(modname, t, tier, inner) for t in spec.targets]
    btasks = [(modname, i, tier, seed) for i in range(len(spec.bounded))]
    reports, bounded = [], []
    with cf.ProcessPoolExecutor(max_workers=jobs, mp_context=ctx) as ex:
        futs = [ex.submit(_prove_one, t) for t in tasks]
        bfuts = [ex.submit(_run_bounded, t) for t in btasks]
        for f in futs:
            reports.append(f.result())
        for f in bfuts:
            bounded.append(f.result())
    if spec.lemmas:
        from pyvc import verify
        obl = []
        for name, f in spec.lemmas:
            st, be, sc, mo, de = verify.smt_check([], f, spec.z3_ms, None)
            obl.append({'name': 'lemma:' + name, 'status': st, 'backend': be, 'secs': round(sc, 3), 'where': 'lemmas',
                        'kind': 'lemma', 'model': mo, 'detail': de or '', 'npaths': 1})
        reports.append({'name': 'contracts.%s.lemmas' % modname, 'file': os.path.join(VERIF, 'contracts', modname + '.py'),
                        'lines': [0, 0], 'sha256': '', 'paths': len(obl), 'feasible_end_paths': 1, 'out_of_subset': [],
                        'secs': round(sum(o['secs'] for o in obl), 3), 'error': None, 'obligations': obl})
    return finish(spec, modname, tier, seed, reports, bounded, t0, write_ledger)


def finish(spec, modname, tier, seed, reports, bounded, t0, write_ledger=False):
    pid = spec.property_id
    known = [k for k in load_known_findings() if k.get('property') == pid and k.get('status') == 'known']
    ledger = load_ledger().get(pid, [])
    crashes = [r for r in reports if 'crash' in r] + [b for b in bounded if 'crash' in b]
    lines, violations, known_hit, undecided, checker_errors = [], [], [], [], []
    n_obl = n_dis = 0
    os.makedirs(os.path.join(OUT or VERIF, 'replays'), exist_ok=True)
    os.makedirs(os.path.join(OUT or VERIF, 'evidence'), exist_ok=True)
    for r in crashes:
        checker_errors.append('crash in %s: %s' % (r['name'], r['crash'].strip().split('\n')[-1]))
        sys.stderr.write(r['crash'])
    samples = []
    for r in reports:
        if 'crash' in r:
            continue
        if r['error']:
            undecided.append({'function': r['name'], 'clause': '*', 'why': r['error']})
            continue
        for oos in r['out_of_subset']:
            undecided.append({'function': r['name'], 'clause': '(path)', 'why': 'out of subset: ' + oos})
        if not r['obligations'] and not r['out_of_subset']:
            checker_errors.append('zero obligations for %s' % r['name'])
        if r['feasible_end_paths'] == 0 and not r['out_of_subset']:
            checker_errors.append('vacuity: no feasible path reaches the end of %s' % r['name'])
        if r.get('has_ensures') and r.get('return_paths', 0) > 0 and r.get('live_return_paths', 1) == 0:
            checker_errors.append('vacuity: every normally returning path of %s has a contradictory path condition' % r['name'])
        if r.get('has_ensures') and r.get('return_paths', 1) == 0 and not r['out_of_subset']:
            checker_errors.append('vacuity: no explored path of %s returns normally, its postcondition was never checked' % r['name'])
        for o in r['obligations']:
            n_obl += 1
            cid = '%s/%s/%s' % (pid, r['name'], o['name'])
            if o['status'] == 'discharged':
                n_dis += 1
                if len(samples) < 6:
                    samples.append({'obligation': cid, 'status': 'discharged', 'backend': o['backend'],
                                    'paths': o['npaths'], 'secs': o['secs']})
                continue
            if o['status'] == 'undecided':
                undecided.append({'function': r['name'], 'clause': o['name'], 'why': o['detail'] or 'solver unknown/timeout'})
                continue
            # refuted: replay on the real code
            rp = None
            if spec.replay:
                try:
                    rp = spec.replay(r['name'], o['name'], o['model'] or {})
                except Exception:
                    rp = {'reproduced': False, 'detail': 'replay crashed: ' + traceback.format_exc()}
            entry = {'property': pid, 'obligation': cid, 'function': r['name'], 'clause': o['name'],
                     'solver_model': o['model'], 'backend': o['backend'], 'replay': rp,
                     'repo': REPO, 'tier': tier}
            kf = match_known(known, r['name'], o['name'], rp)
            if kf is not None:
                known_hit.append((kf, cid))
                continue
            fn = os.path.join(OUT or VERIF, 'replays', '%s_%s.json' % (pid, safe('.'.join(r['name'].split('.')[-2:]) + '_' + o['name'])))
            if rp and rp.get('reproduced'):
                json.dump(entry, open(fn, 'w'), indent=1, default=str)
                violations.append((cid, fn, ''))
            elif cid in ledger:
                entry['note'] = 'clause discharged on the committed tree (ledger) and refuted now; no concrete failing input found'
                json.dump(entry, open(fn, 'w'), indent=1, default=str)
                violations.append((cid, fn, ' no-failing-input-found'))
            else:
                undecided.append({'function': r['name'], 'clause': o['name'],
                                  'why': 'refuted abstractly but not reproduced on the real code and not in the ledger: ' + str((rp or {}).get('detail', ''))[:300]})
    # undecided clauses / out-of-subset paths: concrete search on the real code through the
    # property's replay harness (bounded stand-in, DESIGN 3.9); a failure found there is a violation
    searched = set()
    fallback = []
    if spec.replay:
        for u in undecided:
            if u['function'] in searched:
                continue
            searched.add(u['function'])
            try:
                rp = spec.replay(u['function'], 'search:' + u['clause'], {})
            except Exception:
                rp = {'reproduced': False, 'detail': 'search crashed: ' + traceback.format_exc()[-300:]}
            fallback.append({'function': u['function'], 'tool': 'concrete differential search (replay harness)',
                             'found': bool(rp.get('reproduced')), 'detail': str(rp.get('detail'))[:300]})
            if rp.get('reproduced'):
                kf = match_known(known, u['function'], u['clause'], rp)
                if kf is not None:
                    known_hit.append((kf, u['function']))
                    continue
                fn = os.path.join(OUT or VERIF, 'replays', '%s_%s.json' % (pid, safe('.'.join(u['function'].split('.')[-2:]) + '_search')))
                json.dump({'property': pid, 'function': u['function'], 'clause': 'search:' + u['clause'],
                           'obligation': '%s/%s/%s (undecided deductively; failing input found by concrete search)' % (pid, u['function'], u['clause']),
                           'solver_model': {}, 'replay': rp, 'repo': REPO, 'tier': tier}, open(fn, 'w'), indent=1, default=str)
                violations.append(('%s/%s/search' % (pid, u['function']), fn, ''))
    bounded_out = []
    for b in bounded:
        if 'crash' in b:
            continue
        bounded_out.append({k: b[k] for k in b if k != 'failures'})
        for fl in b.get('failures', []):
            kf = match_known(known, fl.get('function', b['name']), fl.get('clause', ''), {'reproduced': True, 'input': fl.get('input')})
            if kf is not None:
                known_hit.append((kf, b['name']))
                continue
            fn = os.path.join(OUT or VERIF, 'replays', '%s_%s.json' % (pid, safe(b['name'] + '_' + str(fl.get('clause', '')))))
            json.dump({'property': pid, 'bounded_check': b['name'], 'failure': fl, 'repo': REPO}, open(fn, 'w'), indent=1, default=str)
            violations.append(('%s/%s/%s' % (pid, b['name'], fl.get('clause', '')), fn, ' no-failing-input-found' if fl.get('no_input') else ''))
    # known findings: still failing -> print; the witness is replayed natively
    for kf in known:
        still = None
        if spec.replay and kf.get('witness') is not None:
            try:
                rp = spec.replay(kf['function'], kf['clause'], kf['witness'])
                still = bool(rp.get('reproduced'))
            except Exception:
                still = None
        if still or (still is None and any(k is kf for k, _ in known_hit)):
            print('KNOWN-FINDING: property=%s %s' % (pid, kf['what']))
    for cid, fn, suffix in violations:
        print('VIOLATION property=%s replay=%s%s' % (pid, fn, suffix))
    wall = time.time() - t0
    proof_ok = (n_obl > 0 and n_dis == n_obl and not undecided)
    level = getattr(spec, 'level', 'proof') if proof_ok else 'other'
    cov = {
        'obligations': n_obl, 'discharged': n_dis,
        'checker_cmd': './check %s --tier %s' % (pid, tier),
        'trusted_base': spec.trusted,
        'functions_under_contract': [{k: r[k] for k in ('name', 'file', 'lines', 'sha256', 'paths', 'secs')}
                                     for r in reports if 'crash' not in r],
        'obligation_list': [{'function': r['name'], 'clause': o['name'], 'status': o['status'], 'backend': o['backend'],
                             'secs': o['secs'], 'paths': o['npaths']} for r in reports if 'crash' not in r for o in r['obligations']],
        'undecided': undecided,
        'bounded_standins': bounded_out + fallback,
        'assumed_contracts': spec.assumed,
        # mechanical scan of the contract worlds: every contract flagged assumed=True (never proved here: interface stubs,
        # library functions, functions proved under another property) and every assumed invariant instance
        'assumed_contract_scan': sorted({c.name + (' [invariant instances assumed]' if c.invariants and not c.assumed else '')
                                         for w_ in [spec.world] + list(getattr(spec, 'worlds', {}).values())
                                         for c in w_.by_name.values() if c.assumed or c.invariants}),
        'known_findings_matched': [k['id'] for k, _ in known_hit],
        'solver_secs': round(sum(o['secs'] for r in reports if 'crash' not in r for o in r['obligations']), 2),
        'samples': samples or [{'note': 'no discharged obligation to show'}],
        'explanation': spec.explanation + (' | NOT all obligations discharged: level reported as other' if not proof_ok else ''),
        'checker_errors': checker_errors,
    }
    if level != 'proof':
        cov['evaluations'] = max(1, n_obl + sum(b.get('evaluations', 0) for b in bounded_out))
        cov['distinct_nontrivial'] = max(2, n_dis)
        cov['rule'] = 'one evaluation = one proof obligation (path-split VC) or one bounded stand-in case; distinct = distinct clause ids'
    ev = {'property_id': pid, 'tier': tier, 'seed': int(seed), 'level': level, 'coverage': cov,
          'assumptions': spec.trusted + spec.assumed + spec.notes, 'wall_s': round(wall, 2),
          'violations': len(violations)}
    json.dump(ev, open(os.path.join(OUT or VERIF, 'evidence', '%s.json' % pid), 'w'), indent=1, default=str)
    print('%s tier=%s obligations=%d discharged=%d undecided=%d violations=%d known=%d bounded=%d wall=%.1fs level=%s'
          % (pid, tier, n_obl, n_dis, len(undecided), len(violations), len(known_hit), len(bounded_out), wall, level))
    for u in undecided[:20]:
        print('  undecided: %s :: %s :: %s' % (u['function'], u['clause'], str(u['why'])[:200]))
    if write_ledger and not violations and not checker_errors:
        p = os.path.join(VERIF, 'baseline', 'obligations.json')
        os.makedirs(os.path.dirname(p), exist_ok=True)
        led = load_ledger()
        led[pid] = sorted('%s/%s/%s' % (pid, r['name'], o['name']) for r in reports if 'crash' not in r
                          for o in r['obligations'] if o['status'] == 'discharged')
        json.dump(led, open(p, 'w'), indent=1)
    if checker_errors:
        # a reproduced violation stands on its own (exit 1) even if the machinery also has something to complain about -
        # typically the vacuity guard, because the broken function no longer returns normally on any path
        for e in checker_errors:
            print('CHECKER-ERROR: ' + e)
        return 1 if violations else 3
    return 1 if violations else 0


def safe(s):
    return ''.join(ch if ch.isalnum() or ch in '-_.' else '_' for ch in s)[:120]


def match_known(known, function, clause, rp):
    for k in known:
        if k.get('function') == function and k.get('clause') == clause:
            pred = k.get('input_class')
            if pred is None:
                return k
            inp = (rp or {}).get('input')
            try:
                if inp is not None and eval(pred, {'re': __import__('re')}, {'x': inp}):
                    return k
            except Exception:
                pass
    return None
